import YakModel.Proto.NodeSet
/-!
# `NodeSet`: concrete runs (capacity 3), one event at a time

The non-vacuity witnesses of C04 and C06 are concrete runs of the `NodeSet` model. Evaluating a whole
run inside the kernel (`decide` on `exec ⟨3⟩ init run`) is very expensive: the `State` has
function-valued fields (`w`, `sc`, built by nested `upd`) and the intermediate states stay
unevaluated thunks that are re-evaluated at every use. Here every intermediate state is written down
as a literal (`chain`, `nextId`, `completed` explicit; `w` / `sc` as ONE more `upd` on the previous
state's function, which is literally what `step?` produces), so every step
`step? ⟨3⟩ sₖ e = some sₖ₊₁` is a small `rfl`, and `exec` over the run is the composition of the
steps (`exec_cons`). The states were produced by running `step?` (`#eval`); nothing here is trusted:
each `rfl` is checked by the kernel.
-/
namespace Yak.Proto.NodeSet.Witness
open Yak.Proto.NodeSet

theorem exec_cons {c : Cfg} {s s' : State} {e : Event} {es : List Event} {r : Option State}
    (h : step? c s e = some s') (hr : exec c s' es = r) : exec c s (e :: es) = r := by
  simp [exec, h, hr]

theorem exec_append {c : Cfg} {s s' : State} {es es' : List Event} {r : Option State}
    (h : exec c s es = some s') (hr : exec c s' es' = r) : exec c s (es ++ es') = r := by
  induction es generalizing s with
  | nil => simp [exec] at h; subst h; simpa using hr
  | cons e es ih =>
    simp only [List.cons_append, exec] at h ⊢
    cases hs : step? c s e with
    | none => simp [hs] at h
    | some s2 => rw [hs] at h; simpa using ih h

/-! ### the common prefix: keys 1, 3, 5 are stored -/

def pre1 : State :=
  ⟨[⟨0, 0, [], 0, 0, true, false⟩],
   1, upd init.w 0 (.held 1 0),
   init.sc, []⟩
theorem pre1_step : step? ⟨3⟩ init (.wLock 0 1 0) = some pre1 := rfl

def pre2 : State :=
  ⟨[⟨0, 0, [1], 0, 0, true, true⟩],
   1, upd pre1.w 0 (.published 1 0),
   pre1.sc, []⟩
theorem pre2_step : step? ⟨3⟩ pre1 (.wInsert 0) = some pre2 := rfl

def pre3 : State :=
  ⟨[⟨0, 0, [1], 1, 0, false, false⟩],
   1, upd pre2.w 0 .idle,
   pre2.sc, [1]⟩
theorem pre3_step : step? ⟨3⟩ pre2 (.wUnlock 0) = some pre3 := rfl

def pre4 : State :=
  ⟨[⟨0, 0, [1], 1, 0, true, false⟩],
   1, upd pre3.w 0 (.held 3 0),
   pre3.sc, [1]⟩
theorem pre4_step : step? ⟨3⟩ pre3 (.wLock 0 3 0) = some pre4 := rfl

def pre5 : State :=
  ⟨[⟨0, 0, [1, 3], 1, 0, true, true⟩],
   1, upd pre4.w 0 (.published 3 0),
   pre4.sc, [1]⟩
theorem pre5_step : step? ⟨3⟩ pre4 (.wInsert 0) = some pre5 := rfl

def pre6 : State :=
  ⟨[⟨0, 0, [1, 3], 2, 0, false, false⟩],
   1, upd pre5.w 0 .idle,
   pre5.sc, [3, 1]⟩
theorem pre6_step : step? ⟨3⟩ pre5 (.wUnlock 0) = some pre6 := rfl

def pre7 : State :=
  ⟨[⟨0, 0, [1, 3], 2, 0, true, false⟩],
   1, upd pre6.w 0 (.held 5 0),
   pre6.sc, [3, 1]⟩
theorem pre7_step : step? ⟨3⟩ pre6 (.wLock 0 5 0) = some pre7 := rfl

def pre8 : State :=
  ⟨[⟨0, 0, [1, 3, 5], 2, 0, true, true⟩],
   1, upd pre7.w 0 (.published 5 0),
   pre7.sc, [3, 1]⟩
theorem pre8_step : step? ⟨3⟩ pre7 (.wInsert 0) = some pre8 := rfl

def pre9 : State :=
  ⟨[⟨0, 0, [1, 3, 5], 3, 0, false, false⟩],
   1, upd pre8.w 0 .idle,
   pre8.sc, [5, 3, 1]⟩
theorem pre9_step : step? ⟨3⟩ pre8 (.wUnlock 0) = some pre9 := rfl

theorem pre_exec : exec ⟨3⟩ init
    [.wLock 0 1 0, .wInsert 0, .wUnlock 0, .wLock 0 3 0, .wInsert 0, .wUnlock 0, .wLock 0 5 0,
     .wInsert 0, .wUnlock 0] =
    some pre9 :=
  exec_cons pre1_step (exec_cons pre2_step (exec_cons pre3_step (exec_cons pre4_step (exec_cons
    pre5_step (exec_cons pre6_step (exec_cons pre7_step (exec_cons pre8_step (exec_cons pre9_step
    rfl))))))))

/-! ### C04 `overtakenRun` (after `sStart 0 1 6`) -/

def ovt10 : State :=
  ⟨[⟨0, 0, [1, 3, 5], 3, 0, false, false⟩],
   1, pre9.w,
   upd pre9.sc 0 (.want 1 6), [5, 3, 1]⟩
theorem ovt10_step : step? ⟨3⟩ pre9 (.sStart 0 1 6) = some ovt10 := rfl

def ovt11 : State :=
  ⟨[⟨0, 0, [1, 3, 5], 3, 0, false, false⟩],
   1, ovt10.w,
   upd ovt10.sc 0 (.run 1 6 [] [] 0 .fresh), [5, 3, 1]⟩
theorem ovt11_step : step? ⟨3⟩ ovt10 (.sEnter 0 0) = some ovt11 := rfl

def ovt12 : State :=
  ⟨[⟨0, 0, [1, 3, 5], 3, 0, false, false⟩],
   1, ovt11.w,
   upd ovt11.sc 0 (.run 1 6 [] [] 0 (.loaded 3 0)), [5, 3, 1]⟩
theorem ovt12_step : step? ⟨3⟩ ovt11 (.sLoadVer 0) = some ovt12 := rfl

def ovt13 : State :=
  ⟨[⟨0, 0, [1, 3, 5], 3, 0, false, false⟩],
   1, ovt12.w,
   upd ovt12.sc 0 (.run 1 6 [] [] 0 (.snapped 3 0 [1, 3, 5])), [5, 3, 1]⟩
theorem ovt13_step : step? ⟨3⟩ ovt12 (.sSnapshot 0) = some ovt13 := rfl

def ovt14 : State :=
  ⟨[⟨0, 0, [1, 3, 5], 3, 0, true, false⟩],
   1, upd ovt13.w 1 (.held 4 0),
   ovt13.sc, [5, 3, 1]⟩
theorem ovt14_step : step? ⟨3⟩ ovt13 (.wLock 1 4 0) = some ovt14 := rfl

def ovt15 : State :=
  ⟨[⟨0, 0, [1, 3, 4], 3, 0, true, true⟩, ⟨1, 5, [5], 3, 0, true, true⟩],
   2, upd ovt14.w 1 (.splitDone 4 0 1),
   ovt14.sc, [5, 3, 1]⟩
theorem ovt15_step : step? ⟨3⟩ ovt14 (.wSplit 1) = some ovt15 := rfl

def ovt16 : State :=
  ⟨[⟨0, 0, [1, 3, 4], 4, 1, false, false⟩, ⟨1, 5, [5], 3, 0, true, true⟩],
   2, upd ovt15.w 1 (.splitHalf 4 1),
   ovt15.sc, [5, 3, 1]⟩
theorem ovt16_step : step? ⟨3⟩ ovt15 (.wUnlockL 1) = some ovt16 := rfl

def ovt17 : State :=
  ⟨[⟨0, 0, [1, 3, 4], 4, 1, false, false⟩, ⟨1, 5, [5], 4, 1, false, false⟩],
   2, upd ovt16.w 1 .idle,
   ovt16.sc, [4, 5, 3, 1]⟩
theorem ovt17_step : step? ⟨3⟩ ovt16 (.wUnlockR 1) = some ovt17 := rfl

def ovt18 : State :=
  ⟨[⟨0, 0, [1, 3, 4], 4, 1, false, false⟩, ⟨1, 5, [5], 4, 1, false, false⟩],
   2, ovt17.w,
   upd ovt17.sc 0 (.want 1 6), [4, 5, 3, 1]⟩
theorem ovt18_step : step? ⟨3⟩ ovt17 (.sValidate 0) = some ovt18 := rfl

def ovt19 : State :=
  ⟨[⟨0, 0, [1, 3, 4], 4, 1, false, false⟩, ⟨1, 5, [5], 4, 1, false, false⟩],
   2, ovt18.w,
   upd ovt18.sc 0 (.run 1 6 [] [] 0 .fresh), [4, 5, 3, 1]⟩
theorem ovt19_step : step? ⟨3⟩ ovt18 (.sEnter 0 0) = some ovt19 := rfl

def ovt20 : State :=
  ⟨[⟨0, 0, [1, 3, 4], 4, 1, false, false⟩, ⟨1, 5, [5], 4, 1, false, false⟩],
   2, ovt19.w,
   upd ovt19.sc 0 (.run 1 6 [] [] 0 (.loaded 4 1)), [4, 5, 3, 1]⟩
theorem ovt20_step : step? ⟨3⟩ ovt19 (.sLoadVer 0) = some ovt20 := rfl

def ovt21 : State :=
  ⟨[⟨0, 0, [1, 3, 4], 4, 1, false, false⟩, ⟨1, 5, [5], 4, 1, false, false⟩],
   2, ovt20.w,
   upd ovt20.sc 0 (.run 1 6 [] [] 0 (.snapped 4 1 [1, 3, 4])), [4, 5, 3, 1]⟩
theorem ovt21_step : step? ⟨3⟩ ovt20 (.sSnapshot 0) = some ovt21 := rfl

def ovt22 : State :=
  ⟨[⟨0, 0, [1, 3, 4], 4, 1, false, false⟩, ⟨1, 5, [5], 4, 1, false, false⟩],
   2, ovt21.w,
   upd ovt21.sc 0 (.run 1 6 [1, 3, 4] [(0, 4, 1)] 1 .fresh), [4, 5, 3, 1]⟩
theorem ovt22_step : step? ⟨3⟩ ovt21 (.sValidate 0) = some ovt22 := rfl

def ovt23 : State :=
  ⟨[⟨0, 0, [1, 3, 4], 4, 1, false, false⟩, ⟨1, 5, [5], 4, 1, false, false⟩],
   2, ovt22.w,
   upd ovt22.sc 0 (.run 1 6 [1, 3, 4] [(0, 4, 1)] 1 (.loaded 4 1)), [4, 5, 3, 1]⟩
theorem ovt23_step : step? ⟨3⟩ ovt22 (.sLoadVer 0) = some ovt23 := rfl

def ovt24 : State :=
  ⟨[⟨0, 0, [1, 3, 4], 4, 1, false, false⟩, ⟨1, 5, [5], 4, 1, false, false⟩],
   2, ovt23.w,
   upd ovt23.sc 0 (.run 1 6 [1, 3, 4] [(0, 4, 1)] 1 (.snapped 4 1 [5])), [4, 5, 3, 1]⟩
theorem ovt24_step : step? ⟨3⟩ ovt23 (.sSnapshot 0) = some ovt24 := rfl

def ovt25 : State :=
  ⟨[⟨0, 0, [1, 3, 4], 4, 1, false, false⟩, ⟨1, 5, [5], 4, 1, false, false⟩],
   2, ovt24.w,
   upd ovt24.sc 0 (.fin 1 6 [1, 3, 4, 5] [(0, 4, 1), (1, 4, 1)]), [4, 5, 3, 1]⟩
theorem ovt25_step : step? ⟨3⟩ ovt24 (.sValidate 0) = some ovt25 := rfl

def ovt26 : State :=
  ⟨[⟨0, 0, [1, 3, 4], 4, 1, false, false⟩, ⟨1, 5, [5], 4, 1, true, false⟩],
   2, upd ovt25.w 1 (.held 6 1),
   ovt25.sc, [4, 5, 3, 1]⟩
theorem ovt26_step : step? ⟨3⟩ ovt25 (.wLock 1 6 1) = some ovt26 := rfl

def ovt27 : State :=
  ⟨[⟨0, 0, [1, 3, 4], 4, 1, false, false⟩, ⟨1, 5, [5, 6], 4, 1, true, true⟩],
   2, upd ovt26.w 1 (.published 6 1),
   ovt26.sc, [4, 5, 3, 1]⟩
theorem ovt27_step : step? ⟨3⟩ ovt26 (.wInsert 1) = some ovt27 := rfl

def ovt28 : State :=
  ⟨[⟨0, 0, [1, 3, 4], 4, 1, false, false⟩, ⟨1, 5, [5, 6], 5, 1, false, false⟩],
   2, upd ovt27.w 1 .idle,
   ovt27.sc, [6, 4, 5, 3, 1]⟩
theorem ovt28_step : step? ⟨3⟩ ovt27 (.wUnlock 1) = some ovt28 := rfl

theorem ovt_exec : exec ⟨3⟩ ovt10
    [.sEnter 0 0, .sLoadVer 0, .sSnapshot 0, .wLock 1 4 0, .wSplit 1, .wUnlockL 1, .wUnlockR 1,
     .sValidate 0, .sEnter 0 0, .sLoadVer 0, .sSnapshot 0, .sValidate 0, .sLoadVer 0, .sSnapshot 0,
     .sValidate 0, .wLock 1 6 1, .wInsert 1, .wUnlock 1] =
    some ovt28 :=
  exec_cons ovt11_step (exec_cons ovt12_step (exec_cons ovt13_step (exec_cons ovt14_step
    (exec_cons ovt15_step (exec_cons ovt16_step (exec_cons ovt17_step (exec_cons ovt18_step
    (exec_cons ovt19_step (exec_cons ovt20_step (exec_cons ovt21_step (exec_cons ovt22_step
    (exec_cons ovt23_step (exec_cons ovt24_step (exec_cons ovt25_step (exec_cons ovt26_step
    (exec_cons ovt27_step (exec_cons ovt28_step rfl)))))))))))))))))

/-! ### C06 `missedRun` -/

def mis1 : State :=
  ⟨[⟨0, 0, [], 0, 0, true, false⟩],
   1, upd init.w 0 (.held 2 0),
   init.sc, []⟩
theorem mis1_step : step? ⟨3⟩ init (.wLock 0 2 0) = some mis1 := rfl

def mis2 : State :=
  ⟨[⟨0, 0, [2], 0, 0, true, true⟩],
   1, upd mis1.w 0 (.published 2 0),
   mis1.sc, []⟩
theorem mis2_step : step? ⟨3⟩ mis1 (.wInsert 0) = some mis2 := rfl

def mis3 : State :=
  ⟨[⟨0, 0, [2], 1, 0, false, false⟩],
   1, upd mis2.w 0 .idle,
   mis2.sc, [2]⟩
theorem mis3_step : step? ⟨3⟩ mis2 (.wUnlock 0) = some mis3 := rfl

def mis4 : State :=
  ⟨[⟨0, 0, [2], 1, 0, false, false⟩],
   1, mis3.w,
   upd mis3.sc 0 (.want 1 4), [2]⟩
theorem mis4_step : step? ⟨3⟩ mis3 (.sStart 0 1 4) = some mis4 := rfl

def mis5 : State :=
  ⟨[⟨0, 0, [2], 1, 0, false, false⟩],
   1, mis4.w,
   upd mis4.sc 0 (.run 1 4 [] [] 0 .fresh), [2]⟩
theorem mis5_step : step? ⟨3⟩ mis4 (.sEnter 0 0) = some mis5 := rfl

def mis6 : State :=
  ⟨[⟨0, 0, [2], 1, 0, false, false⟩],
   1, mis5.w,
   upd mis5.sc 0 (.run 1 4 [] [] 0 (.loaded 1 0)), [2]⟩
theorem mis6_step : step? ⟨3⟩ mis5 (.sLoadVer 0) = some mis6 := rfl

def mis7 : State :=
  ⟨[⟨0, 0, [2], 1, 0, false, false⟩],
   1, mis6.w,
   upd mis6.sc 0 (.run 1 4 [] [] 0 (.snapped 1 0 [2])), [2]⟩
theorem mis7_step : step? ⟨3⟩ mis6 (.sSnapshot 0) = some mis7 := rfl

def mis8 : State :=
  ⟨[⟨0, 0, [2], 1, 0, false, false⟩],
   1, mis7.w,
   upd mis7.sc 0 (.fin 1 4 [2] [(0, 1, 0)]), [2]⟩
theorem mis8_step : step? ⟨3⟩ mis7 (.sValidate 0) = some mis8 := rfl

def mis9 : State :=
  ⟨[⟨0, 0, [2], 1, 0, true, false⟩],
   1, upd mis8.w 1 (.held 3 0),
   mis8.sc, [2]⟩
theorem mis9_step : step? ⟨3⟩ mis8 (.wLock 1 3 0) = some mis9 := rfl

def mis10 : State :=
  ⟨[⟨0, 0, [2, 3], 1, 0, true, true⟩],
   1, upd mis9.w 1 (.published 3 0),
   mis9.sc, [2]⟩
theorem mis10_step : step? ⟨3⟩ mis9 (.wInsert 1) = some mis10 := rfl

def mis11 : State :=
  ⟨[⟨0, 0, [2, 3], 2, 0, false, false⟩],
   1, upd mis10.w 1 .idle,
   mis10.sc, [3, 2]⟩
theorem mis11_step : step? ⟨3⟩ mis10 (.wUnlock 1) = some mis11 := rfl

theorem mis_exec : exec ⟨3⟩ init
    [.wLock 0 2 0, .wInsert 0, .wUnlock 0, .sStart 0 1 4, .sEnter 0 0, .sLoadVer 0, .sSnapshot 0,
     .sValidate 0, .wLock 1 3 0, .wInsert 1, .wUnlock 1] =
    some mis11 :=
  exec_cons mis1_step (exec_cons mis2_step (exec_cons mis3_step (exec_cons mis4_step (exec_cons
    mis5_step (exec_cons mis6_step (exec_cons mis7_step (exec_cons mis8_step (exec_cons mis9_step
    (exec_cons mis10_step (exec_cons mis11_step rfl))))))))))

/-! ### C06 `exactRun` (after the prefix) -/

def exa10 : State :=
  ⟨[⟨0, 0, [1, 3, 5], 3, 0, true, false⟩],
   1, upd pre9.w 1 (.held 4 0),
   pre9.sc, [5, 3, 1]⟩
theorem exa10_step : step? ⟨3⟩ pre9 (.wLock 1 4 0) = some exa10 := rfl

def exa11 : State :=
  ⟨[⟨0, 0, [1, 3, 4], 3, 0, true, true⟩, ⟨1, 5, [5], 3, 0, true, true⟩],
   2, upd exa10.w 1 (.splitDone 4 0 1),
   exa10.sc, [5, 3, 1]⟩
theorem exa11_step : step? ⟨3⟩ exa10 (.wSplit 1) = some exa11 := rfl

def exa12 : State :=
  ⟨[⟨0, 0, [1, 3, 4], 4, 1, false, false⟩, ⟨1, 5, [5], 3, 0, true, true⟩],
   2, upd exa11.w 1 (.splitHalf 4 1),
   exa11.sc, [5, 3, 1]⟩
theorem exa12_step : step? ⟨3⟩ exa11 (.wUnlockL 1) = some exa12 := rfl

def exa13 : State :=
  ⟨[⟨0, 0, [1, 3, 4], 4, 1, false, false⟩, ⟨1, 5, [5], 4, 1, false, false⟩],
   2, upd exa12.w 1 .idle,
   exa12.sc, [4, 5, 3, 1]⟩
theorem exa13_step : step? ⟨3⟩ exa12 (.wUnlockR 1) = some exa13 := rfl

def exa14 : State :=
  ⟨[⟨0, 0, [1, 3, 4], 4, 1, false, false⟩, ⟨1, 5, [5], 4, 1, false, false⟩],
   2, exa13.w,
   upd exa13.sc 0 (.want 1 6), [4, 5, 3, 1]⟩
theorem exa14_step : step? ⟨3⟩ exa13 (.sStart 0 1 6) = some exa14 := rfl

def exa15 : State :=
  ⟨[⟨0, 0, [1, 3, 4], 4, 1, false, false⟩, ⟨1, 5, [5], 4, 1, false, false⟩],
   2, exa14.w,
   upd exa14.sc 0 (.run 1 6 [] [] 0 .fresh), [4, 5, 3, 1]⟩
theorem exa15_step : step? ⟨3⟩ exa14 (.sEnter 0 0) = some exa15 := rfl

def exa16 : State :=
  ⟨[⟨0, 0, [1, 3, 4], 4, 1, false, false⟩, ⟨1, 5, [5], 4, 1, false, false⟩],
   2, exa15.w,
   upd exa15.sc 0 (.run 1 6 [] [] 0 (.loaded 4 1)), [4, 5, 3, 1]⟩
theorem exa16_step : step? ⟨3⟩ exa15 (.sLoadVer 0) = some exa16 := rfl

def exa17 : State :=
  ⟨[⟨0, 0, [1, 3, 4], 4, 1, false, false⟩, ⟨1, 5, [5], 4, 1, false, false⟩],
   2, exa16.w,
   upd exa16.sc 0 (.run 1 6 [] [] 0 (.snapped 4 1 [1, 3, 4])), [4, 5, 3, 1]⟩
theorem exa17_step : step? ⟨3⟩ exa16 (.sSnapshot 0) = some exa17 := rfl

def exa18 : State :=
  ⟨[⟨0, 0, [1, 3, 4], 4, 1, false, false⟩, ⟨1, 5, [5], 4, 1, false, false⟩],
   2, exa17.w,
   upd exa17.sc 0 (.run 1 6 [1, 3, 4] [(0, 4, 1)] 1 .fresh), [4, 5, 3, 1]⟩
theorem exa18_step : step? ⟨3⟩ exa17 (.sValidate 0) = some exa18 := rfl

def exa19 : State :=
  ⟨[⟨0, 0, [1, 3, 4], 4, 1, false, false⟩, ⟨1, 5, [5], 4, 1, false, false⟩],
   2, exa18.w,
   upd exa18.sc 0 (.run 1 6 [1, 3, 4] [(0, 4, 1)] 1 (.loaded 4 1)), [4, 5, 3, 1]⟩
theorem exa19_step : step? ⟨3⟩ exa18 (.sLoadVer 0) = some exa19 := rfl

def exa20 : State :=
  ⟨[⟨0, 0, [1, 3, 4], 4, 1, false, false⟩, ⟨1, 5, [5], 4, 1, false, false⟩],
   2, exa19.w,
   upd exa19.sc 0 (.run 1 6 [1, 3, 4] [(0, 4, 1)] 1 (.snapped 4 1 [5])), [4, 5, 3, 1]⟩
theorem exa20_step : step? ⟨3⟩ exa19 (.sSnapshot 0) = some exa20 := rfl

def exa21 : State :=
  ⟨[⟨0, 0, [1, 3, 4], 4, 1, false, false⟩, ⟨1, 5, [5], 4, 1, false, false⟩],
   2, exa20.w,
   upd exa20.sc 0 (.fin 1 6 [1, 3, 4, 5] [(0, 4, 1), (1, 4, 1)]), [4, 5, 3, 1]⟩
theorem exa21_step : step? ⟨3⟩ exa20 (.sValidate 0) = some exa21 := rfl

theorem exa_exec : exec ⟨3⟩ pre9
    [.wLock 1 4 0, .wSplit 1, .wUnlockL 1, .wUnlockR 1, .sStart 0 1 6, .sEnter 0 0, .sLoadVer 0,
     .sSnapshot 0, .sValidate 0, .sLoadVer 0, .sSnapshot 0, .sValidate 0] =
    some exa21 :=
  exec_cons exa10_step (exec_cons exa11_step (exec_cons exa12_step (exec_cons exa13_step
    (exec_cons exa14_step (exec_cons exa15_step (exec_cons exa16_step (exec_cons exa17_step
    (exec_cons exa18_step (exec_cons exa19_step (exec_cons exa20_step (exec_cons exa21_step
    rfl)))))))))))

/-! ### C06 `splitRun` (after the prefix) -/

def spl10 : State :=
  ⟨[⟨0, 0, [1, 3, 5], 3, 0, false, false⟩],
   1, pre9.w,
   upd pre9.sc 0 (.want 1 6), [5, 3, 1]⟩
theorem spl10_step : step? ⟨3⟩ pre9 (.sStart 0 1 6) = some spl10 := rfl

def spl11 : State :=
  ⟨[⟨0, 0, [1, 3, 5], 3, 0, false, false⟩],
   1, spl10.w,
   upd spl10.sc 0 (.run 1 6 [] [] 0 .fresh), [5, 3, 1]⟩
theorem spl11_step : step? ⟨3⟩ spl10 (.sEnter 0 0) = some spl11 := rfl

def spl12 : State :=
  ⟨[⟨0, 0, [1, 3, 5], 3, 0, false, false⟩],
   1, spl11.w,
   upd spl11.sc 0 (.run 1 6 [] [] 0 (.loaded 3 0)), [5, 3, 1]⟩
theorem spl12_step : step? ⟨3⟩ spl11 (.sLoadVer 0) = some spl12 := rfl

def spl13 : State :=
  ⟨[⟨0, 0, [1, 3, 5], 3, 0, false, false⟩],
   1, spl12.w,
   upd spl12.sc 0 (.run 1 6 [] [] 0 (.snapped 3 0 [1, 3, 5])), [5, 3, 1]⟩
theorem spl13_step : step? ⟨3⟩ spl12 (.sSnapshot 0) = some spl13 := rfl

def spl14 : State :=
  ⟨[⟨0, 0, [1, 3, 5], 3, 0, false, false⟩],
   1, spl13.w,
   upd spl13.sc 0 (.fin 1 6 [1, 3, 5] [(0, 3, 0)]), [5, 3, 1]⟩
theorem spl14_step : step? ⟨3⟩ spl13 (.sValidate 0) = some spl14 := rfl

def spl15 : State :=
  ⟨[⟨0, 0, [1, 3, 5], 3, 0, true, false⟩],
   1, upd spl14.w 1 (.held 6 0),
   spl14.sc, [5, 3, 1]⟩
theorem spl15_step : step? ⟨3⟩ spl14 (.wLock 1 6 0) = some spl15 := rfl

def spl16 : State :=
  ⟨[⟨0, 0, [1, 3], 3, 0, true, true⟩, ⟨1, 5, [5, 6], 3, 0, true, true⟩],
   2, upd spl15.w 1 (.splitDone 6 0 1),
   spl15.sc, [5, 3, 1]⟩
theorem spl16_step : step? ⟨3⟩ spl15 (.wSplit 1) = some spl16 := rfl

def spl17 : State :=
  ⟨[⟨0, 0, [1, 3], 4, 1, false, false⟩, ⟨1, 5, [5, 6], 3, 0, true, true⟩],
   2, upd spl16.w 1 (.splitHalf 6 1),
   spl16.sc, [5, 3, 1]⟩
theorem spl17_step : step? ⟨3⟩ spl16 (.wUnlockL 1) = some spl17 := rfl

def spl18 : State :=
  ⟨[⟨0, 0, [1, 3], 4, 1, false, false⟩, ⟨1, 5, [5, 6], 4, 1, false, false⟩],
   2, upd spl17.w 1 .idle,
   spl17.sc, [6, 5, 3, 1]⟩
theorem spl18_step : step? ⟨3⟩ spl17 (.wUnlockR 1) = some spl18 := rfl

theorem spl_exec : exec ⟨3⟩ pre9
    [.sStart 0 1 6, .sEnter 0 0, .sLoadVer 0, .sSnapshot 0, .sValidate 0, .wLock 1 6 0, .wSplit 1,
     .wUnlockL 1, .wUnlockR 1] =
    some spl18 :=
  exec_cons spl10_step (exec_cons spl11_step (exec_cons spl12_step (exec_cons spl13_step
    (exec_cons spl14_step (exec_cons spl15_step (exec_cons spl16_step (exec_cons spl17_step
    (exec_cons spl18_step rfl))))))))

end Yak.Proto.NodeSet.Witness
