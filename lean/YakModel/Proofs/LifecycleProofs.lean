import YakModel.Proto.Lifecycle
/-!
# Invariants of the `Lifecycle` model (repaired code, `fixD4 = true`)

`LInv` ties the phase (`up`, `finishing`) to the stop flags and the thread states:
down ⇒ nothing of the previous cycle is left and no thread runs; live ⇒ both threads run and both
flags are clear; finishing ⇒ both flags are set. With it every down state behaves like the boot
state under `init`, and `epochIter` / `gcIter` never make a thread exit while the system is live.
-/
namespace Yak.Proto.Lifecycle

structure LInv (c : Cfg) (s : State) : Prop where
  len : s.slots.length = c.nSlots
  down : s.up = false → s.finishing = false ∧ s.storages = [] ∧ s.retired = 0 ∧
    s.epochThread ≠ .running ∧ s.gcThread ≠ .running
  live : s.up = true → s.finishing = false → s.epochThread = .running ∧ s.gcThread = .running ∧
    s.epochEnd = false ∧ s.gcEnd = false
  fin : s.finishing = true → s.up = true ∧ s.epochEnd = true ∧ s.gcEnd = true ∧ s.storages = [] ∧
    s.epochThread ≠ .notStarted ∧ s.gcThread ≠ .notStarted
  epoch_pos : 1 ≤ s.epoch

theorem linv_boot (c : Cfg) : LInv c (boot c) := by
  constructor <;> simp [boot, freeSlots]

theorem linv_step {c : Cfg} (hfix : c.fixD4 = true) {s s' : State} {e : Event}
    (hinv : LInv c s) (hs : Step c s e s') : LInv c s' := by
  obtain ⟨h1, h2, h3, h4, h5⟩ := hinv
  unfold Step at hs
  cases e with
  | init =>
    simp only [step?] at hs
    split at hs
    · cases hs
      constructor <;> simp_all [freeSlots]
    · cases hs
  | epochIter =>
    simp only [step?] at hs
    split at hs
    · cases hs
      constructor <;> simp_all
    · cases hs
  | gcIter =>
    simp only [step?] at hs
    split at hs
    · cases hs
      constructor <;> simp_all
    · cases hs
  | create n =>
    simp only [step?] at hs
    split at hs
    · cases hs
      constructor <;> simp_all [State.live]
    · cases hs
  | delete n =>
    simp only [step?] at hs
    split at hs
    · cases hs
      constructor <;> simp_all [State.live]
    · cases hs
  | retire =>
    simp only [step?] at hs
    split at hs
    · cases hs
      constructor <;> simp_all [State.live]
    · cases hs
  | destroy =>
    simp only [step?] at hs
    split at hs
    · cases hs
      constructor <;> simp_all [State.live]
    · cases hs
  | finBegin =>
    simp only [step?] at hs
    split at hs
    · cases hs
      constructor <;> simp_all [State.live]
    · cases hs
  | finEnd =>
    simp only [step?] at hs
    split at hs
    · cases hs
      constructor <;> simp_all
    · cases hs
  | enter k =>
    simp only [step?] at hs
    split at hs
    · split at hs
      · cases hs
        constructor <;> simp_all [State.live]
      · cases hs
    · cases hs
  | leave k =>
    simp only [step?] at hs
    split at hs
    · split at hs
      · cases hs
        constructor <;> simp_all [State.live]
      · cases hs
    · cases hs

theorem linv_reach {c : Cfg} (hfix : c.fixD4 = true) {s : State} (h : Reach c s) : LInv c s := by
  induction h with
  | boot => exact linv_boot c
  | step _ hs ih => exact linv_step hfix ih hs

/-! ## traces -/

theorem reach_exec {c : Cfg} : ∀ (es : List Event) {s s' : State}, Reach c s →
    exec c s es = some s' → Reach c s'
  | [], s, s', hr, h => by cases h; exact hr
  | e :: es, s, s', hr, h => by
    simp only [exec] at h
    cases h1 : step? c s e with
    | none => rw [h1] at h; cases h
    | some s1 => rw [h1] at h; exact reach_exec es (Reach.step hr h1) h

theorem exec_append (c : Cfg) : ∀ (es1 es2 : List Event) (s : State),
    exec c s (es1 ++ es2) = (exec c s es1).bind (fun s' => exec c s' es2)
  | [], _, _ => rfl
  | e :: es1, es2, s => by
    simp only [List.cons_append, exec]
    cases step? c s e with
    | none => rfl
    | some s1 => exact exec_append c es1 es2 s1

theorem exec_of_reach {c : Cfg} {s : State} (h : Reach c s) :
    ∃ es, exec c (boot c) es = some s := by
  induction h with
  | boot => exact ⟨[], rfl⟩
  | @step s s' e _ hs ih =>
    obtain ⟨es, hes⟩ := ih
    refine ⟨es ++ [e], ?_⟩
    rw [exec_append, hes]
    have : step? c s e = some s' := hs
    simp [exec, this]

/-! ## a new cycle starts like the first one -/

theorem first_init (c : Cfg) : step? c (boot c) .init = some (firstUp c) := by
  cases hc : c.fixD4 <;> simp [step?, boot, firstUp, hc]

theorem init_from_down {c : Cfg} (hfix : c.fixD4 = true) {s : State} (hinv : LInv c s)
    (hdown : s.up = false) :
    step? c s .init = some { firstUp c with epoch := s.epoch, cycles := s.cycles } := by
  obtain ⟨hf, hst, hret, _, _⟩ := hinv.down hdown
  cases s
  simp_all [step?, firstUp]

theorem empty_cycle_from_down {c : Cfg} (hfix : c.fixD4 = true) {s : State} (hinv : LInv c s)
    (hdown : s.up = false) :
    ∃ s', exec c s emptyCycle = some s' ∧ s'.up = false ∧ s'.cycles = s.cycles + 1 := by
  have h := init_from_down hfix hinv hdown
  simp only [emptyCycle, exec, h]
  simp [step?, firstUp, State.live]

theorem down_reachable {c : Cfg} (hfix : c.fixD4 = true) :
    ∀ k : Nat, ∃ s, Reach c s ∧ s.up = false ∧ s.cycles = k
  | 0 => ⟨boot c, Reach.boot, rfl, rfl⟩
  | k + 1 => by
    obtain ⟨s, hr, hd, hc⟩ := down_reachable hfix k
    obtain ⟨s', h1, h2, h3⟩ := empty_cycle_from_down hfix (linv_reach hfix hr) hd
    exact ⟨s', reach_exec _ hr h1, h2, by rw [h3, hc]⟩

theorem live_reachable {c : Cfg} (hfix : c.fixD4 = true) (k : Nat) :
    ∃ s, Reach c s ∧ s.up = true ∧ s.finishing = false ∧ s.cycles = k := by
  obtain ⟨s, hr, hd, hc⟩ := down_reachable hfix k
  have h := init_from_down hfix (linv_reach hfix hr) hd
  exact ⟨_, Reach.step hr h, rfl, rfl, hc⟩

/-! ## the threads keep working while the system is live -/

theorem epoch_iter_live {c : Cfg} {s : State} (hinv : LInv c s) (hup : s.up = true)
    (hnf : s.finishing = false) :
    step? c s .epochIter = some { s with epoch := s.epoch + 1 } := by
  obtain ⟨h1, h2, h3, h4⟩ := hinv.live hup hnf
  cases s
  simp_all [step?]

theorem gc_iter_live {c : Cfg} {s : State} (hinv : LInv c s) (hup : s.up = true)
    (hnf : s.finishing = false) :
    step? c s .gcIter = some { s with retired := 0 } := by
  obtain ⟨h1, h2, h3, h4⟩ := hinv.live hup hnf
  cases s
  simp_all [step?]

/-! ## destroy -/

theorem destroy_live (c : Cfg) {s : State} (hup : s.up = true) (hnf : s.finishing = false) :
    step? c s .destroy = some { s with storages := [] } := by
  simp [step?, State.live, hup, hnf]

theorem create_after_destroy (c : Cfg) {s : State} (hup : s.up = true) (hnf : s.finishing = false)
    (hfree : s.hasFreeSlot = true) (n : Name) :
    step? c { s with storages := [] } (.create n) = some { s with storages := [n] } := by
  simp only [State.hasFreeSlot] at hfree
  simp [step?, State.live, State.hasFreeSlot, hup, hnf, hfree]

/-! ## fin -/

theorem fin_from_live {c : Cfg} {s : State} (hinv : LInv c s) (hup : s.up = true)
    (hnf : s.finishing = false) :
    exec c s [.finBegin, .epochIter, .gcIter, .finEnd] =
      some { s with storages := [], epochEnd := true, gcEnd := true, epochThread := .exited,
                    gcThread := .exited, epoch := s.epoch + 1, retired := 0, up := false,
                    finishing := false, cycles := s.cycles + 1 } := by
  obtain ⟨h1, h2, h3, h4⟩ := hinv.live hup hnf
  cases s
  simp_all [exec, step?, State.live]

theorem exists_of_map {β} {o : Option State} {f : State → β} {v : β} (h : o.map f = some v) :
    ∃ s', o = some s' ∧ f s' = v := by
  cases o with
  | none => cases h
  | some x => exact ⟨x, rfl, by simpa using h⟩

/-- once fin() has set the flags, whatever the threads were doing, at most one more iteration of
    each lets fin() return -/
theorem fin_completes {c : Cfg} {s : State} (hinv : LInv c s) (hf : s.finishing = true) :
    ∃ es s', (∀ e ∈ es, e = .epochIter ∨ e = .gcIter ∨ e = .finEnd) ∧ es.length ≤ 3 ∧
      exec c s es = some s' ∧ s'.up = false ∧ s'.cycles = s.cycles + 1 := by
  obtain ⟨h1, h2, h3, h4, h5, h6⟩ := hinv.fin hf
  have mk : ∀ es : List Event, (∀ e ∈ es, e = .epochIter ∨ e = .gcIter ∨ e = .finEnd) →
      es.length ≤ 3 →
      (exec c s es).map (fun s' => (s'.up, s'.cycles)) = some (false, s.cycles + 1) →
      ∃ es s', (∀ e ∈ es, e = .epochIter ∨ e = .gcIter ∨ e = .finEnd) ∧ es.length ≤ 3 ∧
        exec c s es = some s' ∧ s'.up = false ∧ s'.cycles = s.cycles + 1 := by
    intro es hes hlen hmap
    obtain ⟨s', hs', hv⟩ := exists_of_map hmap
    simp only [Prod.mk.injEq] at hv
    exact ⟨es, s', hes, hlen, hs', hv.1, hv.2⟩
  cases he : s.epochThread with
  | notStarted => exact absurd he h5
  | running =>
    cases hg : s.gcThread with
    | notStarted => exact absurd hg h6
    | running =>
      exact mk [.epochIter, .gcIter, .finEnd] (by simp) (by simp)
        (by simp [exec, step?, he, hg, h2, h3, hf])
    | exited =>
      exact mk [.epochIter, .finEnd] (by simp) (by simp) (by simp [exec, step?, he, hg, h2, h3, hf])
  | exited =>
    cases hg : s.gcThread with
    | notStarted => exact absurd hg h6
    | running =>
      exact mk [.gcIter, .finEnd] (by simp) (by simp) (by simp [exec, step?, he, hg, h2, h3, hf])
    | exited =>
      exact mk [.finEnd] (by simp) (by simp) (by simp [exec, step?, he, hg, h2, h3, hf])

/-! ## the defect D4 in general: from the second cycle on the flags stay set -/

structure DInv (s : State) : Prop where
  flags : (s.finishing = true ∨ 1 ≤ s.cycles) → s.epochEnd = true ∧ s.gcEnd = true

theorem dinv_step {c : Cfg} (hd4 : c.fixD4 = false) {s s' : State} {e : Event}
    (hinv : DInv s) (hs : Step c s e s') : DInv s' := by
  obtain ⟨h1⟩ := hinv
  unfold Step at hs
  cases e with
  | enter k =>
    simp only [step?] at hs
    split at hs
    · split at hs
      · cases hs; exact ⟨h1⟩
      · cases hs
    · cases hs
  | leave k =>
    simp only [step?] at hs
    split at hs
    · split at hs
      · cases hs; exact ⟨h1⟩
      · cases hs
    · cases hs
  | finEnd =>
    simp only [step?] at hs
    split at hs
    · rename_i hg
      cases hs
      exact ⟨fun _ => h1 (Or.inl hg.1)⟩
    · cases hs
  | _ =>
    simp only [step?] at hs
    split at hs
    · cases hs
      constructor
      simp_all
    · cases hs

theorem dinv_reach {c : Cfg} (hd4 : c.fixD4 = false) {s : State} (h : Reach c s) : DInv s := by
  induction h with
  | boot => exact ⟨by simp [boot]⟩
  | step _ hs ih => exact dinv_step hd4 ih hs

end Yak.Proto.Lifecycle
