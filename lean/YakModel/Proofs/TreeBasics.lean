import YakModel.Proofs.LayerOps
/-!
# The storage as a finite map from prefixes to leaf chains

`lay t : prefix → Option (List Leaf)` is the view of a tree all proofs work with; `setLayer`,
`eraseLayer` and `++` are point updates of it. `FCore` / `FEmpt` restate `Inv` on that view.
`lookT t q k` is the entry a descent finds for tuple `k` in layer `q`; `walkM` is the descent of
`get` over such a lookup function.
-/
namespace Yak.Tree
open Yak

/-! ### key tuples of keys -/

theorem ofKey_long {r : Key} (h : r.length > 8) : KT.ofKey r = ⟨r.take 8, 9⟩ := by
  unfold KT.ofKey; rw [if_pos h]

theorem ofKey_short {r : Key} (h : ¬ r.length > 8) : KT.ofKey r = ⟨padTo 8 r, r.length⟩ := by
  unfold KT.ofKey; rw [if_neg h]

theorem ofKey_len_long {r : Key} (h : r.length > 8) : (KT.ofKey r).len = 9 := by rw [ofKey_long h]

theorem ofKey_len_short {r : Key} (h : ¬ r.length > 8) : (KT.ofKey r).len = r.length := by
  rw [ofKey_short h]

theorem ofKey_slice_long {r : Key} (h : r.length > 8) : (KT.ofKey r).slice = r.take 8 := by
  rw [ofKey_long h]

theorem ofKey_len_ne9 {r : Key} (h : ¬ r.length > 8) : (KT.ofKey r).len ≠ 9 := by
  rw [ofKey_len_short h]; omega

theorem padTo_take (r : Key) (h : r.length ≤ 8) : (padTo 8 r).take r.length = r := by
  unfold padTo
  rw [List.take_of_length_le h, List.take_left]

theorem ofKey_inj_short {r r' : Key} (h : ¬ r.length > 8) (h' : ¬ r'.length > 8)
    (e : KT.ofKey r = KT.ofKey r') : r = r' := by
  rw [ofKey_short h, ofKey_short h'] at e
  injection e with e1 e2
  have := padTo_take r (by omega)
  rw [e1, e2, padTo_take r' (by omega)] at this
  exact this.symm

theorem ofKey_eq_long {r r' : Key} (h : r.length > 8) (e : KT.ofKey r' = KT.ofKey r) :
    r'.length > 8 ∧ r'.take 8 = r.take 8 := by
  by_cases h' : r'.length > 8
  · rw [ofKey_long h, ofKey_long h'] at e
    injection e with e1 _
    exact ⟨h', e1⟩
  · have := congrArg KT.len e
    rw [ofKey_len_long h, ofKey_len_short h'] at this
    omega

theorem ofKey_eq_short {r r' : Key} (h : ¬ r.length > 8) (e : KT.ofKey r' = KT.ofKey r) : r' = r := by
  by_cases h' : r'.length > 8
  · have := congrArg KT.len e
    rw [ofKey_len_long h', ofKey_len_short h] at this
    omega
  · exact ofKey_inj_short h' h e

theorem ofKey_len_zero {r : Key} (h : (KT.ofKey r).len = 0) : r = [] := by
  by_cases h' : r.length > 8
  · rw [ofKey_len_long h'] at h; cases h
  · rw [ofKey_len_short h'] at h; exact List.eq_nil_of_length_eq_zero h

/-! ### `findLayer` under the three tree edits -/

theorem findLayer_some {t : Tree} {p : List UInt8} {L : Layer} (h : findLayer t p = some L) :
    L.pfx = p ∧ L ∈ t := by
  unfold findLayer at h
  exact ⟨by simpa using List.find?_some h, List.mem_of_find?_eq_some h⟩

theorem findLayer_setLayer (t : Tree) (L : Layer) (q : List UInt8) :
    findLayer (setLayer t L) q = if q = L.pfx then some L else findLayer t q := by
  unfold setLayer findLayer
  by_cases hany : (t.any fun M => M.pfx == L.pfx) = true
  · rw [if_pos hany, List.find?_map]
    have hcomp : ((fun M : Layer => M.pfx == q) ∘ fun M => if (M.pfx == L.pfx) = true then L else M) =
        fun M : Layer => M.pfx == q := by
      funext M
      simp only [Function.comp]
      by_cases hM : M.pfx = L.pfx
      · simp [hM]
      · have : (M.pfx == L.pfx) = false := by simp [hM]
        simp [this]
    rw [hcomp]
    by_cases hq : q = L.pfx
    · rw [if_pos hq]
      subst hq
      obtain ⟨M, hM, hMp⟩ := List.any_eq_true.mp hany
      cases hf : List.find? (fun M => M.pfx == L.pfx) t with
      | none => exact absurd hMp (List.find?_eq_none.mp hf M hM)
      | some M' =>
        have := List.find?_some hf
        simp only [beq_iff_eq] at this
        simp [this]
    · rw [if_neg hq]
      cases hf : List.find? (fun M => M.pfx == q) t with
      | none => rfl
      | some M' =>
        have := List.find?_some hf
        simp only [beq_iff_eq] at this
        have hne : M'.pfx ≠ L.pfx := by rw [this]; exact hq
        simp [hne]
  · rw [if_neg hany, List.find?_append]
    have hno : ∀ M ∈ t, ¬ (M.pfx == L.pfx) = true := by
      intro M hM h; exact hany (List.any_eq_true.mpr ⟨M, hM, h⟩)
    by_cases hq : q = L.pfx
    · rw [if_pos hq]; subst hq
      rw [List.find?_eq_none.mpr hno]
      simp
    · rw [if_neg hq]
      have : (L.pfx == q) = false := by simp [Ne.symm hq]
      simp [this]

theorem findLayer_eraseLayer (t : Tree) (p q : List UInt8) :
    findLayer (eraseLayer t p) q = if q = p then none else findLayer t q := by
  unfold eraseLayer findLayer
  rw [List.find?_filter]
  by_cases hq : q = p
  · rw [if_pos hq]; subst hq
    rw [List.find?_eq_none]
    intro x _; simp
  · rw [if_neg hq]
    congr 1
    funext M
    by_cases hM : M.pfx = q
    · simp [hM, hq]
    · simp [hM]

theorem findLayer_append (t s : Tree) (q : List UInt8) :
    findLayer (t ++ s) q = (findLayer t q).or (findLayer s q) := by
  unfold findLayer; rw [List.find?_append]

theorem findLayer_of_mem {t : Tree} (hnd : (t.map (·.pfx)).Nodup) {L : Layer} (h : L ∈ t) :
    findLayer t L.pfx = some L := by
  induction t with
  | nil => cases h
  | cons M t ih =>
    simp only [List.map_cons, List.nodup_cons] at hnd
    unfold findLayer
    rw [List.find?_cons]
    rcases List.mem_cons.mp h with e | h'
    · subst e; simp
    · have : M.pfx ≠ L.pfx := by
        intro e; apply hnd.1; rw [e]; exact List.mem_map.mpr ⟨L, h', rfl⟩
      have hb : (M.pfx == L.pfx) = false := by simp [this]
      rw [hb]
      exact ih hnd.2 h'

/-! ### nodup of prefixes under the edits -/

theorem pfx_setLayer_of_mem {t : Tree} {L : Layer} (h : (findLayer t L.pfx).isSome) :
    (setLayer t L).map (·.pfx) = t.map (·.pfx) := by
  unfold setLayer
  have hany : (t.any fun M => M.pfx == L.pfx) = true := by
    cases hf : findLayer t L.pfx with
    | none => rw [hf] at h; cases h
    | some M =>
      have := findLayer_some hf
      exact List.any_eq_true.mpr ⟨M, this.2, by simp [this.1]⟩
  rw [if_pos hany, List.map_map]
  apply List.map_congr_left
  intro M _
  simp only [Function.comp]
  by_cases hM : M.pfx = L.pfx
  · simp [hM]
  · have : (M.pfx == L.pfx) = false := by simp [hM]
    simp [this]

theorem length_setLayer_of_mem {t : Tree} {L : Layer} (h : (findLayer t L.pfx).isSome) :
    (setLayer t L).length = t.length := by
  have := congrArg List.length (pfx_setLayer_of_mem h)
  simpa using this

theorem nodup_eraseLayer {t : Tree} (hnd : (t.map (·.pfx)).Nodup) (p : List UInt8) :
    ((eraseLayer t p).map (·.pfx)).Nodup := by
  unfold eraseLayer
  exact List.Nodup.sublist (List.Sublist.map _ List.filter_sublist) hnd

theorem mem_pfx_iff {t : Tree} {q : List UInt8} : q ∈ t.map (·.pfx) ↔ (findLayer t q).isSome := by
  constructor
  · intro h
    obtain ⟨M, hM, hq⟩ := List.mem_map.mp h
    cases hf : findLayer t q with
    | none =>
      unfold findLayer at hf
      have := List.find?_eq_none.mp hf M hM
      simp [hq] at this
    | some _ => rfl
  · intro h
    cases hf : findLayer t q with
    | none => rw [hf] at h; cases h
    | some M =>
      have := findLayer_some hf
      exact List.mem_map.mpr ⟨M, this.2, this.1⟩

theorem nodup_append_tree {t s : Tree} (ht : (t.map (·.pfx)).Nodup) (hs : (s.map (·.pfx)).Nodup)
    (hd : ∀ q, (findLayer s q).isSome → findLayer t q = none) : ((t ++ s).map (·.pfx)).Nodup := by
  rw [List.map_append, List.nodup_append]
  refine ⟨ht, hs, ?_⟩
  intro a ha b hb e
  subst e
  have h1 := mem_pfx_iff.mp ha
  have h2 := hd a (mem_pfx_iff.mp hb)
  rw [h2] at h1; cases h1

/-! ### the view -/

def lay (t : Tree) (p : List UInt8) : Option (List Leaf) := (findLayer t p).map (·.leaves)

def upd (F : List UInt8 → Option (List Leaf)) (p : List UInt8) (v : Option (List Leaf)) :
    List UInt8 → Option (List Leaf) := fun q => if q = p then v else F q

theorem upd_same (F p v) : upd F p v p = v := by simp [upd]
theorem upd_other (F p v) {q} (h : q ≠ p) : upd F p v q = F q := by simp [upd, h]

theorem lay_of_findLayer {t : Tree} {p : List UInt8} {L : Layer} (h : findLayer t p = some L) :
    lay t p = some L.leaves := by simp [lay, h]

theorem findLayer_of_lay {t : Tree} {p : List UInt8} {ls : List Leaf} (h : lay t p = some ls) :
    findLayer t p = some ⟨p, ls⟩ := by
  unfold lay at h
  cases hf : findLayer t p with
  | none => rw [hf] at h; cases h
  | some L =>
    rw [hf] at h
    have := (findLayer_some hf).1
    simp only [Option.map_some, Option.some.injEq] at h
    cases L; simp_all

theorem lay_isSome {t : Tree} {p : List UInt8} : (lay t p).isSome = (findLayer t p).isSome := by
  simp [lay]

theorem lay_setLayer (t : Tree) (L : Layer) : lay (setLayer t L) = upd (lay t) L.pfx (some L.leaves) := by
  funext q
  unfold lay upd
  rw [findLayer_setLayer]
  by_cases hq : q = L.pfx <;> simp [hq]

theorem lay_eraseLayer (t : Tree) (p : List UInt8) : lay (eraseLayer t p) = upd (lay t) p none := by
  funext q
  unfold lay upd
  rw [findLayer_eraseLayer]
  by_cases hq : q = p <;> simp [hq]

theorem lay_append (t s : Tree) (q : List UInt8) : lay (t ++ s) q = (lay t q).or (lay s q) := by
  unfold lay
  rw [findLayer_append]
  cases findLayer t q <;> simp

/-! ### the invariant on the view -/

structure FCore (F : List UInt8 → Option (List Leaf)) : Prop where
  root : (F []).isSome
  plen : ∀ p ls, F p = some ls → p.length % 8 = 0
  core : ∀ p ls, F p = some ls → LayerCore ls
  down : ∀ p ls, F p = some ls → ∀ e ∈ layerEnts ls, e.kt.len = 9 → (F (p ++ e.kt.slice)).isSome
  nz : ∀ p ls, F p = some ls → p ≠ [] → ∀ e ∈ layerEnts ls, e.kt.len ≠ 0
  up : ∀ p ls, F p = some ls → p ≠ [] →
    ∃ us, F (p.take (p.length - 8)) = some us ∧
      ∃ e ∈ layerEnts us, e.kt = ⟨p.drop (p.length - 8), 9⟩

def FEmpt (F : List UInt8 → Option (List Leaf)) : Prop :=
  ∀ p ls, F p = some ls → EmptOK p.isEmpty ls

theorem isSome_findLayer_iff {t : Tree} {q : List UInt8} :
    (findLayer t q).isSome ↔ ∃ L ∈ t, L.pfx = q := by
  rw [← mem_pfx_iff, List.mem_map]

theorem inv_iff (t : Tree) :
    Inv t ↔ (t.map (·.pfx)).Nodup ∧ FCore (lay t) ∧ FEmpt (lay t) := by
  constructor
  · rintro ⟨hnd, hroot, hall⟩
    have key : ∀ p ls, lay t p = some ls → LayerOK t ⟨p, ls⟩ := by
      intro p ls h
      exact hall _ (findLayer_some (findLayer_of_lay h)).2
    refine ⟨hnd, ⟨?_, ?_, ?_, ?_, ?_, ?_⟩, ?_⟩
    · rw [lay_isSome]; exact isSome_findLayer_iff.mpr hroot
    · intro p ls h; exact (key p ls h).1
    · intro p ls h; exact (key p ls h).2.1
    · intro p ls h e he h9
      rw [lay_isSome]; exact isSome_findLayer_iff.mpr ((key p ls h).2.2.2.1 e he h9)
    · intro p ls h hp; exact ((key p ls h).2.2.2.2 hp).1
    · intro p ls h hp
      obtain ⟨U, hU, hUp, hx⟩ := ((key p ls h).2.2.2.2 hp).2
      refine ⟨U.leaves, ?_, hx⟩
      have := findLayer_of_mem hnd hU
      rw [hUp] at this
      exact lay_of_findLayer this
    · intro p ls h; exact (key p ls h).2.2.1
  · rintro ⟨hnd, hF, hE⟩
    refine ⟨hnd, ?_, ?_⟩
    · have := hF.root; rw [lay_isSome] at this; exact isSome_findLayer_iff.mp this
    · intro L hL
      have hl : lay t L.pfx = some L.leaves := lay_of_findLayer (findLayer_of_mem hnd hL)
      refine ⟨hF.plen _ _ hl, hF.core _ _ hl, hE _ _ hl, ?_, ?_⟩
      · intro e he h9
        have := hF.down _ _ hl e he h9
        rw [lay_isSome] at this; exact isSome_findLayer_iff.mp this
      · intro hp
        refine ⟨hF.nz _ _ hl hp, ?_⟩
        obtain ⟨us, hus, hx⟩ := hF.up _ _ hl hp
        have := findLayer_some (findLayer_of_lay hus)
        exact ⟨_, this.2, rfl, hx⟩

/-! ### lookups on the view -/

def lookF (F : List UInt8 → Option (List Leaf)) (q : List UInt8) (k : KT) : Option Ent :=
  (F q).bind (fun ls => layerGet ls k)

theorem lookF_some_iff {F : List UInt8 → Option (List Leaf)} {q : List UInt8} {ls : List Leaf}
    (h : F q = some ls) (hc : LayerCore ls) {k : KT} (hk : k.WF) (e : Ent) :
    lookF F q k = some e ↔ e ∈ layerEnts ls ∧ e.kt = k := by
  unfold lookF; rw [h]; exact layerGet_some_iff hc hk e

theorem lookF_none_iff {F : List UInt8 → Option (List Leaf)} {q : List UInt8} {ls : List Leaf}
    (h : F q = some ls) (hc : LayerCore ls) {k : KT} (hk : k.WF) :
    lookF F q k = none ↔ ∀ e ∈ layerEnts ls, e.kt ≠ k := by
  unfold lookF; rw [h]; exact layerGet_none_iff hc hk

theorem lookF_of_none {F : List UInt8 → Option (List Leaf)} {q : List UInt8} (h : F q = none) (k : KT) :
    lookF F q k = none := by unfold lookF; rw [h]; rfl

/-- the descent of `get` over a lookup function -/
def walkM (M : List UInt8 → KT → Option Ent) (p : List UInt8) (rest : Key) : Option Val :=
  match M p (KT.ofKey rest) with
  | none => none
  | some e => if _h : rest.length > 8 then walkM M (p ++ rest.take 8) (rest.drop 8) else e.val
termination_by rest.length
decreasing_by
  simp only [List.length_drop]; omega

theorem walkM_none {M : List UInt8 → KT → Option Ent} {p : List UInt8} {rest : Key}
    (h : M p (KT.ofKey rest) = none) : walkM M p rest = none := by
  rw [walkM, h]

theorem walkM_long {M : List UInt8 → KT → Option Ent} {p : List UInt8} {rest : Key} {e : Ent}
    (h : M p (KT.ofKey rest) = some e) (hl : rest.length > 8) :
    walkM M p rest = walkM M (p ++ rest.take 8) (rest.drop 8) := by
  rw [walkM, h]; simp only; rw [dif_pos hl]

theorem walkM_short {M : List UInt8 → KT → Option Ent} {p : List UInt8} {rest : Key} {e : Ent}
    (h : M p (KT.ofKey rest) = some e) (hl : ¬ rest.length > 8) :
    walkM M p rest = e.val := by
  rw [walkM, h]; simp only; rw [dif_neg hl]

/-- a descent from `p` only looks at layers whose prefix extends `p`. -/
theorem walkM_congr {M M' : List UInt8 → KT → Option Ent} (p : List UInt8) (rest : Key)
    (h : ∀ q k, p <+: q → k.WF → M q k = M' q k) : walkM M p rest = walkM M' p rest := by
  have h0 := h p (KT.ofKey rest) (List.prefix_refl p) (KT.ofKey_wf rest)
  cases hm : M p (KT.ofKey rest) with
  | none => rw [walkM_none hm, walkM_none (h0 ▸ hm)]
  | some e =>
    by_cases hl : rest.length > 8
    · rw [walkM_long hm hl, walkM_long (h0 ▸ hm) hl]
      exact walkM_congr (p ++ rest.take 8) (rest.drop 8)
        (fun q k hq hk => h q k (List.IsPrefix.trans (List.prefix_append p _) hq) hk)
    · rw [walkM_short hm hl, walkM_short (h0 ▸ hm) hl]
termination_by rest.length
decreasing_by
  simp only [List.length_drop]; omega

/-! ### `getAt` is that descent -/

theorem getAt_step {t : Tree} {p : List UInt8} {L : Layer} (hL : findLayer t p = some L) (rest : Key) :
    getAt t p rest =
      match layerGet L.leaves (KT.ofKey rest) with
      | none => { status := .WARN_NOT_EXIST, node := some (mkRef L (route (KT.ofKey rest) L.leaves)) }
      | some e =>
        if rest.length > 8 then getAt t (p ++ rest.take 8) (rest.drop 8)
        else match e.val with
          | some v => { status := .OK, val := some v }
          | none => { status := .ERR_MODEL } := by
  rw [getAt, hL]
  simp only [layerGet, leafGet]
  cases leafLookup (KT.ofKey rest) (leafKeys (L.leaves.getD (route (KT.ofKey rest) L.leaves) emptyLeaf)) with
  | none => rfl
  | some r =>
    simp only [Option.map_some]
    by_cases hl : rest.length > 8
    · rw [dif_pos hl, if_pos hl]
    · rw [dif_neg hl, if_neg hl]
      generalize ((L.leaves.getD (route (KT.ofKey rest) L.leaves) emptyLeaf).ents.getD r default).val = o
      cases o <;> rfl

theorem getAt_none {t : Tree} {p : List UInt8} (hL : findLayer t p = none) (rest : Key) :
    getAt t p rest = { status := .ERR_MODEL } := by
  rw [getAt, hL]

theorem lookF_lay {t : Tree} {p : List UInt8} {L : Layer} (hL : findLayer t p = some L) (k : KT) :
    lookF (lay t) p k = layerGet L.leaves k := by
  unfold lookF; rw [lay_of_findLayer hL]; rfl

theorem getAt_val (t : Tree) (p : List UInt8) (rest : Key) :
    (getAt t p rest).val = walkM (lookF (lay t)) p rest := by
  cases hL : findLayer t p with
  | none =>
    rw [getAt_none hL, walkM_none]
    apply lookF_of_none; simp [lay, hL]
  | some L =>
    rw [getAt_step hL]
    have hk := lookF_lay hL (KT.ofKey rest)
    cases hg : layerGet L.leaves (KT.ofKey rest) with
    | none => rw [hg] at hk; rw [walkM_none hk]
    | some e =>
      rw [hg] at hk
      simp only
      by_cases hl : rest.length > 8
      · rw [if_pos hl, walkM_long hk hl]
        exact getAt_val t _ _
      · rw [if_neg hl, walkM_short hk hl]
        cases e.val <;> rfl
termination_by rest.length
decreasing_by
  simp only [List.length_drop]; omega

theorem getAt_status {t : Tree} (hF : FCore (lay t)) (p : List UInt8) (rest : Key)
    (hp : (lay t p).isSome) :
    (getAt t p rest).status =
      if (walkM (lookF (lay t)) p rest).isSome then Status.OK else Status.WARN_NOT_EXIST := by
  cases hL : findLayer t p with
  | none => rw [lay_isSome, hL] at hp; cases hp
  | some L =>
    rw [getAt_step hL]
    have hk := lookF_lay hL (KT.ofKey rest)
    have hlay := lay_of_findLayer hL
    have hc := hF.core _ _ hlay
    cases hg : layerGet L.leaves (KT.ofKey rest) with
    | none => rw [hg] at hk; rw [walkM_none hk]; rfl
    | some e =>
      rw [hg] at hk
      obtain ⟨he, hek⟩ := (layerGet_some_iff hc (KT.ofKey_wf rest) e).mp hg
      simp only
      by_cases hl : rest.length > 8
      · rw [if_pos hl, walkM_long hk hl]
        have h9 : e.kt.len = 9 := by rw [hek, ofKey_len_long hl]
        have := hF.down _ _ hlay e he h9
        rw [hek, ofKey_slice_long hl] at this
        exact getAt_status hF _ _ this
      · rw [if_neg hl, walkM_short hk hl]
        have h9 : e.kt.len ≠ 9 := by rw [hek]; exact ofKey_len_ne9 hl
        have := (layerEnts_wf hc he).2
        cases hv : e.val with
        | none => exact absurd (this.mp hv) h9
        | some v => rfl
termination_by rest.length
decreasing_by
  simp only [List.length_drop]; omega

end Yak.Tree
