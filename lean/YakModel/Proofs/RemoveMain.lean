import YakModel.Proofs.HandleEmpty
/-!
# `removeAt` by induction along the descent; the `remove` theorem of C02
-/
namespace Yak.Tree
open Yak

/-- `t1` is `t` with the entry for `rest` (seen from layer `p`) erased, nothing else touched. -/
structure EraseGood (t t1 : Tree) (p : List UInt8) (rest : Key) : Prop where
  frame : ∀ q, ¬ p <+: q → lay t1 q = lay t q
  walk : ∀ rest', walkM (lookF (lay t1)) p rest' =
    if rest' = rest then none else walkM (lookF (lay t)) p rest'

theorem EraseGood.lift {t t1 : Tree} {p : List UInt8} {rest : Key} {e : Ent}
    (hlook : lookF (lay t) p (KT.ofKey rest) = some e) (hl : rest.length > 8)
    (h : EraseGood t t1 (p ++ rest.take 8) (rest.drop 8)) : EraseGood t t1 p rest := by
  have hs8 := take8_len hl
  refine ⟨?_, ?_⟩
  · intro q hq
    exact h.frame q (fun h' => hq (List.IsPrefix.trans (List.prefix_append _ _) h'))
  · intro rest'
    have hp : lay t1 p = lay t p := h.frame p (not_prefix_append_self _ _ (ne_nil_of_len8 hs8))
    have hlk : ∀ k, lookF (lay t1) p k = lookF (lay t) p k := fun k => lookF_congr_lay hp k
    cases hm : lookF (lay t) p (KT.ofKey rest') with
    | none =>
      have hne : rest' ≠ rest := by intro e'; subst e'; rw [hlook] at hm; cases hm
      rw [if_neg hne, walkM_none hm, walkM_none (by rw [hlk]; exact hm)]
    | some e' =>
      by_cases hl' : rest'.length > 8
      · rw [walkM_long hm hl', walkM_long (by rw [hlk]; exact hm) hl']
        by_cases ht : rest'.take 8 = rest.take 8
        · rw [ht, h.walk]
          by_cases e1 : rest' = rest
          · rw [if_pos e1, if_pos ((eq_iff_drop8 ht).mp e1)]
          · rw [if_neg e1, if_neg (fun h => e1 ((eq_iff_drop8 ht).mpr h))]
        · have hne : rest' ≠ rest := by intro e'; subst e'; exact ht rfl
          rw [if_neg hne]
          apply walkM_congr
          intro q k hq _
          apply lookF_congr_lay
          apply h.frame
          exact fun h' => not_prefix_of_slice_ne hs8 (take8_len hl') ht hq h'
      · have hne : rest' ≠ rest := by intro e'; subst e'; exact hl' hl
        rw [if_neg hne, walkM_short hm hl', walkM_short (by rw [hlk]; exact hm) hl']

theorem upd_upd (F : List UInt8 → Option (List Leaf)) (p : List UInt8) (x y : Option (List Leaf)) :
    upd (upd F p x) p y = upd F p y := by
  funext q; unfold upd; split <;> rfl

/-- the non-recursive tail of `removeAt`: erase the entry, then repair an emptied leaf. -/
theorem remove_base {t : Tree} (hnd : (t.map (·.pfx)).Nodup) (hF : FCore (lay t)) (hE : FEmpt (lay t))
    {p : List UInt8} {L : Layer} (hL : findLayer t p = some L) {rest : Key}
    (hshort : ¬ rest.length > 8) {r : Nat} {leaf0 : Leaf}
    (hleaf0 : L.leaves.getD (route (KT.ofKey rest) L.leaves) emptyLeaf = leaf0)
    (hlk : leafLookup (KT.ofKey rest) (leafKeys leaf0) = some r) (dirs : List Bool) :
    ∃ t1, t1 = setLayer t { L with leaves := (L.leaves.set (route (KT.ofKey rest) L.leaves)
        { leaf0 with ents := leaf0.ents.eraseIdx r }) } ∧
      EraseGood t t1 p rest ∧
      ((leaf0.ents.eraseIdx r).isEmpty = false → HE t1 t1) ∧
      ((leaf0.ents.eraseIdx r).isEmpty = true →
        HE t1 (handleEmpty t1 p (route (KT.ofKey rest) L.leaves) dirs 0 (p.length / 8 + 1)).1) := by
  have hLp : L.pfx = p := (findLayer_some hL).1
  have hlay : lay t p = some L.leaves := lay_of_findLayer hL
  have hc : LayerCore L.leaves := hF.core _ _ hlay
  have hkw : (KT.ofKey rest).WF := KT.ofKey_wf rest
  obtain ⟨pre, leaf, post, hr⟩ := route_decomp hc hkw
  rw [hr.getD] at hleaf0
  subst hleaf0
  rw [hr.set]
  have heq := hr.eq
  have hl : LeafOK leaf := by rw [heq] at hc; exact hc.leafOK
  obtain ⟨a, e, b, h3, h4, h5, _⟩ := leafLookup_split hl hkw hlk
  have herase : leaf.ents.eraseIdx r = a ++ b := by
    rw [h3, ← h4, List.eraseIdx_eq_take_drop_succ]; simp
  rw [herase, hLp]
  generalize hleaf' : ({ leaf with ents := a ++ b } : Leaf) = leaf'
  have hents' : leaf'.ents = a ++ b := by rw [← hleaf']
  have hfence' : leaf'.fence = leaf.fence := by rw [← hleaf']
  have hdel' : leaf'.deleted = leaf.deleted := by rw [← hleaf']
  have hc0 : LayerCore (pre ++ leaf :: post) := heq ▸ hc
  obtain ⟨hc', hmem⟩ := erase_layer hc0 h3 hfence' hents'
  rw [h5, ← heq] at hmem
  generalize ht1 : setLayer t { pfx := p, leaves := pre ++ leaf' :: post } = t1
  have hview : lay t1 = upd (lay t) p (some (pre ++ leaf' :: post)) := by
    rw [← ht1]; exact lay_setLayer _ _
  have hp' : lay t1 p = some (pre ++ leaf' :: post) := by rw [hview]; exact upd_same _ _ _
  have hnd1 : (t1.map (·.pfx)).Nodup := by
    rw [← ht1, pfx_setLayer_of_mem (by simp only; rw [hL]; rfl)]; exact hnd
  have hF1 : FCore (lay t1) := by
    rw [hview]
    refine hF.update hlay hc' ?_ ?_
    · intro x hx; exact Or.inl ((hmem x).mp hx).1
    · intro x hx hx9
      refine (hmem x).mpr ⟨hx, ?_⟩
      intro hk; rw [hk] at hx9; exact ofKey_len_ne9 hshort hx9
  refine ⟨t1, rfl, ?_, ?_, ?_⟩
  · -- EraseGood
    refine ⟨?_, ?_⟩
    · intro q hq
      rw [hview, upd_other]
      intro e; subst e; exact hq (List.prefix_refl _)
    · intro rest'
      by_cases hk : KT.ofKey rest' = KT.ofKey rest
      · have e' := ofKey_eq_short hshort hk
        subst e'
        rw [if_pos rfl]
        apply walkM_none
        rw [lookF_none_iff hp' hc' hkw]
        intro x hx; exact ((hmem x).mp hx).2
      · have hne : rest' ≠ rest := fun e => hk (by rw [e])
        rw [if_neg hne]
        refine walk_other hlay hp' hc hc' (k := KT.ofKey rest) ?_ ?_ hk
        · intro x hx
          rw [hmem]
          exact ⟨fun h => h.1, fun h => ⟨h, hx⟩⟩
        · intro s' hs' _ q hq
          rw [hview]
          apply upd_other
          intro e; subst e; exact not_prefix_append_self _ _ (ne_nil_of_len8 hs') hq
  · -- still an entry left in the leaf
    intro hne
    refine ⟨hnd1, hF1, ?_, fun _ _ => rfl⟩
    rw [hview]
    apply hE.update
    have hEl := hE _ _ hlay
    rw [heq] at hEl
    have hfull := hEl.allFull (leaf := leaf) (by rw [h3]; simp)
    have hd : leaf.deleted = false := (hfull leaf (by simp)).2
    refine (hfull.others.insert (leaf := leaf') ?_ (by rw [hdel', hd])).emptOK _
    rw [hents']; intro e; rw [e] at hne; cases hne
  · -- the leaf became empty
    intro hemp
    have hab : a ++ b = [] := by simpa using hemp
    refine handleEmpty_spec _ t1 p _ pre leaf' post hnd1 hF1 ?_ hp' hr.len (by rw [hents', hab]) ?_
      (Nat.le_refl _) dirs 0
    · rw [hview, upd_upd]; exact hE.erase p
    · have hEl := hE _ _ hlay
      rw [heq] at hEl
      exact hEl.others_full

theorem removeAt_spec {t : Tree} (hnd : (t.map (·.pfx)).Nodup) (hF : FCore (lay t)) (hE : FEmpt (lay t))
    (dirs : List Bool) : ∀ (rest : Key) (p : List UInt8), (lay t p).isSome →
    (walkM (lookF (lay t)) p rest = none →
      (removeAt t p rest dirs).status = .OK_NOT_FOUND ∧ (removeAt t p rest dirs).tree = t) ∧
    (walkM (lookF (lay t)) p rest ≠ none →
      (removeAt t p rest dirs).status = .OK ∧
      ∃ t1, EraseGood t t1 p rest ∧ HE t1 (removeAt t p rest dirs).tree) := by
  intro rest
  induction hn : rest.length using Nat.strongRecOn generalizing rest with
  | _ n ih =>
    intro p hp
    cases hL : findLayer t p with
    | none => rw [lay_isSome, hL] at hp; cases hp
    | some L =>
      rw [removeAt, hL]
      dsimp only
      cases hlk : leafLookup (KT.ofKey rest)
          (leafKeys (L.leaves.getD (route (KT.ofKey rest) L.leaves) emptyLeaf)) with
      | none =>
        have hg := layerGet_of_lookup_none hlk
        have hw : walkM (lookF (lay t)) p rest = none := by
          apply walkM_none; rw [lookF_lay hL]; exact hg
        dsimp only
        exact ⟨fun _ => ⟨rfl, rfl⟩, fun h => absurd hw h⟩
      | some r =>
        have hg := layerGet_of_lookup hlk
        have hlook := (lookF_lay hL (KT.ofKey rest)).trans hg
        dsimp only
        by_cases hl : rest.length > 8
        · rw [dif_pos hl, walkM_long hlook hl]
          have := ih (rest.drop 8).length (by simp only [List.length_drop]; omega) (rest.drop 8) rfl
            (p ++ rest.take 8) (down_of_lookF hF hlook hl)
          refine ⟨this.1, ?_⟩
          intro h
          obtain ⟨h1, t1, h2, h3⟩ := this.2 h
          exact ⟨h1, t1, h2.lift hlook hl, h3⟩
        · rw [dif_neg hl, walkM_short hlook hl]
          have hval := val_of_lookF_short hF hlook hl
          refine ⟨fun h => absurd h hval, fun _ => ?_⟩
          obtain ⟨t1, ht1, hgood, hne, hemp⟩ := remove_base hnd hF hE hL hl rfl hlk dirs
          rw [← ht1]
          cases hb : ((L.leaves.getD (route (KT.ofKey rest) L.leaves) emptyLeaf).ents.eraseIdx r).isEmpty with
          | false =>
            rw [if_neg (by simp)]
            exact ⟨rfl, t1, hgood, hne hb⟩
          | true =>
            rw [if_pos rfl]
            refine ⟨?_, t1, hgood, ?_⟩
            · cases handleEmpty t1 p (route (KT.ofKey rest) L.leaves) dirs 0 (p.length / 8 + 1); rfl
            · have := hemp hb
              cases hh : handleEmpty t1 p (route (KT.ofKey rest) L.leaves) dirs 0 (p.length / 8 + 1) with
              | mk t2 used => rw [hh] at this; exact this

theorem remove_refines (t : Tree) (k : Key) (dirs : List Bool) (h : Inv t) :
    (remove t k dirs).status = (if ((get t k).val).isSome then Status.OK else Status.OK_NOT_FOUND) ∧
    Inv (remove t k dirs).tree ∧
    ∀ k', (get (remove t k dirs).tree k').val = if k' = k then none else (get t k').val := by
  obtain ⟨hnd, hF, hE⟩ := (inv_iff t).mp h
  have hs := removeAt_spec hnd hF hE dirs k [] hF.root
  unfold get remove
  rw [getAt_val]
  cases hw : walkM (lookF (lay t)) [] k with
  | none =>
    obtain ⟨h1, h2⟩ := hs.1 hw
    rw [h1, h2]
    refine ⟨rfl, h, ?_⟩
    intro k'
    rw [getAt_val]
    by_cases e : k' = k
    · rw [if_pos e, e, hw]
    · rw [if_neg e]
  | some v =>
    obtain ⟨h1, t1, h2, h3⟩ := hs.2 (by rw [hw]; simp)
    refine ⟨by rw [h1]; rfl, (inv_iff _).mpr ⟨h3.nodup, h3.core, h3.empt⟩, ?_⟩
    intro k'
    rw [getAt_val, getAt_val, h3.walk, h2.walk]

end Yak.Tree
