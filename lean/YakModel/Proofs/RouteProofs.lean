import YakModel.Route
import YakModel.Proofs.KeyOrderProofs
/-!
# Descending through interior nodes reaches the leaf the fence rule picks

`descend t k` follows `interior_node::get_child_of` (`routeIdx`) from the root of a dumped B+-tree
to a border node. The sequential model has no interior nodes; it routes on the flattened chain
`chainOf t none` by "the last leaf whose fence is `≤ k`" (`byFence`). `descend_eq_byFence` says the
two arrive at the same leaf, for every well-formed key at or above the subtree's lower bound,
provided

* `RouteWF t` — every interior node has one more child than separators and well-formed separators
  (all evaluated by `checkInteriors`, see `routeWF_of_check`), and
* `fencesSorted (chainOf t lo)` — the fences of the flattened chain are strictly increasing. The
  fences of `chainOf` *are* the separators in in-order, the first one being `lo`, so this one
  hypothesis says both that separators increase across the whole tree and that everything inside a
  subtree is above the bound inherited from above. It is evaluated by `checkChain`
  (`fencesSorted_of_checkChain`).

`checkLayer_routes` puts the two together for a dump accepted by `checkLayer`;
`checkLayer_routes_model` restates the result with the model's own routing function: the leaf reached
is the one at index `Tree.route k ls` of the chain, for any model chain `ls` with the same fences.
`Example` is a closed two-level tree (and a `RouteWF` tree with unsorted fences on which the two
routings differ, so `fencesSorted` cannot be dropped).
-/
namespace Yak.Route
open Yak Yak.Shape

/-! ### order facts on well-formed tuples -/

theorem kt_lt_trans {a b c : KT} (ha : a.WF) (hb : b.WF) (hc : c.WF)
    (h1 : KT.lt a b = true) (h2 : KT.lt b c = true) : KT.lt a c = true := by
  rw [KT.lt_eq_ltSpec _ _ ha hb] at h1
  rw [KT.lt_eq_ltSpec _ _ hb hc] at h2
  rw [KT.lt_eq_ltSpec _ _ ha hc]
  exact KT.ltSpec_trans a b c h1 h2

theorem routeLeft_eq_lt (k s : KT) (hk : k.WF) (hs : s.WF) : routeLeft k s = KT.lt k s := by
  rw [routeLeft_eq k s hk hs, KT.lt_eq_ltSpec k s hk hs]

/-! ### the fence rule on lists -/

theorem byFence_append (A B : List DLeaf) (k : KT) :
    byFence (A ++ B) k = (byFence B k).or (byFence A k) := by
  unfold byFence
  rw [List.filter_append, List.getLast?_append]

theorem byFence_eq_none (B : List DLeaf) (k : KT) (h : ∀ l ∈ B, fenceLe l.fence k = false) :
    byFence B k = none := by
  unfold byFence
  have : B.filter (fun l => fenceLe l.fence k) = [] := by
    rw [List.filter_eq_nil_iff]
    intro l hl
    rw [h l hl]; simp
  rw [this]; rfl

theorem byFence_singleton (l : DLeaf) (k : KT) (h : fenceLe l.fence k = true) :
    byFence [l] k = some l := by
  simp [byFence, List.filter, h]

theorem byFence_cons_isSome (l : DLeaf) (rest : List DLeaf) (k : KT)
    (h : fenceLe l.fence k = true) : (byFence (l :: rest) k).isSome = true := by
  have : l :: rest = [l] ++ rest := rfl
  rw [this, byFence_append, byFence_singleton l k h]
  cases byFence rest k <;> rfl

/-! ### shape of the flattened chain -/

mutual
/-- the chain of a `RouteWF` tree starts with a leaf whose fence is the inherited lower bound, and
    every other leaf has a fence. -/
theorem chainOf_shape : ∀ (t : BTree) (lo : Option KT), RouteWF t →
    ∃ v e rest, chainOf t lo = ⟨lo, v, e⟩ :: rest ∧ ∀ l ∈ rest, l.fence.isSome = true
  | .border v ents, lo, _ => ⟨v, ents, [], by simp [chainOf]⟩
  | .interior v ks cs, lo, h => by
    simp only [RouteWF] at h
    simp only [chainOf]
    exact chainOfChildren_shape cs ks lo h.2.2.2 h.1

theorem chainOfChildren_shape : ∀ (cs : List BTree) (ks : List KT) (lo : Option KT),
    RouteWFList cs → cs.length = ks.length + 1 →
    ∃ v e rest, chainOfChildren cs ks lo = ⟨lo, v, e⟩ :: rest ∧ ∀ l ∈ rest, l.fence.isSome = true
  | [], _, _, _, hl => by simp at hl
  | c :: cs, ks, lo, h, hl => by
    simp only [RouteWFList] at h
    obtain ⟨v, e, rest, hc, hr⟩ := chainOf_shape c lo h.1
    simp only [chainOfChildren, hc]
    cases ks with
    | nil =>
      have : cs = [] := by
        cases cs with
        | nil => rfl
        | cons _ _ => simp at hl
      subst this
      exact ⟨v, e, rest, by simp [chainOfChildren], hr⟩
    | cons s ks' =>
      obtain ⟨v', e', rest', hc', hr'⟩ :=
        chainOfChildren_shape cs ks' (some s) h.2 (by simpa using hl)
      refine ⟨v, e, rest ++ ⟨some s, v', e'⟩ :: rest', by simp [hc'], ?_⟩
      intro l hl'
      rcases List.mem_append.mp hl' with h1 | h1
      · exact hr l h1
      · rcases List.mem_cons.mp h1 with h2 | h2
        · rw [h2]; rfl
        · exact hr' l h2
end

/-- every fence of the chain is a well-formed tuple -/
def FencesWF (ch : List DLeaf) : Prop := ∀ l ∈ ch, ∀ f, l.fence = some f → f.WF

mutual
/-- the fences of the flattened chain are the inherited bound and separators, hence well formed. -/
theorem chainOf_fencesWF : ∀ (t : BTree) (lo : Option KT), RouteWF t →
    (∀ f, lo = some f → f.WF) → FencesWF (chainOf t lo)
  | .border v ents, lo, _, hlo => by
    intro l hl f hf
    simp only [chainOf, List.mem_singleton] at hl
    subst hl
    exact hlo f hf
  | .interior v ks cs, lo, h, hlo => by
    simp only [RouteWF] at h
    simp only [chainOf]
    exact chainOfChildren_fencesWF cs ks lo h.2.2.2 h.2.2.1 hlo

theorem chainOfChildren_fencesWF : ∀ (cs : List BTree) (ks : List KT) (lo : Option KT),
    RouteWFList cs → (∀ s ∈ ks, s.WF) → (∀ f, lo = some f → f.WF) →
    FencesWF (chainOfChildren cs ks lo)
  | [], _, _, _, _, _ => by
    intro l hl
    simp [chainOfChildren] at hl
  | c :: cs, ks, lo, h, hks, hlo => by
    simp only [RouteWFList] at h
    intro l hl
    simp only [chainOfChildren, List.mem_append] at hl
    rcases hl with hl | hl
    · exact chainOf_fencesWF c lo h.1 hlo l hl
    · refine chainOfChildren_fencesWF cs ks.tail ks.head? h.2 ?_ ?_ l hl
      · intro s hs
        exact hks s (List.mem_of_mem_tail hs)
      · intro f hf
        exact hks f (List.mem_of_head? hf)
end

/-! ### the main theorem -/

mutual
/-- **Interior descent = fence rule.** For every well-formed key at or above the subtree's lower
    bound `lo`, following `get_child_of` down a `RouteWF` tree whose flattened chain has strictly
    increasing fences ends in the last leaf of that chain whose fence is `≤ k`. -/
theorem descend_eq_byFence : ∀ (t : BTree) (lo : Option KT) (k : KT), RouteWF t →
    fencesSorted (chainOf t lo) → k.WF → fenceLe lo k = true →
    descend t k = (byFence (chainOf t lo) k).map leafOut
  | .border v ents, lo, k, _, _, _, hle => by
    simp only [descend, chainOf]
    rw [byFence_singleton _ k hle]
    rfl
  | .interior v ks cs, lo, k, h, hs, hk, hle => by
    simp only [RouteWF] at h
    simp only [descend, chainOf] at hs ⊢
    exact descendAt_eq_byFence cs ks lo k h.2.2.2 h.1 h.2.2.1 hs hk hle

theorem descendAt_eq_byFence : ∀ (cs : List BTree) (ks : List KT) (lo : Option KT) (k : KT),
    RouteWFList cs → cs.length = ks.length + 1 → (∀ s ∈ ks, s.WF) →
    fencesSorted (chainOfChildren cs ks lo) → k.WF → fenceLe lo k = true →
    descendAt cs (routeIdx k ks) k = (byFence (chainOfChildren cs ks lo) k).map leafOut
  | [], _, _, _, _, hl, _, _, _, _ => by simp at hl
  | c :: cs, [], lo, k, h, hl, _, hs, hk, hle => by
    have : cs = [] := by
      cases cs with
      | nil => rfl
      | cons _ _ => simp at hl
    subst this
    simp only [RouteWFList] at h
    simp only [chainOfChildren, List.append_nil, routeIdx, descendAt] at hs ⊢
    exact descend_eq_byFence c lo k h.1 hs hk hle
  | c :: cs, s :: ks, lo, k, h, hl, hks, hs, hk, hle => by
    simp only [RouteWFList] at h
    have hsw : s.WF := hks s (by simp)
    have hks' : ∀ x ∈ ks, x.WF := fun x hx => hks x (by simp [hx])
    have hl' : cs.length = ks.length + 1 := by simpa using hl
    simp only [chainOfChildren, List.tail_cons, List.head?_cons] at hs ⊢
    unfold fencesSorted at hs
    rw [List.pairwise_append] at hs
    obtain ⟨hsA, hsB, _⟩ := hs
    obtain ⟨v', e', rest', hB, _⟩ := chainOfChildren_shape cs ks (some s) h.2 hl'
    have hwB : FencesWF (chainOfChildren cs ks (some s)) :=
      chainOfChildren_fencesWF cs ks (some s) h.2 hks' (by intro f hf; cases hf; exact hsw)
    rw [byFence_append]
    by_cases hr : routeLeft k s = true
    · -- `k < s`: child 0, and no leaf right of it qualifies
      have hlt : KT.lt k s = true := by rw [← routeLeft_eq_lt k s hk hsw]; exact hr
      have hnone : byFence (chainOfChildren cs ks (some s)) k = none := by
        apply byFence_eq_none
        intro l hl
        rw [hB] at hl hsB hwB
        rcases List.mem_cons.mp hl with e | e
        · subst e
          simp [fenceLe, hlt]
        · have hgt := (List.pairwise_cons.mp hsB).1 l e
          cases hf : l.fence with
          | none => rw [hf] at hgt; simp [fenceLt] at hgt
          | some f =>
            rw [hf] at hgt
            have hfw : f.WF := hwB l (List.mem_cons_of_mem _ e) f hf
            have : KT.lt k f = true := kt_lt_trans hk hsw hfw hlt (by simpa [fenceLt] using hgt)
            simp [fenceLe, this]
      rw [hnone, Option.none_or]
      simp only [routeIdx, hr, if_true, descendAt]
      exact descend_eq_byFence c lo k h.1 hsA hk hle
    · -- `s ≤ k`: some child to the right, and the leaf found there is the last one overall
      have hge : fenceLe (some s) k = true := by
        have : KT.lt k s = false := by
          rw [← routeLeft_eq_lt k s hk hsw]; simpa using hr
        simp [fenceLe, this]
      have hsome : (byFence (chainOfChildren cs ks (some s)) k).isSome = true := by
        rw [hB]; exact byFence_cons_isSome _ _ k hge
      have ih := descendAt_eq_byFence cs ks (some s) k h.2 hl' hks' hsB hk hge
      have hr' : routeLeft k s = false := by simpa using hr
      simp only [routeIdx, hr', Bool.false_eq_true, if_false, descendAt]
      rw [ih]
      cases hb : byFence (chainOfChildren cs ks (some s)) k with
      | none => rw [hb] at hsome; cases hsome
      | some x => rfl
end

/-- top level: the whole layer, no lower bound. -/
theorem descend_eq_byFence_root (t : BTree) (k : KT) (h : RouteWF t)
    (hs : fencesSorted (chainOf t none)) (hk : k.WF) :
    descend t k = (byFence (chainOf t none) k).map leafOut :=
  descend_eq_byFence t none k h hs hk rfl

/-- the fence rule always finds a leaf: the chain of a `RouteWF` tree is non-empty and its first
    fence is the lower bound. -/
theorem byFence_isSome (t : BTree) (lo : Option KT) (k : KT) (h : RouteWF t)
    (hle : fenceLe lo k = true) : (byFence (chainOf t lo) k).isSome = true := by
  obtain ⟨v, e, rest, hc, _⟩ := chainOf_shape t lo h
  rw [hc]
  exact byFence_cons_isSome _ _ k hle

/-- hence a well-formed tree is never left without a child (`descend` is `some`). -/
theorem descend_isSome (t : BTree) (lo : Option KT) (k : KT) (h : RouteWF t)
    (hs : fencesSorted (chainOf t lo)) (hk : k.WF) (hle : fenceLe lo k = true) :
    (descend t k).isSome = true := by
  rw [descend_eq_byFence t lo k h hs hk hle, Option.isSome_map]
  exact byFence_isSome t lo k h hle

/-! ### the hypotheses from the checker -/

mutual
theorem routeWF_of_check : ∀ (t : BTree), checkInteriors t = true → RouteWF t
  | .border _ _, _ => by simp only [RouteWF]
  | .interior v ks cs, h => by
    simp only [checkInteriors, Bool.and_eq_true, beq_iff_eq, List.all_eq_true,
      decide_eq_true_eq] at h
    simp only [RouteWF]
    obtain ⟨⟨⟨⟨⟨⟨_, _⟩, hlen⟩, hsorted⟩, hwf⟩, _⟩, hcs⟩ := h
    exact ⟨hlen, hsorted, fun s hs => (hwf s hs).1, routeWFList_of_check cs hcs⟩

theorem routeWFList_of_check : ∀ (cs : List BTree), checkInteriorsList cs = true → RouteWFList cs
  | [], _ => by simp only [RouteWFList]
  | c :: cs, h => by
    simp only [checkInteriorsList, Bool.and_eq_true] at h
    simp only [RouteWFList]
    exact ⟨routeWF_of_check c h.1, routeWFList_of_check cs h.2⟩
end

/-- the part of `checkChain`'s per-leaf test that concerns fences: a fence is well formed and below
    the next leaf's fence. -/
def fenceStep (l : DLeaf) (hi : Option KT) : Bool :=
  (match l.fence with
    | none => true
    | some f => decide f.WF) &&
  (match hi with
    | none => true
    | some h => (match l.fence with | some f => ktLt f h | none => true))

theorem checkChain_fenceStep (pe : Bool) (ch : List DLeaf) (h : checkChain pe ch = true) :
    ∀ p ∈ ch.zip (ch.tail.map (·.fence) ++ [none]), fenceStep p.1 p.2 = true := by
  cases ch with
  | nil => simp [checkChain] at h
  | cons c cs =>
    simp only [checkChain, List.all_eq_true] at h
    intro p hp
    have hp' := h p hp
    obtain ⟨l, hi⟩ := p
    simp only [Bool.and_eq_true] at hp'
    obtain ⟨⟨⟨⟨⟨_, h4⟩, h5⟩, _⟩, _⟩, _⟩ := hp'
    unfold fenceStep
    simp only [Bool.and_eq_true]
    constructor
    · cases hf : l.fence with
      | none => rfl
      | some f =>
        rw [hf] at h4
        simp only [Bool.and_eq_true] at h4
        exact h4.1.2
    · cases hh : hi with
      | none => rfl
      | some hv =>
        rw [hh] at h5
        simp only [Bool.and_eq_true] at h5
        exact h5.2

theorem sorted_of_fenceSteps : ∀ (c : DLeaf) (cs : List DLeaf),
    (∀ p ∈ (c :: cs).zip (cs.map (·.fence) ++ [none]), fenceStep p.1 p.2 = true) →
    (∀ l ∈ cs, l.fence.isSome = true) → fencesSorted (c :: cs) ∧ FencesWF (c :: cs)
  | c, [], h, _ => by
    have h1 := h (c, none) (by simp)
    refine ⟨by simp [fencesSorted], ?_⟩
    intro l hl f hf
    simp only [List.mem_singleton] at hl
    subst hl
    simp only [fenceStep, hf, Bool.and_eq_true, decide_eq_true_eq] at h1
    exact h1.1
  | c, d :: ds, h, hsome => by
    have h1 := h (c, d.fence) (by simp)
    have htl : ∀ p ∈ (d :: ds).zip (ds.map (·.fence) ++ [none]), fenceStep p.1 p.2 = true := by
      intro p hp
      apply h p
      simp only [List.map_cons, List.cons_append, List.zip_cons_cons, List.mem_cons]
      exact Or.inr hp
    obtain ⟨ihS, ihW⟩ := sorted_of_fenceSteps d ds htl (fun l hl => hsome l (by simp [hl]))
    obtain ⟨h, hd⟩ : ∃ h, d.fence = some h := by
      have := hsome d (by simp)
      cases hd : d.fence with
      | none => rw [hd] at this; cases this
      | some h => exact ⟨h, rfl⟩
    have hhw : h.WF := ihW d (by simp) h hd
    have hcw : ∀ f, c.fence = some f → f.WF := by
      intro f hf
      simp only [fenceStep, hf, Bool.and_eq_true, decide_eq_true_eq] at h1
      exact h1.1
    have hcd : fenceLt c.fence (some h) = true := by
      cases hf : c.fence with
      | none => rfl
      | some f =>
        simp only [fenceStep, hf, hd, Bool.and_eq_true] at h1
        exact h1.2
    constructor
    · unfold fencesSorted at ihS ⊢
      rw [List.pairwise_cons]
      refine ⟨?_, ihS⟩
      intro x hx
      rcases List.mem_cons.mp hx with e | e
      · rw [e, hd]; exact hcd
      · have hdx := (List.pairwise_cons.mp ihS).1 x e
        rw [hd] at hdx
        cases hxf : x.fence with
        | none => rw [hxf] at hdx; simp [fenceLt] at hdx
        | some g =>
          rw [hxf] at hdx
          have hgw : g.WF := ihW x (List.mem_cons_of_mem _ e) g hxf
          cases hf : c.fence with
          | none => rfl
          | some f =>
            rw [hf] at hcd
            exact kt_lt_trans (hcw f hf) hhw hgw hcd hdx
    · intro l hl f hf
      rcases List.mem_cons.mp hl with e | e
      · subst e; exact hcw f hf
      · exact ihW l e f hf

/-- `checkChain` on a chain in which only the first leaf may lack a fence: the fences are strictly
    increasing (and well formed). -/
theorem fencesSorted_of_checkChain_list (pe : Bool) (ch : List DLeaf)
    (hsome : ∀ l ∈ ch.tail, l.fence.isSome = true) (h : checkChain pe ch = true) :
    fencesSorted ch ∧ FencesWF ch := by
  have hst := checkChain_fenceStep pe ch h
  cases ch with
  | nil => simp [checkChain] at h
  | cons c cs => exact sorted_of_fenceSteps c cs hst hsome

/-- the sortedness hypothesis of `descend_eq_byFence`, from what `checkLayer` evaluates. -/
theorem fencesSorted_of_checkChain (pe : Bool) (t : BTree) (lo : Option KT) (hw : RouteWF t)
    (h : checkChain pe (chainOf t lo) = true) : fencesSorted (chainOf t lo) := by
  obtain ⟨v, e, rest, hc, hr⟩ := chainOf_shape t lo hw
  refine (fencesSorted_of_checkChain_list pe _ ?_ h).1
  rw [hc]; exact hr

/-- **Corollary for checked dumps.** On a dump accepted by `checkLayer`, `find_border`'s descent
    through the interior nodes reaches the leaf the model's fence rule picks in `chainOf t none`. -/
theorem checkLayer_routes (pfx : List UInt8) (t : BTree) (k : KT)
    (h : checkLayer pfx t = true) (hk : k.WF) :
    descend t k = (byFence (chainOf t none) k).map leafOut := by
  simp only [checkLayer, Bool.and_eq_true] at h
  have hw := routeWF_of_check t h.1
  exact descend_eq_byFence_root t k hw (fencesSorted_of_checkChain _ t none hw h.2) hk

theorem checkLayer_descend_isSome (pfx : List UInt8) (t : BTree) (k : KT)
    (h : checkLayer pfx t = true) (hk : k.WF) : (descend t k).isSome = true := by
  simp only [checkLayer, Bool.and_eq_true] at h
  have hw := routeWF_of_check t h.1
  exact descend_isSome t none k hw (fencesSorted_of_checkChain _ t none hw h.2) hk rfl

/-! ### the fence rule is the model's `Tree.route`

`Tree.route k leaves` (the routing function of the sequential model) walks the chain from the left
and stops in front of the first fence the key is left of (`routeLeft`), ignoring the first leaf's
fence. On a chain with increasing, well-formed fences that is the index of the last leaf whose fence
is `≤ k`. Only the fences matter, so the statement is about any model chain `ls` carrying the same
fences as the dumped chain (what `SeqCheck.treeMatches` compares). -/

theorem byFence_eq_routeFrom (k : KT) (hk : k.WF) : ∀ (rest : List DLeaf) (c : DLeaf)
    (ls : List Tree.Leaf), ls.map (·.fence) = rest.map (·.fence) → fencesSorted (c :: rest) →
    FencesWF rest → fenceLe c.fence k = true →
    byFence (c :: rest) k = (c :: rest)[Tree.routeFrom k ls]?
  | [], c, ls, hf, _, _, hle => by
    have : ls = [] := by simpa using hf
    subst this
    rw [byFence_singleton c k hle]
    rfl
  | d :: ds, c, ls, hf, hs, hw, hle => by
    cases ls with
    | nil => simp at hf
    | cons m ms =>
      simp only [List.map_cons, List.cons.injEq] at hf
      obtain ⟨hmf, hf'⟩ := hf
      unfold fencesSorted at hs
      rw [List.pairwise_cons] at hs
      obtain ⟨hc, hs'⟩ := hs
      obtain ⟨f, hd⟩ : ∃ f, d.fence = some f := by
        have := hc d (by simp)
        cases hd : d.fence with
        | none => rw [hd] at this; cases c.fence <;> simp [fenceLt] at this
        | some f => exact ⟨f, rfl⟩
      have hfw : f.WF := hw d (by simp) f hd
      have hsplit : c :: d :: ds = [c] ++ (d :: ds) := rfl
      rw [hsplit, byFence_append, byFence_singleton c k hle]
      rw [hd] at hmf
      by_cases hr : routeLeft k f = true
      · have hlt : KT.lt k f = true := by rw [← routeLeft_eq_lt k f hk hfw]; exact hr
        have hnone : byFence (d :: ds) k = none := by
          apply byFence_eq_none
          intro x hx
          rcases List.mem_cons.mp hx with e | e
          · subst e; simp [hd, fenceLe, hlt]
          · have hgt := (List.pairwise_cons.mp hs').1 x e
            rw [hd] at hgt
            cases hxf : x.fence with
            | none => rw [hxf] at hgt; simp [fenceLt] at hgt
            | some g =>
              rw [hxf] at hgt
              have hgw : g.WF := hw x (List.mem_cons_of_mem _ e) g hxf
              have : KT.lt k g = true :=
                kt_lt_trans hk hfw hgw hlt (by simpa [fenceLt] using hgt)
              simp [fenceLe, this]
        rw [hnone]
        simp [Tree.routeFrom, hmf, hr]
      · have hr' : routeLeft k f = false := by simpa using hr
        have hge : fenceLe d.fence k = true := by
          have : KT.lt k f = false := by rw [← routeLeft_eq_lt k f hk hfw]; exact hr'
          simp [hd, fenceLe, this]
        have ih := byFence_eq_routeFrom k hk ds d ms hf' hs'
          (fun l hl => hw l (List.mem_cons_of_mem _ hl)) hge
        have hsome := byFence_cons_isSome d ds k hge
        have hidx : Tree.routeFrom k (m :: ms) = Tree.routeFrom k ms + 1 := by
          simp [Tree.routeFrom, hmf, hr']
        rw [hidx]
        simp only [List.cons_append, List.nil_append, List.getElem?_cons_succ]
        rw [← ih]
        cases hb : byFence (d :: ds) k with
        | none => rw [hb] at hsome; cases hsome
        | some x => rfl

/-- the fence rule picks the leaf at the model's routing index. -/
theorem byFence_eq_route (ls : List Tree.Leaf) (ch : List DLeaf) (k : KT)
    (hf : ls.map (·.fence) = ch.map (·.fence)) (hs : fencesSorted ch) (hw : FencesWF ch)
    (hk : k.WF) (h0 : ∀ c ∈ ch.head?, fenceLe c.fence k = true) :
    byFence ch k = ch[Tree.route k ls]? := by
  cases ch with
  | nil =>
    have : ls = [] := by simpa using hf
    subst this
    rfl
  | cons c rest =>
    cases ls with
    | nil => simp at hf
    | cons m ms =>
      simp only [List.map_cons, List.cons.injEq] at hf
      exact byFence_eq_routeFrom k hk rest c ms hf.2 hs
        (fun l hl => hw l (List.mem_cons_of_mem _ hl)) (h0 c (by simp))

/-- **Descent = model routing.** On a dump accepted by `checkLayer`, for any model chain `ls` with
    the same fences as the flattened dump, `find_border` reaches the leaf at position
    `Tree.route k ls` of the chain. -/
theorem checkLayer_routes_model (pfx : List UInt8) (t : BTree) (ls : List Tree.Leaf) (k : KT)
    (h : checkLayer pfx t = true) (hf : ls.map (·.fence) = (chainOf t none).map (·.fence))
    (hk : k.WF) :
    descend t k = ((chainOf t none)[Tree.route k ls]?).map leafOut := by
  rw [checkLayer_routes pfx t k h hk]
  simp only [checkLayer, Bool.and_eq_true] at h
  have hw := routeWF_of_check t h.1
  obtain ⟨v, e, rest, hc, hr⟩ := chainOf_shape t none hw
  have hsw := fencesSorted_of_checkChain_list _ (chainOf t none) (by rw [hc]; exact hr) h.2
  rw [byFence_eq_route ls (chainOf t none) k hf hsw.1 hsw.2 hk (by rw [hc]; intro c hc'; cases hc'; rfl)]

/-! ### a closed example (non-vacuity)

Two levels of interior nodes over seven border nodes. The separators have different lengths:
`("b",1)`, `("d\0",2)` (a trailing zero byte that is part of the key), `("d\0\0\0",4)` (same bytes,
longer), `("mmmmmmmm",8)`, the link tuple `("mmmmmmmm",9)` with the same slice, and `("zz",2)`.
Leaf `i` carries `vins = i` so that the routed leaf can be read off. -/
namespace Example

def kt (bs : List UInt8) (n : Nat) : KT := ⟨padTo 8 bs, n⟩
def ev (bs : List UInt8) (n : Nat) : DEnt := ⟨kt bs n, some ⟨1, 7, 8⟩⟩
def el (bs : List UInt8) : DEnt := ⟨kt bs 9, none⟩
def m8 : List UInt8 := [0x6d, 0x6d, 0x6d, 0x6d, 0x6d, 0x6d, 0x6d, 0x6d]
def z8 : List UInt8 := [0x7a, 0x7a, 0x7a, 0x7a, 0x7a, 0x7a, 0x7a, 0x7a]

def sepA : KT := kt [0x62] 1
def sepR1 : KT := kt [0x64, 0] 2
def sepB : KT := kt [0x64, 0, 0, 0] 4
def sepR2 : KT := kt m8 8
def sepC : KT := kt m8 9
def sepD : KT := kt [0x7a, 0x7a] 2

def leaf0 : List DEnt := [ev [] 0, ev [0x61] 1]
def leaf1 : List DEnt := [ev [0x62] 1, ev [0x63] 1]
def leaf2 : List DEnt := [ev [0x64, 0] 2, ev [0x64, 0, 0] 3]
def leaf3 : List DEnt := [ev [0x64, 0, 0, 0] 4, ev [0x65] 1]
def leaf4 : List DEnt := [ev m8 8]
def leaf5 : List DEnt := [el m8, ev [0x6e] 1]
def leaf6 : List DEnt := [ev [0x7a, 0x7a] 2, el z8]

def tree : BTree :=
  .interior ⟨0, 0, 16⟩ [sepR1, sepR2]
    [ .interior ⟨0, 0, 0⟩ [sepA]
        [ .border ⟨0, 0, 32⟩ leaf0,
          .border ⟨1, 0, 32⟩ leaf1 ],
      .interior ⟨0, 0, 0⟩ [sepB]
        [ .border ⟨2, 0, 32⟩ leaf2,
          .border ⟨3, 0, 32⟩ leaf3 ],
      .interior ⟨0, 0, 0⟩ [sepC, sepD]
        [ .border ⟨4, 0, 32⟩ leaf4,
          .border ⟨5, 0, 32⟩ leaf5,
          .border ⟨6, 0, 32⟩ leaf6 ] ]

theorem tree_checked : checkLayer [] tree = true := by decide

theorem tree_chain_fences :
    (chainOf tree none).map (·.fence) =
      [none, some sepA, some sepR1, some sepB, some sepR2, some sepC, some sepD] := by decide

/-- below the first separator -/
theorem descend_below : descend tree (kt [0x61] 1) = some (⟨0, 0, 32⟩, leaf0) := by decide
/-- the empty key (length 0) -/
theorem descend_empty : descend tree (kt [] 0) = some (⟨0, 0, 32⟩, leaf0) := by decide
/-- equal to a separator (root level, trailing zero byte): goes right of it -/
theorem descend_eq_sep : descend tree sepR1 = some (⟨2, 0, 32⟩, leaf2) := by decide
/-- `("d\0\0",3)` lies between `("d\0",2)` and `("d\0\0\0",4)` -/
theorem descend_between : descend tree (kt [0x64, 0, 0] 3) = some (⟨2, 0, 32⟩, leaf2) := by decide
/-- `("mmmmmmmm",8)` and the link `("mmmmmmmm",9)` are separated -/
theorem descend_len8 : descend tree sepR2 = some (⟨4, 0, 32⟩, leaf4) := by decide
theorem descend_link : descend tree sepC = some (⟨5, 0, 32⟩, leaf5) := by decide
/-- above the last separator -/
theorem descend_above : descend tree (kt [0x7a, 0x7a, 0x7a] 3) = some (⟨6, 0, 32⟩, leaf6) := by
  decide

/-- the general theorem instantiated (not by evaluation) -/
theorem tree_routes (k : KT) (hk : k.WF) :
    descend tree k = (byFence (chainOf tree none) k).map leafOut :=
  checkLayer_routes [] tree k tree_checked hk

/-- `RouteWF` alone is not enough: the separator `("a",1)` inside the right child is below the
    root separator `("m",1)`. `checkInteriors` accepts the tree, the chain's fences are not
    increasing, and the descent for `("b",1)` (left child) differs from the fence rule (last leaf). -/
def badTree : BTree :=
  .interior ⟨0, 0, 16⟩ [kt [0x6d] 1]
    [ .border ⟨0, 0, 32⟩ [],
      .interior ⟨0, 0, 0⟩ [kt [0x61] 1]
        [ .border ⟨1, 0, 32⟩ [],
          .border ⟨2, 0, 32⟩ [] ] ]

theorem badTree_interiors : checkInteriors badTree = true := by decide
theorem badTree_not_sorted : ¬ fencesSorted (chainOf badTree none) := by decide
theorem badTree_differs :
    descend badTree (kt [0x62] 1) = some (⟨0, 0, 32⟩, []) ∧
    (byFence (chainOf badTree none) (kt [0x62] 1)).map leafOut = some (⟨2, 0, 32⟩, []) := by
  decide

end Example

end Yak.Route
