import YakModel.Shape
/-!
# Proofs about `mem_usage` computed from the structure dump (C20)

Everything is phrased through `rows.getD i ⟨0,0,0⟩` (a missing row is an all-zero row):
`getD_addAt` says `addAt` adds to row `lvl` and leaves every other row alone, `getD_memBorder` sums
that up over a border node's entries, and the `mutual` structural recursions over the nested
inductive `BTree` lift it to `memNode` / `memChildren`.
-/
namespace Yak.Shape
open Yak Yak.Tree

/-- the all-zero row (what a missing row counts as) -/
abbrev zrow : MemRow := ⟨0, 0, 0⟩

/-! ### `addAt` -/

private theorem getD_pad (rows : List MemRow) (k i : Nat) :
    (rows ++ List.replicate k zrow).getD i zrow = rows.getD i zrow := by
  rw [List.getD_eq_getElem?_getD, List.getD_eq_getElem?_getD, List.getElem?_append]
  by_cases h : i < rows.length
  · rw [if_pos h]
  · rw [if_neg h, List.getElem?_eq_none (Nat.le_of_not_lt h), List.getElem?_replicate]
    split <;> rfl

theorem getD_addAt (rows : List MemRow) (lvl c u r i : Nat) :
    (addAt rows lvl c u r).getD i zrow =
      if i = lvl then
        ⟨(rows.getD lvl zrow).count + c, (rows.getD lvl zrow).used + u, (rows.getD lvl zrow).reserved + r⟩
      else rows.getD i zrow := by
  unfold addAt
  -- the padded list
  generalize hp : (if rows.length ≤ lvl then rows ++ List.replicate (lvl + 1 - rows.length) zrow
    else rows) = p
  have hget : ∀ j, p.getD j zrow = rows.getD j zrow := by
    intro j; subst hp; split
    · exact getD_pad rows _ j
    · rfl
  have hlen : lvl < p.length := by
    subst hp; split
    · rw [List.length_append, List.length_replicate]; omega
    · omega
  show (p.modify lvl _).getD i zrow = _
  rw [List.getD_eq_getElem?_getD, List.getElem?_modify]
  by_cases hi : i = lvl
  · subst hi
    rw [if_pos rfl, ← hget i, List.getD_eq_getElem?_getD, List.getElem?_eq_getElem hlen]
    simp
  · rw [if_neg hi, ← hget i, List.getD_eq_getElem?_getD]
    have : ¬ lvl = i := fun e => hi e.symm
    cases p[i]? <;> simp [this]

/-! ### rows as a total function -/

theorem forall_mem_iff_getD (P : MemRow → Prop) (h0 : P zrow) (rows : List MemRow) :
    (∀ r ∈ rows, P r) ↔ ∀ i, P (rows.getD i zrow) := by
  constructor
  · intro h i
    rw [List.getD_eq_getElem?_getD]
    cases hi : rows[i]? with
    | none => exact h0
    | some r => exact h r (List.mem_iff_getElem?.2 ⟨i, hi⟩)
  · intro h r hr
    obtain ⟨i, hi⟩ := List.mem_iff_getElem?.1 hr
    have := h i
    rw [List.getD_eq_getElem?_getD, hi] at this
    exact this

/-! ### `memBorder` -/

/-- sum of the allocated sizes of the values of a border node -/
def valBytes (ents : List DEnt) : Nat :=
  ((ents.filterMap (·.val)).map (fun x => x.len + x.align)).sum

theorem valBytes_nil : valBytes [] = 0 := rfl

theorem valBytes_cons (e : DEnt) (es : List DEnt) :
    valBytes (e :: es) =
      (match e.val with | some v => v.len + v.align | none => 0) + valBytes es := by
  unfold valBytes
  cases h : e.val with
  | none => simp [h]
  | some v => simp [h]

private theorem getD_foldl_vals (lvl i : Nat) (ents : List DEnt) (rows : List MemRow) :
    (ents.foldl (fun rows e =>
        match e.val with
        | some v => addAt rows lvl 0 (v.len + v.align) (v.len + v.align)
        | none => rows) rows).getD i zrow =
      if i = lvl then
        ⟨(rows.getD lvl zrow).count, (rows.getD lvl zrow).used + valBytes ents,
          (rows.getD lvl zrow).reserved + valBytes ents⟩
      else rows.getD i zrow := by
  induction ents generalizing rows with
  | nil => simp only [List.foldl_nil, valBytes_nil, Nat.add_zero]; split <;> simp_all
  | cons e es ih =>
    rw [List.foldl_cons, ih, valBytes_cons]
    cases hv : e.val with
    | none =>
      simp only [Nat.zero_add]
    | some v =>
      simp only [getD_addAt, if_true, Nat.add_zero]
      by_cases hi : i = lvl
      · simp only [hi, if_true, Nat.add_assoc]
      · simp only [hi, if_false]

theorem getD_memBorder (rows : List MemRow) (lvl : Nat) (ents : List DEnt) (i : Nat) :
    (memBorder rows lvl ents).getD i zrow =
      if i = lvl then
        ⟨(rows.getD lvl zrow).count + 1,
          (rows.getD lvl zrow).used +
            (Yak.Const.sizeofBorder -
              (Yak.Const.keySliceLength - ents.length) * Yak.Const.sizeofLinkOrValue) + valBytes ents,
          (rows.getD lvl zrow).reserved + Yak.Const.sizeofBorder + valBytes ents⟩
      else rows.getD i zrow := by
  unfold memBorder
  refine Eq.trans (getD_foldl_vals lvl i ents _) ?_
  simp only [getD_addAt, if_true]
  by_cases hi : i = lvl
  · simp only [hi, if_true]
  · simp only [hi, if_false]

/-! ### counting nodes per level -/

/-- `cnt t d` / `cntL cs d` count the nodes of a tree / of a list of trees at relative depth `d`
    (the defining equations of `countAt` in `YakProps/C20.lean`). -/
structure IsCount (cnt : BTree → Nat → Nat) (cntL : List BTree → Nat → Nat) : Prop where
  border : ∀ v ents d, cnt (.border v ents) d = if d = 0 then 1 else 0
  interior : ∀ v ks cs d, cnt (.interior v ks cs) d = if d = 0 then 1 else cntL cs (d - 1)
  nil : ∀ d, cntL [] d = 0
  cons : ∀ c cs d, cntL (c :: cs) d = cnt c d + cntL cs d

section counts
variable (cnt : BTree → Nat → Nat) (cntL : List BTree → Nat → Nat) (H : IsCount cnt cntL)
include H

mutual
theorem memNode_count_getD :
    ∀ (t : BTree) (lvl i : Nat) (acc : List MemRow × List (List UInt8 × Nat)),
      ((memNode t lvl acc).1.getD i zrow).count =
        (acc.1.getD i zrow).count + (if lvl ≤ i then cnt t (i - lvl) else 0)
  | .border v ents, lvl, i, (rows, links) => by
    simp only [memNode, getD_memBorder, H.border]
    by_cases h : i = lvl
    · subst h; simp
    · have h2 : ¬ i - lvl = 0 ∨ ¬ lvl ≤ i := by omega
      rcases h2 with h2 | h2 <;> simp [h, h2]
  | .interior v ks cs, lvl, i, (rows, links) => by
    simp only [memNode]
    rw [memChildren_count_getD cs (lvl + 1) i, H.interior]
    simp only [getD_addAt]
    by_cases h : i = lvl
    · subst h
      have : ¬ i + 1 ≤ i := by omega
      simp [this]
    · by_cases h2 : lvl ≤ i
      · have h3 : lvl + 1 ≤ i := by omega
        have h4 : ¬ i - lvl = 0 := by omega
        have h5 : i - (lvl + 1) = i - lvl - 1 := by omega
        simp [h, h2, h3, h4, h5]
      · have h3 : ¬ lvl + 1 ≤ i := by omega
        simp [h, h2, h3]

theorem memChildren_count_getD :
    ∀ (cs : List BTree) (lvl i : Nat) (acc : List MemRow × List (List UInt8 × Nat)),
      ((memChildren cs lvl acc).1.getD i zrow).count =
        (acc.1.getD i zrow).count + (if lvl ≤ i then cntL cs (i - lvl) else 0)
  | [], lvl, i, acc => by
    simp [memChildren, H.nil]
  | c :: cs, lvl, i, acc => by
    simp only [memChildren]
    rw [memChildren_count_getD cs lvl i, memNode_count_getD c lvl i, H.cons]
    split <;> omega
end

/-- `memNode t lvl` adds, to the count of row `lvl + d`, the number of nodes of `t` at relative
    depth `d` — for any function `cnt` that counts nodes per relative depth (characterised by its
    defining equations; `YakProps/C20.lean` instantiates it with its `countAt`). -/
theorem memNode_counts (t : BTree) (lvl d : Nat) (rows : List MemRow)
    (links : List (List UInt8 × Nat)) :
    ((memNode t lvl (rows, links)).1.getD (lvl + d) ⟨0, 0, 0⟩).count =
      (rows.getD (lvl + d) ⟨0, 0, 0⟩).count + cnt t d := by
  have := memNode_count_getD cnt cntL H t lvl (lvl + d) (rows, links)
  rw [this]
  simp
end counts

/-! ### used ≤ reserved -/

/-- row by row, used bytes are at most reserved bytes -/
def Good (rows : List MemRow) : Prop := ∀ i, (rows.getD i zrow).used ≤ (rows.getD i zrow).reserved

theorem good_iff (rows : List MemRow) : (∀ r ∈ rows, r.used ≤ r.reserved) ↔ Good rows :=
  forall_mem_iff_getD (fun r => r.used ≤ r.reserved) (Nat.le_refl 0) rows

theorem good_addAt (rows : List MemRow) (lvl c u r : Nat) (hur : u ≤ r) (h : Good rows) :
    Good (addAt rows lvl c u r) := by
  intro i
  rw [getD_addAt]
  split
  · exact Nat.add_le_add (h lvl) hur
  · exact h i

theorem good_memBorder (rows : List MemRow) (lvl : Nat) (ents : List DEnt) (h : Good rows) :
    Good (memBorder rows lvl ents) := by
  intro i
  rw [getD_memBorder]
  split
  · exact Nat.add_le_add (Nat.add_le_add (h lvl) (Nat.sub_le _ _)) (Nat.le_refl _)
  · exact h i

mutual
theorem good_memNode :
    ∀ (t : BTree) (lvl : Nat) (acc : List MemRow × List (List UInt8 × Nat)),
      Good acc.1 → Good (memNode t lvl acc).1
  | .border v ents, lvl, (rows, links), h => by
    simp only [memNode]; exact good_memBorder rows lvl ents h
  | .interior v ks cs, lvl, (rows, links), h => by
    simp only [memNode]
    exact good_memChildren cs (lvl + 1) _ (good_addAt rows lvl _ _ _ (Nat.sub_le _ _) h)

theorem good_memChildren :
    ∀ (cs : List BTree) (lvl : Nat) (acc : List MemRow × List (List UInt8 × Nat)),
      Good acc.1 → Good (memChildren cs lvl acc).1
  | [], lvl, acc, h => by simpa only [memChildren] using h
  | c :: cs, lvl, acc, h => by
    simp only [memChildren]
    exact good_memChildren cs lvl _ (good_memNode c lvl acc h)
end

theorem used_le_reserved (t : BTree) (lvl : Nat) (rows : List MemRow)
    (links : List (List UInt8 × Nat)) (_hw : checkInteriors t = true)
    (h : ∀ r ∈ rows, r.used ≤ r.reserved) :
    ∀ r ∈ (memNode t lvl (rows, links)).1, r.used ≤ r.reserved :=
  (good_iff _).2 (good_memNode t lvl (rows, links) ((good_iff rows).1 h))

/-! ### a single border node -/

theorem border_row (_v : DVer) (ents : List DEnt) (lvl : Nat) (_he : ents.length ≤ 15) :
    let r := (memBorder [] lvl ents).getD lvl ⟨0, 0, 0⟩
    let vals := (ents.filterMap (·.val)).map (fun x => x.len + x.align)
    r.count = 1 ∧ r.reserved = Yak.Const.sizeofBorder + vals.sum ∧
    r.used = Yak.Const.sizeofBorder - (15 - ents.length) * 8 + vals.sum := by
  intro r vals
  have hr : r = (memBorder [] lvl ents).getD lvl zrow := rfl
  rw [getD_memBorder, if_pos rfl] at hr
  have hv : valBytes ents = vals.sum := rfl
  have hk : Yak.Const.keySliceLength = 15 := rfl
  have hl : Yak.Const.sizeofLinkOrValue = 8 := rfl
  rw [hr, hv, hk, hl]
  simp

theorem links_one_below (v : DVer) (ents : List DEnt) (lvl : Nat) (rows : List MemRow) :
    (memNode (.border v ents) lvl (rows, [])).2 =
      ents.filterMap (fun e => match e.val with | none => some (e.kt.slice, lvl + 1) | some _ => none) := by
  unfold memNode
  exact List.nil_append _

end Yak.Shape
