import YakModel.Proofs.ScanLanding
import YakModel.Proofs.ScanExamples
/-!
# The lemmas the property files C03 and C05 refer to

`insert_bumps_landing`, `get_miss_reports_landing` (ScanLanding), `D2_counterexample`,
`D5_counterexample` (ScanExamples).
-/
