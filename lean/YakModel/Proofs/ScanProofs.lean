import YakModel.Proofs.ScanLanding
import YakModel.Proofs.ScanExamples
import YakModel.Proofs.ScanNodes
import YakModel.Proofs.ScanR2L
import YakModel.Proofs.ScanCover
import YakModel.Proofs.ScanFence
/-!
# The lemmas the property files C03 and C05 refer to

* `insert_bumps_landing`, `get_miss_reports_landing` — ScanLanding
* `D2_counterexample`, `D5_counterexample`, `r2l_max_fence_counterexample` — ScanExamples
* `scan_status_ok`, `scan_spec_fwd` — ScanSpec (endpoint lemmas: ScanKeys, ScanEnds; defining
  equations of the mutual recursion: ScanSteps)
* `scan_spec` (with `NoMaxFence` for right-to-left) — ScanR2L
* `scan_inf_ignores_key`, `scan_nodes_nonempty` — ScanNodes
* `scan_nodes_cover` — ScanCover
* `noMaxFence_empty`, `noMaxFence_put`, `noMaxFence_remove` — ScanFence
-/
