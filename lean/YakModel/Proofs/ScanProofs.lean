import YakModel.Proofs.ScanLanding
import YakModel.Proofs.ScanExamples
import YakModel.Proofs.ScanNodes
/-!
# The lemmas the property files C03 and C05 refer to

`insert_bumps_landing`, `get_miss_reports_landing` (ScanLanding), `D2_counterexample`,
`D5_counterexample` (ScanExamples), `scan_status_ok`, `scan_spec_fwd` (ScanSpec),
`scan_inf_ignores_key`, `scan_nodes_nonempty` (ScanNodes).
-/
