import YakModel.Proto.Epoch
/-!
# Invariants of the epoch reclamation protocol (`Proto/Epoch`)

`Inv` is the inductive invariant behind `no_premature_free`. It has three parts.

* `GlobOK` (shared words and thread locals): `1 ≤ E`, `G < E`, the gc thread's local copy `g`
  of `G` is `< E`, the epoch thread's `cur` equals `E` during its check scan (only that thread
  writes `E`), its running minimum is in `[1, E]` during its min scan.
* `SlotOK` (one slot): `begin ≤ E`; a loaded / published epoch value is in `[1, E]` and a
  published one equals `begin`; and for an ACTIVE session (enter has returned)
  - **window**: `1 ≤ begin`, `E ≤ begin + 1`, i.e. `begin ∈ {E - 1, E}`,
  - `G < begin` and `g < begin`,
  - check scan: if the scan position has passed the slot then `begin = E` (so at `eInc` EVERY
    active session has `begin = E`, which re-establishes the window for `E + 1`),
  - min scan: if the scan position has passed the slot then `m ≤ begin` (`E ≤ begin` while
    `m = ∞`). A session that becomes active behind the scan position does so with `begin = E`
    (that is what the re-check of the repaired enter buys), and `m ≤ E`; `E` does not move
    during the scan because only the scanning thread moves it.
* `Ghost`: witness sets contain only active sessions; every retired, not yet released
  `(tag, obj)` is allocated and has `begin[j] ≤ tag + 1` for every `j ∈ witness obj`; every
  released object is allocated and has an empty witness set.

A release needs `tag < g`; with `g < begin[j] ≤ tag + 1` no `j` is left in the witness set
(`free_ok`).

The step lemma is generic in `Cfg`: for the unrepaired enter it needs `NoStall s` (every loaded,
not yet published epoch value still equals `E`) — this gives `no_premature_free_partial`.

`Distinct` (retired objects pairwise distinct and not released) gives `freed_once`.
-/
namespace Yak.Proto.Epoch

def GPc.g? : GPc → Option Nat
  | .loadG _ => none
  | .cache _ g => some g
  | .pop _ g => some g

@[simp] theorem g?_loadG (j : Nat) : (GPc.loadG j).g? = none := rfl
@[simp] theorem g?_cache (j g : Nat) : (GPc.cache j g).g? = some g := rfl
@[simp] theorem g?_pop (j g : Nat) : (GPc.pop j g).g? = some g := rfl

def NoStall (s : State) : Prop := ∀ i e, s.pc i = .loaded e → e = s.E

/-- facts about the shared words and the two service threads' locals -/
def GlobOK (E G : Nat) (gpc : GPc) (epc : EPc) : Prop :=
  1 ≤ E ∧ G < E ∧
  (∀ g, gpc.g? = some g → g < E) ∧
  (∀ cur j, epc = .check cur j → cur = E) ∧
  (∀ v j, epc = .minScan (some v) j → 1 ≤ v ∧ v ≤ E)

/-- facts about one slot (`pc`, `b = begin`) relative to the shared words -/
def SlotOK (E G n : Nat) (gpc : GPc) (epc : EPc) (i : Nat) (pc : WPc) (b : Nat) : Prop :=
  b ≤ E ∧
  (∀ e, pc = .loaded e → 1 ≤ e ∧ e ≤ E) ∧
  (∀ e, pc = .published e → b = e ∧ 1 ≤ e) ∧
  (pc = .active →
    1 ≤ b ∧ E ≤ b + 1 ∧ G < b ∧ i < n ∧
    (∀ g, gpc.g? = some g → g < b) ∧
    (∀ cur j, epc = .check cur j → i < j → b = E) ∧
    (∀ v j, epc = .minScan (some v) j → i < j → v ≤ b) ∧
    (∀ j, epc = .minScan none j → i < j → E ≤ b))

structure Ghost (s : State) : Prop where
  witAct : ∀ o j, j ∈ s.wit o → s.pc j = .active
  ret : ∀ i t o, (t, o) ∈ s.items i → o ∈ s.allocd ∧ ∀ j, j ∈ s.wit o → s.bg j ≤ t + 1
  freedA : ∀ o, o ∈ s.freed → o ∈ s.allocd ∧ s.wit o = []

structure Inv (s : State) : Prop where
  glob : GlobOK s.E s.G s.gpc s.epc
  slot : ∀ i, SlotOK s.E s.G s.n s.gpc s.epc i (s.pc i) (s.bg i)
  ghost : Ghost s

theorem inv_init (N : Nat) : Inv (init N) := by
  refine ⟨?_, ?_, ?_⟩
  · simp [init, GlobOK]
  · intro i; simp [init, SlotOK, State.pc, State.bg]
  · constructor <;> simp [init, State.items, Slot.items]

theorem ghost_mono {s s' : State} (h : Ghost s) (hwit : s'.wit = s.wit) (hall : s'.allocd = s.allocd)
    (hact : ∀ j, s.pc j = .active → s'.pc j = .active ∧ s'.bg j = s.bg j)
    (hitems : ∀ i x, x ∈ s'.items i → x ∈ s.items i)
    (hfreed : ∀ o, o ∈ s'.freed → o ∈ s.freed ∨ (o ∈ s.allocd ∧ s.wit o = [])) : Ghost s' := by
  obtain ⟨h1, h2, h3⟩ := h
  refine ⟨?_, ?_, ?_⟩
  · intro o j hj
    rw [hwit] at hj
    exact (hact j (h1 o j hj)).1
  · intro i t o hi
    obtain ⟨ha, hb⟩ := h2 i t o (hitems i _ hi)
    rw [hall, hwit]
    refine ⟨ha, ?_⟩
    intro j hj
    rw [(hact j (h1 o j hj)).2]
    exact hb j hj
  · intro o ho
    rw [hall, hwit]
    rcases hfreed o ho with h | h
    · exact h3 o h
    · exact h

/-- a worker step that rewrites slot `i` without touching its retire queue -/
theorem inv_setSlot {s : State} (h : Inv s) (i : Nat) (sl : Slot)
    (hitems : sl.items = (s.slots i).items)
    (hnew : SlotOK s.E s.G s.n s.gpc s.epc i sl.pc sl.begin)
    (hact : s.pc i = .active → sl.pc = .active ∧ sl.begin = s.bg i) : Inv (s.setSlot i sl) := by
  refine ⟨h.glob, ?_, ?_⟩
  · intro j
    by_cases hj : j = i
    · subst hj
      simpa [State.setSlot, State.pc, State.bg, upd] using hnew
    · simpa [State.setSlot, State.pc, State.bg, upd, hj] using h.slot j
  · apply ghost_mono (s' := s.setSlot i sl) h.ghost rfl rfl
    · intro j hj
      by_cases hji : j = i
      · subst hji
        simpa [State.setSlot, State.pc, State.bg, upd] using hact hj
      · simp [State.setSlot, State.pc, State.bg, upd, hji] at hj ⊢
        exact hj
    · intro j x hx
      by_cases hji : j = i
      · subst hji
        simpa [State.setSlot, State.items, upd, hitems] using hx
      · simpa [State.setSlot, State.items, upd, hji] using hx
    · intro o ho
      exact Or.inl ho

section steps
variable {cfg : Cfg} {s s' : State}

theorem inv_claim {i} (h : Inv s) (hs : step? cfg s (.claim i) = some s') : Inv s' := by
  simp only [step?] at hs
  split at hs
  · rename_i hg
    cases hs
    apply inv_setSlot h
    · rfl
    · simp [SlotOK]; exact (h.slot i).1
    · intro ha; rw [hg.2.2] at ha; cases ha
  · cases hs

theorem inv_loadE {i} (h : Inv s) (hs : step? cfg s (.loadE i) = some s') : Inv s' := by
  simp only [step?] at hs
  split at hs
  · rename_i hg
    cases hs
    apply inv_setSlot h
    · rfl
    · simp [SlotOK]; exact ⟨(h.slot i).1, h.glob.1⟩
    · intro ha; rw [hg.2] at ha; cases ha
  · cases hs


theorem slotOK_fresh_active {E G n gpc epc i} (hg : GlobOK E G gpc epc) (hi : i < n) :
    SlotOK E G n gpc epc i .active E := by
  obtain ⟨h1, h2, h3, h4, h5⟩ := hg
  refine ⟨Nat.le_refl _, by simp, by simp, fun _ => ⟨h1, by omega, h2, hi, h3, ?_, ?_, ?_⟩⟩
  · intros; rfl
  · intro v j hv _; exact (h5 v j hv).2
  · intros; exact Nat.le_refl _

theorem inv_publish {i} (h : Inv s) (hns : cfg.fixD3 = false → NoStall s)
    (hs : step? cfg s (.publish i) = some s') : Inv s' := by
  simp only [step?] at hs
  split at hs
  · rename_i e hpc
    split at hs
    · rename_i hi
      cases hs
      have hl := (h.slot i).2.1 e hpc
      apply inv_setSlot h
      · rfl
      · cases hfix : cfg.fixD3 with
        | true => simp [SlotOK]; omega
        | false =>
          have hE : e = s.E := hns hfix i e hpc
          subst hE
          simpa using slotOK_fresh_active h.glob hi
      · intro ha; rw [hpc] at ha; cases ha
    · cases hs
  · cases hs

theorem inv_recheck {i} (h : Inv s) (hs : step? cfg s (.recheck i) = some s') : Inv s' := by
  simp only [step?] at hs
  split at hs
  · rename_i e hpc
    split at hs
    · rename_i hi
      cases hs
      have hl := (h.slot i).2.2.1 e hpc
      apply inv_setSlot h
      · rfl
      · by_cases hE : s.E = e
        · have hb : s.bg i = s.E := by omega
          simp only [hE, if_true]
          have := slotOK_fresh_active h.glob hi
          rw [hE] at this
          rw [← hl.1] at this ⊢
          exact this
        · simp [hE, SlotOK]; exact (h.slot i).1
      · intro ha; rw [hpc] at ha; cases ha
    · cases hs
  · cases hs

theorem inv_leaveRunning {i} (h : Inv s) (hs : step? cfg s (.leaveRunning i) = some s') :
    Inv s' := by
  simp only [step?] at hs
  split at hs
  · rename_i hg
    cases hs
    apply inv_setSlot h
    · rfl
    · simp [SlotOK]; exact (h.slot i).1
    · intro ha; rw [hg.2] at ha; cases ha
  · cases hs


theorem mem_activeSlots {s : State} {j : Nat} : j ∈ activeSlots s ↔ j < s.n ∧ s.pc j = .active := by
  simp [activeSlots, List.mem_filter]

theorem inv_leaveBegin {i} (h : Inv s) (hs : step? cfg s (.leaveBegin i) = some s') : Inv s' := by
  simp only [step?] at hs
  split at hs
  · cases hs
    refine ⟨h.glob, ?_, ?_⟩
    · intro j
      by_cases hj : j = i
      · subst hj
        simp [State.pc, State.bg, upd, SlotOK]
      · simpa [State.pc, State.bg, upd, hj] using h.slot j
    · obtain ⟨h1, h2, h3⟩ := h.ghost
      refine ⟨?_, ?_, ?_⟩
      · intro o j hj
        simp only [List.mem_filter, decide_eq_true_eq] at hj
        have := h1 o j hj.1
        simpa [State.pc, upd, hj.2] using this
      · intro k t o hk
        have hk' : (t, o) ∈ s.items k := by
          by_cases hki : k = i
          · subst hki
            simpa [State.items, upd, Slot.items] using hk
          · simpa [State.items, upd, hki] using hk
        obtain ⟨ha, hb⟩ := h2 k t o hk'
        refine ⟨ha, ?_⟩
        intro j hj
        simp only [List.mem_filter, decide_eq_true_eq] at hj
        have := hb j hj.1
        simpa [State.bg, upd, hj.2] using this
      · intro o ho
        obtain ⟨ha, hb⟩ := h3 o ho
        exact ⟨ha, by simp [hb]⟩
  · cases hs

theorem inv_unlinkRetire {i obj} (h : Inv s) (hs : step? cfg s (.unlinkRetire i obj) = some s') :
    Inv s' := by
  simp only [step?] at hs
  split at hs
  · rename_i hg
    obtain ⟨hi, hpc, hfresh⟩ := hg
    have e := Option.some.inj hs
    have hpcs : ∀ j, s'.pc j = s.pc j := by
      intro j; rw [← e]; by_cases hj : j = i
      · subst hj; simp [upd, State.pc]
      · simp [upd, State.pc, hj]
    have hbgs : ∀ j, s'.bg j = s.bg j := by
      intro j; rw [← e]; by_cases hj : j = i
      · subst hj; simp [upd, State.bg]
      · simp [upd, State.bg, hj]
    have hitems : ∀ k x, x ∈ s'.items k → x ∈ s.items k ∨ (k = i ∧ x = (s.bg i, obj)) := by
      intro k x hk; rw [← e] at hk; by_cases hki : k = i
      · rw [hki] at hk ⊢
        simp only [State.items, upd, if_true, Slot.items, List.mem_append, List.mem_singleton] at hk
        simp only [State.items, Slot.items, List.mem_append]
        rcases hk with hk | hk | hk
        · exact Or.inl (Or.inl hk)
        · exact Or.inl (Or.inr hk)
        · exact Or.inr ⟨trivial, hk⟩
      · left; simpa [State.items, upd, hki] using hk
    have hwit : s'.wit = upd s.wit obj (activeSlots s) := by rw [← e]
    have hall : s'.allocd = obj :: s.allocd := by rw [← e]
    have hfr : s'.freed = s.freed := by rw [← e]
    have hE : s'.E = s.E := by rw [← e]
    have hG : s'.G = s.G := by rw [← e]
    have hn : s'.n = s.n := by rw [← e]
    have hgpc : s'.gpc = s.gpc := by rw [← e]
    have hepc : s'.epc = s.epc := by rw [← e]
    clear e hs
    refine ⟨?_, ?_, ?_⟩
    · rw [hE, hG, hgpc, hepc]; exact h.glob
    · intro j
      rw [hE, hG, hgpc, hepc, hn, hpcs, hbgs]
      exact h.slot j
    · obtain ⟨h1, h2, h3⟩ := h.ghost
      refine ⟨?_, ?_, ?_⟩
      · intro o j hj
        rw [hpcs]
        rw [hwit] at hj
        by_cases ho : o = obj
        · subst ho
          simp only [upd, if_true] at hj
          exact (mem_activeSlots.mp hj).2
        · simp only [upd, ho, if_false] at hj
          exact h1 o j hj
      · intro k t o hk
        rw [hall, hwit]
        rcases hitems k _ hk with hk' | ⟨hki, hx⟩
        · obtain ⟨ha, hb⟩ := h2 k t o hk'
          have hne : o ≠ obj := fun e => hfresh (e ▸ ha)
          refine ⟨List.mem_cons_of_mem _ ha, ?_⟩
          intro j hj
          simp only [upd, hne, if_false] at hj
          rw [hbgs]
          exact hb j hj
        · injection hx with ht ho
          subst ho ht
          refine ⟨List.mem_cons_self, ?_⟩
          intro j hj
          simp only [upd, if_true] at hj
          rw [hbgs]
          have hja := (mem_activeSlots.mp hj).2
          have s1 := (h.slot j).1
          have s2 := ((h.slot i).2.2.2 hpc).2.1
          omega
      · intro o ho
        rw [hfr] at ho
        rw [hall, hwit]
        obtain ⟨ha, hb⟩ := h3 o ho
        have hne : o ≠ obj := fun e => hfresh (e ▸ ha)
        exact ⟨List.mem_cons_of_mem _ ha, by simp only [upd, hne, if_false]; exact hb⟩
  · cases hs


/-- a step of the epoch or gc thread that touches no slot -/
theorem inv_glob_step (h : Inv s) (E' G' : Nat) (gpc' : GPc) (epc' : EPc)
    (hg : GlobOK E' G' gpc' epc')
    (hsl : ∀ i, SlotOK E' G' s.n gpc' epc' i (s.pc i) (s.bg i)) :
    Inv { s with E := E', G := G', gpc := gpc', epc := epc' } :=
  ⟨hg, hsl, ghost_mono (s' := { s with E := E', G := G', gpc := gpc', epc := epc' }) h.ghost rfl rfl
    (fun _ hj => ⟨hj, rfl⟩) (fun _ _ hx => hx) (fun _ ho => Or.inl ho)⟩

theorem inv_eLoadCur (h : Inv s) (hs : step? cfg s .eLoadCur = some s') : Inv s' := by
  simp only [step?] at hs
  split at hs
  · rename_i hepc
    cases hs
    apply inv_glob_step h s.E s.G s.gpc (.check s.E 0)
    · have := h.glob
      simp [GlobOK, hepc] at this ⊢
      grind
    · intro i
      have := h.slot i
      simp [SlotOK, hepc] at this ⊢
      grind
  · cases hs


theorem inv_eCheck {j} (h : Inv s) (hs : step? cfg s (.eCheck j) = some s') : Inv s' := by
  simp only [step?] at hs
  split at hs
  · rename_i cur j' hepc
    split at hs
    · rename_i hg
      obtain ⟨hj, hjn⟩ := hg
      subst hj
      split at hs
      · cases hs
        apply inv_glob_step h s.E s.G s.gpc .loadCur
        · have := h.glob
          simp [GlobOK, hepc] at this ⊢
          grind
        · intro i
          have := h.slot i
          simp [SlotOK, hepc] at this ⊢
          grind
      · rename_i hpass
        cases hs
        apply inv_glob_step h s.E s.G s.gpc (.check cur (j + 1))
        · have := h.glob
          simp [GlobOK, hepc] at this ⊢
          grind
        · intro i
          have := h.slot i
          have hgl := h.glob
          simp [SlotOK, GlobOK, hepc] at this hgl ⊢
          grind
    · cases hs
  · cases hs

theorem inv_eInc (h : Inv s) (hs : step? cfg s .eInc = some s') : Inv s' := by
  simp only [step?] at hs
  split at hs
  · rename_i cur j hepc
    split at hs
    · rename_i hj
      cases hs
      apply inv_glob_step h (s.E + 1) s.G s.gpc (.minScan none 0)
      · have := h.glob
        simp [GlobOK, hepc] at this ⊢
        grind
      · intro i
        have := h.slot i
        simp [SlotOK, hepc] at this ⊢
        grind
    · cases hs
  · cases hs

theorem inv_eMinScan {j} (h : Inv s) (hs : step? cfg s (.eMinScan j) = some s') : Inv s' := by
  simp only [step?] at hs
  split at hs
  · rename_i m j' hepc
    split at hs
    · rename_i hg
      obtain ⟨hj, hjn⟩ := hg
      subst hj
      have hbj := (h.slot j).1
      split at hs
      · rename_i hb
        cases hs
        cases m with
        | none =>
          apply inv_glob_step h s.E s.G s.gpc (.minScan (some (s.bg j)) (j + 1))
          · have := h.glob
            simp [GlobOK, hepc] at this ⊢
            grind
          · intro i
            have := h.slot i
            simp [SlotOK, hepc] at this ⊢
            grind
        | some v =>
          apply inv_glob_step h s.E s.G s.gpc (.minScan (some (min v (s.bg j))) (j + 1))
          · have := h.glob
            simp [GlobOK, hepc] at this ⊢
            grind
          · intro i
            have := h.slot i
            simp [SlotOK, hepc] at this ⊢
            grind
      · rename_i hb
        cases hs
        apply inv_glob_step h s.E s.G s.gpc (.minScan m (j + 1))
        · have := h.glob
          simp [GlobOK, hepc] at this ⊢
          grind
        · intro i
          have := h.slot i
          cases m <;> simp [SlotOK, hepc] at this ⊢ <;> grind
    · cases hs
  · cases hs

theorem inv_eSetG (h : Inv s) (hs : step? cfg s .eSetG = some s') : Inv s' := by
  simp only [step?] at hs
  split at hs
  · rename_i m j hepc
    split at hs
    · rename_i hj
      cases hs
      cases m with
      | none =>
        apply inv_glob_step h s.E (s.E - 1) s.gpc .loadCur
        · have := h.glob
          simp [GlobOK, hepc] at this ⊢
          grind
        · intro i
          have := h.slot i
          have hgl := h.glob
          simp [SlotOK, GlobOK, hepc] at this hgl ⊢
          grind
      | some v =>
        apply inv_glob_step h s.E (v - 1) s.gpc .loadCur
        · have := h.glob
          simp [GlobOK, hepc] at this ⊢
          grind
        · intro i
          have := h.slot i
          have hgl := h.glob
          simp [SlotOK, GlobOK, hepc] at this hgl ⊢
          grind
    · cases hs
  · cases hs

theorem inv_gLoadG {j} (h : Inv s) (hs : step? cfg s (.gLoadG j) = some s') : Inv s' := by
  simp only [step?] at hs
  split at hs
  · split at hs
    · cases hs
      apply inv_glob_step h s.E s.G (.cache j s.G) s.epc
      · have := h.glob
        simp [GlobOK] at this ⊢
        grind
      · intro i
        have := h.slot i
        simp [SlotOK] at this ⊢
        grind
    · cases hs
  · cases hs


/-- the core safety argument: an item whose tag is below the gc thread's local `g` has an empty
    witness set -/
theorem free_ok (h : Inv s) {j t o g : Nat} (hit : (t, o) ∈ s.items j)
    (hg : s.gpc.g? = some g) (hlt : ¬ g ≤ t) : o ∈ s.allocd ∧ s.wit o = [] := by
  obtain ⟨ha, hw⟩ := h.ghost.ret j t o hit
  refine ⟨ha, ?_⟩
  apply List.eq_nil_iff_forall_not_mem.mpr
  intro k hk
  have h1 := hw k hk
  have hk' := h.ghost.witAct o k hk
  have h2 := ((h.slot k).2.2.2 hk').2.2.2.2.1 g hg
  omega

theorem globOK_gpc {E G gpc gpc' epc} (h : GlobOK E G gpc epc)
    (hg : ∀ g, gpc'.g? = some g → gpc.g? = some g) : GlobOK E G gpc' epc := by
  obtain ⟨h1, h2, h3, h4⟩ := h
  exact ⟨h1, h2, fun g hgg => h3 g (hg g hgg), h4⟩

theorem slotOK_gpc {E G n gpc gpc' epc i pc b} (h : SlotOK E G n gpc epc i pc b)
    (hg : ∀ g, gpc'.g? = some g → gpc.g? = some g) : SlotOK E G n gpc' epc i pc b := by
  obtain ⟨h1, h2, h3, h4⟩ := h
  refine ⟨h1, h2, h3, fun ha => ?_⟩
  obtain ⟨a1, a2, a3, a4, a5, a6⟩ := h4 ha
  exact ⟨a1, a2, a3, a4, fun g hgg => a5 g (hg g hgg), a6⟩

/-- a step of the gc thread on slot `j`: the slot keeps `pc` and `begin`, loses items, objects
    may be released if their witness set is empty -/
theorem inv_gc_step (h : Inv s) (j : Nat) (sl : Slot) (gpc' : GPc) (fr : List Nat)
    (hpc : sl.pc = (s.slots j).pc) (hb : sl.begin = (s.slots j).begin)
    (hitems : ∀ x, x ∈ sl.items → x ∈ (s.slots j).items)
    (hgpc : ∀ g, gpc'.g? = some g → s.gpc.g? = some g)
    (hfr : ∀ o, o ∈ fr → o ∈ s.freed ∨ (o ∈ s.allocd ∧ s.wit o = [])) :
    Inv { s with slots := upd s.slots j sl, gpc := gpc', freed := fr } := by
  have hpcs : ∀ k, (upd s.slots j sl k).pc = (s.slots k).pc := by
    intro k; by_cases hk : k = j
    · subst hk; simp [upd, hpc]
    · simp [upd, hk]
  have hbgs : ∀ k, (upd s.slots j sl k).begin = (s.slots k).begin := by
    intro k; by_cases hk : k = j
    · subst hk; simp [upd, hb]
    · simp [upd, hk]
  refine ⟨globOK_gpc h.glob hgpc, ?_, ?_⟩
  · intro k
    simp only [State.pc, State.bg, hpcs, hbgs]
    exact slotOK_gpc (h.slot k) hgpc
  · apply ghost_mono (s' := { s with slots := upd s.slots j sl, gpc := gpc', freed := fr })
      h.ghost rfl rfl
    · intro k hk
      simp only [State.pc, State.bg, hpcs, hbgs]
      exact ⟨hk, trivial⟩
    · intro k x hx
      by_cases hkj : k = j
      · subst hkj
        simp only [State.items, upd, if_true] at hx ⊢
        exact hitems x hx
      · simpa [State.items, upd, hkj] using hx
    · exact hfr

theorem inv_gCache {j} (h : Inv s) (hs : step? cfg s (.gCache j) = some s') : Inv s' := by
  simp only [step?] at hs
  split at hs
  · rename_i j' g hgpc
    split at hs
    · rename_i hj
      subst hj
      split at hs
      · cases hs
        have := inv_glob_step h s.E s.G (.pop j g) s.epc (globOK_gpc h.glob (by simp [hgpc]))
          (fun i => slotOK_gpc (h.slot i) (by simp [hgpc]))
        exact this
      · rename_i t o hc
        split at hs
        · cases hs
          have := inv_glob_step h s.E s.G (.loadG (nextSlot s j)) s.epc
            (globOK_gpc h.glob (by simp)) (fun i => slotOK_gpc (h.slot i) (by simp))
          exact this
        · rename_i hlt
          cases hs
          have hfree := free_ok h (j := j) (t := t) (o := o) (g := g)
            (by simp [State.items, Slot.items, hc]) (by simp [hgpc]) hlt
          refine inv_gc_step h j { s.slots j with cache := none } (.pop j g) (s.freed ++ [o]) rfl rfl ?_ ?_ ?_
          · intro x hx
            simp only [Slot.items, Option.toList, List.nil_append] at hx
            simp only [Slot.items, List.mem_append]
            exact Or.inr hx
          · simp [hgpc]
          · intro o' ho'
            simp only [List.mem_append, List.mem_singleton] at ho'
            rcases ho' with ho' | ho'
            · exact Or.inl ho'
            · subst ho'; exact Or.inr hfree
    · cases hs
  · cases hs

theorem inv_gPop {j} (h : Inv s) (hs : step? cfg s (.gPop j) = some s') : Inv s' := by
  simp only [step?] at hs
  split at hs
  · rename_i j' g hgpc
    split at hs
    · rename_i hj
      subst hj
      split at hs
      · cases hs
        have := inv_glob_step h s.E s.G (.loadG (nextSlot s j)) s.epc
          (globOK_gpc h.glob (by simp)) (fun i => slotOK_gpc (h.slot i) (by simp))
        exact this
      · rename_i t o rest hq
        split at hs
        · cases hs
          refine inv_gc_step h j { s.slots j with queue := rest, cache := some (t, o) } (.loadG (nextSlot s j)) s.freed rfl rfl ?_ ?_ ?_
          · intro x hx
            simp only [Slot.items, Option.toList, List.singleton_append, List.mem_cons] at hx
            simp only [Slot.items, List.mem_append, hq, List.mem_cons]
            rcases hx with hx | hx
            · exact Or.inr (Or.inl hx)
            · exact Or.inr (Or.inr hx)
          · simp
          · intro o' ho'; exact Or.inl ho'
        · rename_i hlt
          cases hs
          have hfree := free_ok h (j := j) (t := t) (o := o) (g := g)
            (by simp [State.items, Slot.items, hq]) (by simp [hgpc]) hlt
          refine inv_gc_step h j { s.slots j with queue := rest } s.gpc (s.freed ++ [o]) rfl rfl ?_ ?_ ?_
          · intro x hx
            simp only [Slot.items, List.mem_append] at hx ⊢
            rcases hx with hx | hx
            · exact Or.inl hx
            · exact Or.inr (by rw [hq]; exact List.mem_cons_of_mem _ hx)
          · simp [hgpc]
          · intro o' ho'
            simp only [List.mem_append, List.mem_singleton] at ho'
            rcases ho' with ho' | ho'
            · exact Or.inl ho'
            · subst ho'; exact Or.inr hfree
    · cases hs
  · cases hs

theorem inv_step {ev : Event} (h : Inv s) (hns : cfg.fixD3 = false → NoStall s)
    (hs : step? cfg s ev = some s') : Inv s' := by
  cases ev with
  | claim i => exact inv_claim h hs
  | loadE i => exact inv_loadE h hs
  | publish i => exact inv_publish h hns hs
  | recheck i => exact inv_recheck h hs
  | leaveBegin i => exact inv_leaveBegin h hs
  | leaveRunning i => exact inv_leaveRunning h hs
  | unlinkRetire i obj => exact inv_unlinkRetire h hs
  | eLoadCur => exact inv_eLoadCur h hs
  | eCheck j => exact inv_eCheck h hs
  | eInc => exact inv_eInc h hs
  | eMinScan j => exact inv_eMinScan h hs
  | eSetG => exact inv_eSetG h hs
  | gLoadG j => exact inv_gLoadG h hs
  | gCache j => exact inv_gCache h hs
  | gPop j => exact inv_gPop h hs

end steps

theorem inv_reach {N : Nat} {s : State} (h : Reach cfgFixed (init N) s) : Inv s := by
  induction h with
  | refl => exact inv_init N
  | step _ hs ih => exact inv_step ih (by simp [cfgFixed]) hs

/-! ## distinctness of retired objects: `freed_once` -/

def objsOf (slots : Nat → Slot) (k : Nat) : List Nat := ((slots k).items).map Prod.snd

structure DistinctOn (objs : Nat → List Nat) (freed : List Nat) : Prop where
  nodupSlot : ∀ i, (objs i).Nodup
  disj : ∀ i k o, o ∈ objs i → o ∈ objs k → i = k
  notFreed : ∀ i o, o ∈ objs i → o ∉ freed
  freedNodup : freed.Nodup

def Distinct (s : State) : Prop := DistinctOn (objsOf s.slots) s.freed

theorem objsOf_upd_same (slots : Nat → Slot) (i : Nat) (sl : Slot)
    (h : sl.items = (slots i).items) : objsOf (upd slots i sl) = objsOf slots := by
  funext k
  by_cases hk : k = i
  · subst hk; simp [objsOf, upd, h]
  · simp [objsOf, upd, hk]

theorem distinct_sub {objs objs' : Nat → List Nat} {fr : List Nat} (h : DistinctOn objs fr)
    (hsub : ∀ k, (objs' k).Sublist (objs k)) : DistinctOn objs' fr := by
  obtain ⟨h1, h2, h3, h4⟩ := h
  refine ⟨fun i => (h1 i).sublist (hsub i), ?_, ?_, h4⟩
  · intro i k o hi hk
    exact h2 i k o ((hsub i).subset hi) ((hsub k).subset hk)
  · intro i o hi
    exact h3 i o ((hsub i).subset hi)

theorem distinct_free {objs objs' : Nat → List Nat} {fr : List Nat} (h : DistinctOn objs fr)
    (j o : Nat) (hother : ∀ k, k ≠ j → objs' k = objs k) (hperm : (objs j).Perm (o :: objs' j)) :
    DistinctOn objs' (fr ++ [o]) := by
  obtain ⟨h1, h2, h3, h4⟩ := h
  have hnd : (o :: objs' j).Nodup := hperm.nodup_iff.mp (h1 j)
  have hoj : o ∈ objs j := hperm.mem_iff.mpr List.mem_cons_self
  have hmem : ∀ k x, x ∈ objs' k → x ∈ objs k := by
    intro k x hx
    by_cases hk : k = j
    · subst hk; exact hperm.mem_iff.mpr (List.mem_cons_of_mem _ hx)
    · rw [hother k hk] at hx; exact hx
  refine ⟨?_, ?_, ?_, ?_⟩
  · intro k
    by_cases hk : k = j
    · subst hk; exact (List.nodup_cons.mp hnd).2
    · rw [hother k hk]; exact h1 k
  · intro i k x hi hk
    exact h2 i k x (hmem i x hi) (hmem k x hk)
  · intro k x hx hfr
    rcases List.mem_append.mp hfr with hfr | hfr
    · exact h3 k x (hmem k x hx) hfr
    · have hxo : x = o := by simpa using hfr
      subst hxo
      by_cases hk : k = j
      · subst hk; exact (List.nodup_cons.mp hnd).1 hx
      · exact hk (h2 k j x (hmem k x hx) hoj)
  · rw [List.nodup_append]
    refine ⟨h4, by simp, ?_⟩
    intro a ha b hb
    have hbo : b = o := by simpa using hb
    subst hbo
    intro hab
    subst hab
    exact h3 j a hoj ha

theorem distinct_retire {objs objs' : Nat → List Nat} {fr : List Nat} (h : DistinctOn objs fr)
    (i obj : Nat) (hfresh : ∀ k, obj ∉ objs k) (hnf : obj ∉ fr)
    (hi : objs' i = objs i ++ [obj]) (hother : ∀ k, k ≠ i → objs' k = objs k) :
    DistinctOn objs' fr := by
  obtain ⟨h1, h2, h3, h4⟩ := h
  have hmem : ∀ k x, x ∈ objs' k → x ∈ objs k ∨ (k = i ∧ x = obj) := by
    intro k x hx
    by_cases hk : k = i
    · subst hk
      rw [hi] at hx
      rcases List.mem_append.mp hx with hx | hx
      · exact Or.inl hx
      · exact Or.inr ⟨rfl, by simpa using hx⟩
    · rw [hother k hk] at hx; exact Or.inl hx
  refine ⟨?_, ?_, ?_, h4⟩
  · intro k
    by_cases hk : k = i
    · subst hk
      rw [hi, List.nodup_append]
      refine ⟨h1 k, by simp, ?_⟩
      intro a ha b hb
      have hbo : b = obj := by simpa using hb
      subst hbo
      intro hab
      subst hab
      exact hfresh k ha
    · rw [hother k hk]; exact h1 k
  · intro a b x ha hb
    rcases hmem a x ha with ha' | ⟨ha1, ha2⟩ <;> rcases hmem b x hb with hb' | ⟨hb1, hb2⟩
    · exact h2 a b x ha' hb'
    · subst hb2; exact absurd ha' (hfresh a)
    · subst ha2; exact absurd hb' (hfresh b)
    · rw [ha1, hb1]
  · intro k x hx
    rcases hmem k x hx with hx' | ⟨_, hx2⟩
    · exact h3 k x hx'
    · subst hx2; exact hnf

theorem distinct_init (N : Nat) : Distinct (init N) := by
  refine ⟨?_, ?_, ?_, ?_⟩ <;> simp [init, objsOf, Slot.items]

section dsteps
variable {cfg : Cfg} {s s' : State}

theorem distinct_setSlot (h : Distinct s) (i : Nat) (sl : Slot)
    (hitems : sl.items = (s.slots i).items) : Distinct (s.setSlot i sl) := by
  show DistinctOn (objsOf (upd s.slots i sl)) s.freed
  rw [objsOf_upd_same _ _ _ hitems]
  exact h

theorem distinct_step {ev : Event} (hI : Inv s) (h : Distinct s)
    (hs : step? cfg s ev = some s') : Distinct s' := by
  cases ev with
  | claim i =>
    simp only [step?] at hs
    split at hs
    · cases hs; exact distinct_setSlot h i _ rfl
    · cases hs
  | loadE i =>
    simp only [step?] at hs
    split at hs
    · cases hs; exact distinct_setSlot h i _ rfl
    · cases hs
  | publish i =>
    simp only [step?] at hs
    split at hs
    · split at hs
      · cases hs; exact distinct_setSlot h i _ rfl
      · cases hs
    · cases hs
  | recheck i =>
    simp only [step?] at hs
    split at hs
    · split at hs
      · cases hs; exact distinct_setSlot h i _ rfl
      · cases hs
    · cases hs
  | leaveBegin i =>
    simp only [step?] at hs
    split at hs
    · cases hs; exact distinct_setSlot h i { s.slots i with begin := 0, pc := .leaving } rfl
    · cases hs
  | leaveRunning i =>
    simp only [step?] at hs
    split at hs
    · cases hs; exact distinct_setSlot h i _ rfl
    · cases hs
  | unlinkRetire i obj =>
    simp only [step?] at hs
    split at hs
    · rename_i hg
      obtain ⟨_, _, hfresh⟩ := hg
      cases hs
      apply distinct_retire h i obj
      · intro k hk
        simp only [objsOf, List.mem_map] at hk
        obtain ⟨⟨t, o⟩, hk1, hk2⟩ := hk
        simp only at hk2
        subst hk2
        exact hfresh (hI.ghost.ret k t o hk1).1
      · intro hf
        exact hfresh (hI.ghost.freedA obj hf).1
      · simp [objsOf, upd, Slot.items]
      · intro k hk
        simp [objsOf, upd, hk]
    · cases hs
  | eLoadCur =>
    simp only [step?] at hs
    split at hs
    · cases hs; exact h
    · cases hs
  | eCheck j =>
    simp only [step?] at hs
    split at hs
    · split at hs
      · split at hs <;> (cases hs; exact h)
      · cases hs
    · cases hs
  | eInc =>
    simp only [step?] at hs
    split at hs
    · split at hs
      · cases hs; exact h
      · cases hs
    · cases hs
  | eMinScan j =>
    simp only [step?] at hs
    split at hs
    · split at hs
      · split at hs <;> (cases hs; exact h)
      · cases hs
    · cases hs
  | eSetG =>
    simp only [step?] at hs
    split at hs
    · split at hs
      · cases hs; exact h
      · cases hs
    · cases hs
  | gLoadG j =>
    simp only [step?] at hs
    split at hs
    · split at hs
      · cases hs; exact h
      · cases hs
    · cases hs
  | gCache j =>
    simp only [step?] at hs
    split at hs
    · split at hs
      · rename_i hj
        subst hj
        split at hs
        · cases hs; exact h
        · rename_i t o hc
          split at hs
          · cases hs; exact h
          · cases hs
            apply distinct_free h j o
            · intro k hk; simp [objsOf, upd, hk]
            · simp [objsOf, upd, Slot.items, hc]
      · cases hs
    · cases hs
  | gPop j =>
    simp only [step?] at hs
    split at hs
    · split at hs
      · rename_i hj
        subst hj
        split at hs
        · cases hs; exact h
        · rename_i t o rest hq
          split at hs
          · cases hs
            apply distinct_sub h
            intro k
            by_cases hk : k = j
            · subst hk
              simp only [objsOf, upd, if_true, Slot.items, hq, Option.toList, List.map_append,
                List.map_cons, List.singleton_append]
              exact List.sublist_append_right _ _
            · simp [objsOf, upd, hk]
          · cases hs
            apply distinct_free h j o
            · intro k hk; simp [objsOf, upd, hk]
            · simp only [objsOf, upd, if_true, Slot.items, hq, List.map_append, List.map_cons]
              exact List.perm_middle
      · cases hs
    · cases hs

end dsteps
theorem inv_distinct_reach {N : Nat} {s : State} (h : Reach cfgFixed (init N) s) :
    Inv s ∧ Distinct s := by
  induction h with
  | refl => exact ⟨inv_init N, distinct_init N⟩
  | step _ hs ih => exact ⟨inv_step ih.1 (by simp [cfgFixed]) hs, distinct_step ih.1 ih.2 hs⟩

/-! ## the unrepaired enter under the "load and store are adjacent" hypothesis -/

/-- runs of the UNREPAIRED protocol in which the epoch is never incremented while some worker is
    between its load of `E` and its store to `begin` -/
inductive ReachAdj (s0 : State) : State → Prop
  | refl : ReachAdj s0 s0
  | step {s s' e} : ReachAdj s0 s → step? cfgD3 s e = some s' →
      (e = .eInc → ∀ i x, s.pc i ≠ .loaded x) → ReachAdj s0 s'

theorem ite_pc (c : Prop) [Decidable c] (a b : Slot) :
    (if c then a else b).pc = if c then a.pc else b.pc := apply_ite _ _ _ _

theorem nostall_step {cfg : Cfg} {s s' : State} {ev : Event} (h : NoStall s)
    (hs : step? cfg s ev = some s') (hadj : ev = .eInc → ∀ i x, s.pc i ≠ .loaded x) :
    NoStall s' := by
  intro k e hk
  simp only [NoStall, State.pc] at h
  cases ev <;> simp only [step?] at hs <;> (repeat' split at hs) <;> cases hs <;>
    simp only [State.setSlot, State.pc, upd, ite_pc, reduceCtorEq, forall_const, false_implies] at hk hadj ⊢ <;>
    grind


theorem nostall_init (N : Nat) : NoStall (init N) := by
  intro i e h
  simp [init, State.pc] at h

theorem inv_reachAdj {N : Nat} {s : State} (h : ReachAdj (init N) s) : Inv s ∧ NoStall s := by
  induction h with
  | refl => exact ⟨inv_init N, nostall_init N⟩
  | step _ hs hadj ih => exact ⟨inv_step ih.1 (fun _ => ih.2) hs, nostall_step ih.2 hs hadj⟩

/-! ## checking concrete traces -/

/-- some released object still has a session in its witness set -/
def prematureB (s : State) : Bool := s.freed.any fun o => !(s.wit o).isEmpty

/-- some object has been released, every released object has an empty witness set, and
    session slot `k` is active -/
def freedSafelyWhileActiveB (k : Nat) (s : State) : Bool :=
  !s.freed.isEmpty && s.freed.all (fun o => (s.wit o).isEmpty) && decide (s.pc k = .active)

def checkRun (cfg : Cfg) (s0 : State) (evs : List Event) (p : State → Bool) : Bool :=
  match run cfg s0 evs with
  | some s => p s
  | none => false

theorem exists_of_checkRun {cfg : Cfg} {s0 : State} {evs : List Event} {p : State → Bool}
    (h : checkRun cfg s0 evs p = true) : ∃ s, Reach cfg s0 s ∧ p s = true := by
  unfold checkRun at h
  cases hr : run cfg s0 evs with
  | none => rw [hr] at h; cases h
  | some s => rw [hr] at h; exact ⟨s, reach_of_run evs s0 s hr, h⟩

theorem prematureB_spec {s : State} (h : prematureB s = true) :
    ∃ obj, obj ∈ s.freed ∧ witness s obj ≠ [] := by
  simp only [prematureB, List.any_eq_true, Bool.not_eq_true', List.isEmpty_eq_false_iff] at h
  exact h

end Yak.Proto.Epoch
