import YakModel.Proto.Epoch
/-!
# Invariants of the epoch reclamation protocol (`Proto/Epoch`)

`Inv` is the inductive invariant behind `no_premature_free`. In words:

* every value a worker ever loaded from `E` or stored into `begin` is in `[1, E]`;
* **window**: an ACTIVE session's `begin` is `E` or `E - 1`, and `G < begin`, and the gc thread's
  local copy `g` of `G` is `< begin` as well (and both are `< E`, which is what makes a session
  that becomes active *later* satisfy the same bound);
* the epoch thread's non-atomic scans: while it is in its check scan its local `cur` equals `E`
  and every active session at a position it has already passed has `begin = E` (so at `eInc`
  ALL active sessions have `begin = E`); while it is in its min scan its running minimum (or `E`
  if it has not seen any session yet) is `≤ begin` of every active session at a position it has
  already passed — a session that becomes active behind the scan position does so with
  `begin = E`, and `E` does not move during the scan because only the scanning thread moves it;
* every retired, not yet released `(tag, obj)` has `begin[j] ≤ tag + 1` for every `j` in
  `witness obj`, and witness sets only contain active sessions.

A release needs `tag < g`; with `g < begin[j] ≤ tag + 1` there is no `j` left in the witness set.

The step lemma is generic in `Cfg`: for the unrepaired enter it needs `NoStall s` (every loaded,
not yet published epoch value still equals `E`).
-/
namespace Yak.Proto.Epoch

def GPc.g? : GPc → Option Nat
  | .loadG _ => none
  | .cache _ g => some g
  | .pop _ g => some g

@[simp] theorem g?_loadG (j : Nat) : (GPc.loadG j).g? = none := rfl
@[simp] theorem g?_cache (j g : Nat) : (GPc.cache j g).g? = some g := rfl
@[simp] theorem g?_pop (j g : Nat) : (GPc.pop j g).g? = some g := rfl

/-- every worker that is between its load of `E` and its store to `begin` holds the current `E` -/
def NoStall (s : State) : Prop := ∀ i e, s.pc i = .loaded e → e = s.E

structure Inv (s : State) : Prop where
  Epos : 1 ≤ s.E
  GltE : s.G < s.E
  bgLe : ∀ i, s.bg i ≤ s.E
  loadedB : ∀ i e, s.pc i = .loaded e → 1 ≤ e ∧ e ≤ s.E
  pubB : ∀ i e, s.pc i = .published e → s.bg i = e ∧ 1 ≤ e
  actB : ∀ i, s.pc i = .active → 1 ≤ s.bg i ∧ s.E ≤ s.bg i + 1 ∧ s.G < s.bg i
  gLoc : ∀ g, s.gpc.g? = some g → g < s.E ∧ ∀ i, s.pc i = .active → g < s.bg i
  chk : ∀ cur j, s.epc = .check cur j →
    cur = s.E ∧ ∀ i, i < j → s.pc i = .active → s.bg i = s.E
  minsS : ∀ v j, s.epc = .minScan (some v) j →
    1 ≤ v ∧ v ≤ s.E ∧ ∀ i, i < j → s.pc i = .active → v ≤ s.bg i
  minsN : ∀ j, s.epc = .minScan none j → ∀ i, i < j → s.pc i = .active → s.E ≤ s.bg i
  actLt : ∀ i, s.pc i = .active → i < s.n
  witAct : ∀ o j, j ∈ s.wit o → s.pc j = .active
  ret : ∀ i t o, (t, o) ∈ s.items i → o ∈ s.allocd ∧ ∀ j, j ∈ s.wit o → s.bg j ≤ t + 1
  freedA : ∀ o, o ∈ s.freed → o ∈ s.allocd ∧ s.wit o = []

theorem inv_init (N : Nat) : Inv (init N) := by
  constructor <;> simp [init, State.bg, State.pc, State.items, Slot.items, GPc.g?]

/-- the core safety argument: an item whose tag is below the gc thread's local `g` has an empty
    witness set -/
theorem free_ok {s : State} (h : Inv s) {j t o g : Nat} (hit : (t, o) ∈ s.items j)
    (hg : s.gpc.g? = some g) (hlt : ¬ g ≤ t) : o ∈ s.allocd ∧ s.wit o = [] := by
  obtain ⟨ha, hw⟩ := h.ret j t o hit
  refine ⟨ha, ?_⟩
  apply List.eq_nil_iff_forall_not_mem.mpr
  intro k hk
  have h1 := hw k hk
  have h2 := (h.gLoc g hg).2 k (h.witAct o k hk)
  omega

theorem mem_activeSlots {s : State} {j : Nat} : j ∈ activeSlots s ↔ j < s.n ∧ s.pc j = .active := by
  simp [activeSlots, List.mem_filter]

syntax "inv_auto" : tactic
macro_rules
  | `(tactic| inv_auto) => `(tactic|
      (constructor <;>
        simp only [State.setSlot, State.pc, State.bg, State.items, upd, g?_loadG, g?_cache, g?_pop] at * <;>
        grind [Slot.items]))

section steps
variable {cfg : Cfg} {s s' : State}

theorem inv_claim {i} (h : Inv s) (hs : step? cfg s (.claim i) = some s') : Inv s' := by
  simp only [step?] at hs
  split at hs
  · cases hs
    obtain ⟨I1, I2, I3, I4, I5, I6, I7, I8, I9, I9', I10, I11, I12, I13⟩ := h
    inv_auto
  · cases hs

theorem inv_loadE {i} (h : Inv s) (hs : step? cfg s (.loadE i) = some s') : Inv s' := by
  simp only [step?] at hs
  split at hs
  · cases hs
    obtain ⟨I1, I2, I3, I4, I5, I6, I7, I8, I9, I9', I10, I11, I12, I13⟩ := h
    inv_auto
  · cases hs

theorem inv_publish {i} (h : Inv s) (hns : cfg.fixD3 = false → NoStall s)
    (hs : step? cfg s (.publish i) = some s') : Inv s' := by
  simp only [step?] at hs
  split at hs
  · rename_i e hpc
    split at hs
    · cases hs
      obtain ⟨I1, I2, I3, I4, I5, I6, I7, I8, I9, I9', I10, I11, I12, I13⟩ := h
      cases hfix : cfg.fixD3 with
      | true => inv_auto
      | false =>
        have hE : e = s.E := hns hfix i e hpc
        inv_auto
    · cases hs
  · cases hs

theorem inv_recheck {i} (h : Inv s) (hs : step? cfg s (.recheck i) = some s') : Inv s' := by
  simp only [step?] at hs
  split at hs
  · split at hs
    · cases hs
      obtain ⟨I1, I2, I3, I4, I5, I6, I7, I8, I9, I9', I10, I11, I12, I13⟩ := h
      inv_auto
    · cases hs
  · cases hs

theorem inv_leaveBegin {i} (h : Inv s) (hs : step? cfg s (.leaveBegin i) = some s') : Inv s' := by
  simp only [step?] at hs
  split at hs
  · cases hs
    obtain ⟨I1, I2, I3, I4, I5, I6, I7, I8, I9, I9', I10, I11, I12, I13⟩ := h
    inv_auto
  · cases hs

theorem inv_leaveRunning {i} (h : Inv s) (hs : step? cfg s (.leaveRunning i) = some s') :
    Inv s' := by
  simp only [step?] at hs
  split at hs
  · cases hs
    obtain ⟨I1, I2, I3, I4, I5, I6, I7, I8, I9, I9', I10, I11, I12, I13⟩ := h
    inv_auto
  · cases hs

theorem inv_unlinkRetire {i obj} (h : Inv s) (hs : step? cfg s (.unlinkRetire i obj) = some s') :
    Inv s' := by
  simp only [step?] at hs
  split at hs
  · cases hs
    have hact : ∀ j, j ∈ activeSlots s ↔ j < s.n ∧ s.pc j = .active := fun j => mem_activeSlots
    generalize activeSlots s = act at *
    obtain ⟨I1, I2, I3, I4, I5, I6, I7, I8, I9, I9', I10, I11, I12, I13⟩ := h
    inv_auto
  · cases hs

theorem inv_eLoadCur (h : Inv s) (hs : step? cfg s .eLoadCur = some s') : Inv s' := by
  simp only [step?] at hs
  split at hs
  · cases hs
    obtain ⟨I1, I2, I3, I4, I5, I6, I7, I8, I9, I9', I10, I11, I12, I13⟩ := h
    inv_auto
  · cases hs

theorem inv_eCheck {j} (h : Inv s) (hs : step? cfg s (.eCheck j) = some s') : Inv s' := by
  simp only [step?] at hs
  split at hs
  · split at hs
    · split at hs
      · cases hs
        obtain ⟨I1, I2, I3, I4, I5, I6, I7, I8, I9, I9', I10, I11, I12, I13⟩ := h
        inv_auto
      · cases hs
        obtain ⟨I1, I2, I3, I4, I5, I6, I7, I8, I9, I9', I10, I11, I12, I13⟩ := h
        inv_auto
    · cases hs
  · cases hs

theorem inv_eInc (h : Inv s) (hs : step? cfg s .eInc = some s') : Inv s' := by
  simp only [step?] at hs
  split at hs
  · split at hs
    · cases hs
      obtain ⟨I1, I2, I3, I4, I5, I6, I7, I8, I9, I9', I10, I11, I12, I13⟩ := h
      inv_auto
    · cases hs
  · cases hs

theorem inv_eMinScan {j} (h : Inv s) (hs : step? cfg s (.eMinScan j) = some s') : Inv s' := by
  simp only [step?] at hs
  split at hs
  · rename_i m j' hepc
    split at hs
    · split at hs
      · cases hs
        obtain ⟨I1, I2, I3, I4, I5, I6, I7, I8, I9, I9', I10, I11, I12, I13⟩ := h
        cases m <;> inv_auto
      · cases hs
        obtain ⟨I1, I2, I3, I4, I5, I6, I7, I8, I9, I9', I10, I11, I12, I13⟩ := h
        cases m <;> inv_auto
    · cases hs
  · cases hs

theorem inv_eSetG (h : Inv s) (hs : step? cfg s .eSetG = some s') : Inv s' := by
  simp only [step?] at hs
  split at hs
  · rename_i m j' hepc
    split at hs
    · cases hs
      obtain ⟨I1, I2, I3, I4, I5, I6, I7, I8, I9, I9', I10, I11, I12, I13⟩ := h
      cases m <;> inv_auto
    · cases hs
  · cases hs

theorem inv_gLoadG {j} (h : Inv s) (hs : step? cfg s (.gLoadG j) = some s') : Inv s' := by
  simp only [step?] at hs
  split at hs
  · split at hs
    · cases hs
      obtain ⟨I1, I2, I3, I4, I5, I6, I7, I8, I9, I9', I10, I11, I12, I13⟩ := h
      inv_auto
    · cases hs
  · cases hs

theorem inv_gCache {j} (h : Inv s) (hs : step? cfg s (.gCache j) = some s') : Inv s' := by
  simp only [step?] at hs
  split at hs
  · rename_i j' g hgpc
    split at hs
    · rename_i hj
      subst hj
      split at hs
      · cases hs
        obtain ⟨I1, I2, I3, I4, I5, I6, I7, I8, I9, I9', I10, I11, I12, I13⟩ := h
        inv_auto
      · rename_i t o hc
        split at hs
        · cases hs
          obtain ⟨I1, I2, I3, I4, I5, I6, I7, I8, I9, I9', I10, I11, I12, I13⟩ := h
          inv_auto
        · rename_i hlt
          cases hs
          have hfree := free_ok h (j := j) (t := t) (o := o) (g := g)
            (by simp [State.items, Slot.items, hc]) (by simp [hgpc]) hlt
          obtain ⟨I1, I2, I3, I4, I5, I6, I7, I8, I9, I9', I10, I11, I12, I13⟩ := h
          inv_auto
    · cases hs
  · cases hs

theorem inv_gPop {j} (h : Inv s) (hs : step? cfg s (.gPop j) = some s') : Inv s' := by
  simp only [step?] at hs
  split at hs
  · rename_i j' g hgpc
    split at hs
    · rename_i hj
      subst hj
      split at hs
      · cases hs
        obtain ⟨I1, I2, I3, I4, I5, I6, I7, I8, I9, I9', I10, I11, I12, I13⟩ := h
        inv_auto
      · rename_i t o rest hq
        split at hs
        · cases hs
          obtain ⟨I1, I2, I3, I4, I5, I6, I7, I8, I9, I9', I10, I11, I12, I13⟩ := h
          inv_auto
        · rename_i hlt
          cases hs
          have hfree := free_ok h (j := j) (t := t) (o := o) (g := g)
            (by simp [State.items, Slot.items, hq]) (by simp [hgpc]) hlt
          obtain ⟨I1, I2, I3, I4, I5, I6, I7, I8, I9, I9', I10, I11, I12, I13⟩ := h
          inv_auto
    · cases hs
  · cases hs

theorem inv_step {ev : Event} (h : Inv s) (hns : cfg.fixD3 = false → NoStall s)
    (hs : step? cfg s ev = some s') : Inv s' := by
  cases ev with
  | claim i => exact inv_claim h hs
  | loadE i => exact inv_loadE h hs
  | publish i => exact inv_publish h hns hs
  | recheck i => exact inv_recheck h hs
  | leaveBegin i => exact inv_leaveBegin h hs
  | leaveRunning i => exact inv_leaveRunning h hs
  | unlinkRetire i obj => exact inv_unlinkRetire h hs
  | eLoadCur => exact inv_eLoadCur h hs
  | eCheck j => exact inv_eCheck h hs
  | eInc => exact inv_eInc h hs
  | eMinScan j => exact inv_eMinScan h hs
  | eSetG => exact inv_eSetG h hs
  | gLoadG j => exact inv_gLoadG h hs
  | gCache j => exact inv_gCache h hs
  | gPop j => exact inv_gPop h hs

end steps

theorem inv_reach {N : Nat} {s : State} (h : Reach cfgFixed (init N) s) : Inv s := by
  induction h with
  | refl => exact inv_init N
  | step _ hs ih => exact inv_step ih (by simp [cfgFixed]) hs

end Yak.Proto.Epoch
