import YakModel.Proofs.ViewOps
/-!
# `insertInto` on one layer: the new chain, its well-formedness, its entries
-/
namespace Yak.Tree
open Yak

theorem Routed.set {leaves pre post : List Leaf} {leaf : Leaf} {k : KT}
    (hr : Routed leaves k pre leaf post) (x : Leaf) :
    leaves.set (route k leaves) x = pre ++ x :: post := by
  rw [← hr.len, hr.eq]; simp

theorem Routed.take {leaves pre post : List Leaf} {leaf : Leaf} {k : KT}
    (hr : Routed leaves k pre leaf post) : leaves.take (route k leaves) = pre := by
  rw [← hr.len, hr.eq]; simp

theorem Routed.drop {leaves pre post : List Leaf} {leaf : Leaf} {k : KT}
    (hr : Routed leaves k pre leaf post) : leaves.drop (route k leaves + 1) = post := by
  rw [← hr.len, hr.eq]; simp

/-- the chain `insertInto` writes back (same code, on the chain alone) -/
def insLeaves (leaves : List Leaf) (k : KT) (e : Ent) : List Leaf :=
  let i := route k leaves
  let leaf := leaves.getD i emptyLeaf
  let rank := rankIfInsert k (leafKeys leaf)
  if leaf.ents.length < Yak.Const.keySliceLength then
    leaves.set i { leaf with ents := insertIdx' leaf.ents rank e, vins := leaf.vins + 1, deleted := false }
  else
    let rem := Yak.Const.borderRemaining
    let lo := leaf.ents.take rem
    let hi := leaf.ents.drop rem
    let first : KT := (hi.headD default).kt
    let lower := borderSplitLower k first rank rem
    let lo' := if lower then insertIdx' lo rank e else lo
    let hi' := if lower then hi else insertIdx' hi (rank - rem) e
    leaves.take i ++ [{ leaf with ents := lo', vins := leaf.vins + 1, vsplit := leaf.vsplit + 1, deleted := false },
      ⟨some first, leaf.vins + 1, leaf.vsplit + 1, false, hi'⟩] ++ leaves.drop (i + 1)

def entOf (rest : Key) (v : Val) : Ent :=
  if rest.length > 8 then ⟨KT.ofKey rest, none⟩ else ⟨KT.ofKey rest, some v⟩

def subOf (p : List UInt8) (rest : Key) (v : Val) : List Layer :=
  if rest.length > 8 then freshLayers (p ++ rest.take 8) (rest.drop 8) v else []

theorem entOf_kt (rest : Key) (v : Val) : (entOf rest v).kt = KT.ofKey rest := by
  unfold entOf; split <;> rfl

theorem entOf_val (rest : Key) (v : Val) : (entOf rest v).val = none ↔ (entOf rest v).kt.len = 9 := by
  unfold entOf
  by_cases h : rest.length > 8
  · simp [h, ofKey_len_long h]
  · simp [h, ofKey_len_ne9 h]

theorem insertInto_eq (t : Tree) (L : Layer) (rest : Key) (v : Val) :
    insertInto t L (route (KT.ofKey rest) L.leaves) rest v =
      { tree := setLayer t { L with leaves := insLeaves L.leaves (KT.ofKey rest) (entOf rest v) } ++
          subOf L.pfx rest v,
        status := .OK,
        modified := some (L.pfx, route (KT.ofKey rest) L.leaves),
        created :=
          if (L.leaves.getD (route (KT.ofKey rest) L.leaves) emptyLeaf).ents.length <
              Yak.Const.keySliceLength then none
          else some (L.pfx, route (KT.ofKey rest) L.leaves + 1) } := by
  unfold insertInto insLeaves entOf subOf
  simp only [decide_eq_true_eq]
  split <;> rfl

theorem leafKeys_eq (l : Leaf) : leafKeys l = l.ents.map (·.kt) := rfl

/-- everything about the position of a new tuple in the routed leaf -/
theorem insert_position {leaves pre post : List Leaf} {leaf : Leaf} {e : Ent}
    (hc : LayerCore leaves) (hw : e.kt.WF) (hr : Routed leaves e.kt pre leaf post)
    (hno : ∀ x ∈ layerEnts leaves, x.kt ≠ e.kt) :
    ∃ a b, leaf.ents = a ++ b ∧ (∀ x ∈ a, KT.ltSpec x.kt e.kt = true) ∧
      (∀ x ∈ b, KT.ltSpec e.kt x.kt = true) ∧ rankIfInsert e.kt (leafKeys leaf) = a.length ∧
      (a ++ e :: b).Pairwise (fun x y => KT.ltSpec x.kt y.kt = true) ∧
      (∀ x ∈ a ++ e :: b, x.kt.WF ∧ (x.val = none ↔ x.kt.len = 9)) := by
  sorry

end Yak.Tree
