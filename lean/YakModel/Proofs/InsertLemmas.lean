import YakModel.Proofs.ViewOps
/-!
# `insertInto` on one layer: the new chain, its well-formedness, its entries
-/
namespace Yak.Tree
open Yak

theorem Routed.set {leaves pre post : List Leaf} {leaf : Leaf} {k : KT}
    (hr : Routed leaves k pre leaf post) (x : Leaf) :
    leaves.set (route k leaves) x = pre ++ x :: post := by
  rw [← hr.len, hr.eq]; simp

theorem Routed.take {leaves pre post : List Leaf} {leaf : Leaf} {k : KT}
    (hr : Routed leaves k pre leaf post) : leaves.take (route k leaves) = pre := by
  rw [← hr.len, hr.eq]; simp

theorem Routed.drop {leaves pre post : List Leaf} {leaf : Leaf} {k : KT}
    (hr : Routed leaves k pre leaf post) : leaves.drop (route k leaves + 1) = post := by
  rw [← hr.len, hr.eq]; simp

/-- the chain `insertInto` writes back (same code, on the chain alone) -/
def insLeaves (leaves : List Leaf) (k : KT) (e : Ent) : List Leaf :=
  let i := route k leaves
  let leaf := leaves.getD i emptyLeaf
  let rank := rankIfInsert k (leafKeys leaf)
  if leaf.ents.length < Yak.Const.keySliceLength then
    leaves.set i { leaf with ents := insertIdx' leaf.ents rank e, vins := leaf.vins + 1, deleted := false }
  else
    let rem := Yak.Const.borderRemaining
    let lo := leaf.ents.take rem
    let hi := leaf.ents.drop rem
    let first : KT := (hi.headD default).kt
    let lower := borderSplitLower k first rank rem
    let lo' := if lower then insertIdx' lo rank e else lo
    let hi' := if lower then hi else insertIdx' hi (rank - rem) e
    leaves.take i ++ [{ leaf with ents := lo', vins := leaf.vins + 1, vsplit := leaf.vsplit + 1, deleted := false },
      ⟨some first, leaf.vins + 1, leaf.vsplit + 1, false, hi'⟩] ++ leaves.drop (i + 1)

def entOf (rest : Key) (v : Val) : Ent :=
  if rest.length > 8 then ⟨KT.ofKey rest, none⟩ else ⟨KT.ofKey rest, some v⟩

def subOf (p : List UInt8) (rest : Key) (v : Val) : List Layer :=
  if rest.length > 8 then freshLayers (p ++ rest.take 8) (rest.drop 8) v else []

theorem entOf_kt (rest : Key) (v : Val) : (entOf rest v).kt = KT.ofKey rest := by
  unfold entOf; split <;> rfl

theorem entOf_val (rest : Key) (v : Val) : (entOf rest v).val = none ↔ (entOf rest v).kt.len = 9 := by
  unfold entOf
  by_cases h : rest.length > 8
  · simp [h, ofKey_len_long h]
  · simp [h, ofKey_len_ne9 h]

theorem insertInto_eq (t : Tree) (L : Layer) (rest : Key) (v : Val) :
    insertInto t L (route (KT.ofKey rest) L.leaves) rest v =
      { tree := setLayer t { L with leaves := insLeaves L.leaves (KT.ofKey rest) (entOf rest v) } ++
          subOf L.pfx rest v,
        status := .OK,
        modified := some (L.pfx, route (KT.ofKey rest) L.leaves),
        created :=
          if (L.leaves.getD (route (KT.ofKey rest) L.leaves) emptyLeaf).ents.length <
              Yak.Const.keySliceLength then none
          else some (L.pfx, route (KT.ofKey rest) L.leaves + 1) } := by
  unfold insertInto insLeaves entOf subOf
  dsimp only
  split <;> rfl

theorem leafKeys_eq (l : Leaf) : leafKeys l = l.ents.map (·.kt) := rfl

/-- everything about the position of a new tuple in the routed leaf -/
theorem insert_position {leaves pre post : List Leaf} {leaf : Leaf} {e : Ent}
    (hc : LayerCore leaves) (hw : e.kt.WF) (hv : e.val = none ↔ e.kt.len = 9)
    (hr : Routed leaves e.kt pre leaf post)
    (hno : ∀ x ∈ layerEnts leaves, x.kt ≠ e.kt) :
    ∃ a b, leaf.ents = a ++ b ∧ (∀ x ∈ a, KT.ltSpec x.kt e.kt = true) ∧
      (∀ x ∈ b, KT.ltSpec e.kt x.kt = true) ∧ rankIfInsert e.kt (leafKeys leaf) = a.length ∧
      (a ++ e :: b).Pairwise (fun x y => KT.ltSpec x.kt y.kt = true) ∧
      (∀ x ∈ a ++ e :: b, x.kt.WF ∧ (x.val = none ↔ x.kt.len = 9)) ∧
      (∀ f ∈ leaf.fence, ∀ x ∈ a ++ e :: b, KT.ltSpec x.kt f = false) ∧
      (∀ b' ∈ post, ∀ f ∈ b'.fence, ∀ x ∈ a ++ e :: b, KT.ltSpec x.kt f = true) := by
  have heq := hr.eq
  subst heq
  have hl : LeafOK leaf := hc.leafOK
  have hwf : ∀ x ∈ leaf.ents, x.kt.WF := fun x hx => (hl.2.1 x hx).1
  have hno' : ∀ x ∈ leaf.ents, x.kt ≠ e.kt := by
    intro x hx; apply hno; rw [layerEnts_split]; simp [hx]
  obtain ⟨a, b, h0, ha, hb⟩ := sorted_insert_decomp hw leaf.ents hwf hl.2.2.1 hno'
  refine ⟨a, b, h0, ha, hb, ?_, ?_, ?_, ?_, ?_⟩
  · rw [leafKeys_eq]; exact rank_eq_of_decomp hw h0 hwf hl.2.2.1 ha hb
  · exact sorted_insert (h0 ▸ hl.2.2.1) ha hb
  · intro x hx
    simp only [List.mem_append, List.mem_cons] at hx
    rcases hx with hx | hx | hx
    · exact hl.2.1 x (by rw [h0]; simp [hx])
    · subst hx; exact ⟨hw, hv⟩
    · exact hl.2.1 x (by rw [h0]; simp [hx])
  · intro f hf x hx
    simp only [List.mem_append, List.mem_cons] at hx
    rcases hx with hx | hx | hx
    · exact hl.2.2.2 f hf x (by rw [h0]; simp [hx])
    · subst hx; exact hr.lo f hf
    · exact hl.2.2.2 f hf x (by rw [h0]; simp [hx])
  · intro b' hb' f hf x hx
    simp only [List.mem_append, List.mem_cons] at hx
    rcases hx with hx | hx | hx
    · exact (hc.before_post b' hb' f hf).2 x (by rw [h0]; simp [hx])
    · subst hx; exact hr.hi b' hb' f hf
    · exact (hc.before_post b' hb' f hf).2 x (by rw [h0]; simp [hx])

theorem insLeaves_lt {leaves pre post : List Leaf} {leaf : Leaf} {k : KT} (e : Ent)
    (hr : Routed leaves k pre leaf post) (hlt : leaf.ents.length < 15) :
    insLeaves leaves k e = pre ++ { leaf with
      ents := insertIdx' leaf.ents (rankIfInsert k (leafKeys leaf)) e,
      vins := leaf.vins + 1, deleted := false } :: post := by
  unfold insLeaves
  simp only [hr.getD]
  rw [if_pos (by simpa [Yak.Const.keySliceLength] using hlt), hr.set]

theorem insLeaves_ge {leaves pre post : List Leaf} {leaf : Leaf} {k : KT} (e : Ent)
    (hr : Routed leaves k pre leaf post) (hge : ¬ leaf.ents.length < 15) :
    insLeaves leaves k e = pre ++
      { leaf with
        ents := (if borderSplitLower k ((leaf.ents.drop 8).headD default).kt
            (rankIfInsert k (leafKeys leaf)) 8 then
          insertIdx' (leaf.ents.take 8) (rankIfInsert k (leafKeys leaf)) e else leaf.ents.take 8),
        vins := leaf.vins + 1, vsplit := leaf.vsplit + 1, deleted := false } ::
      ⟨some ((leaf.ents.drop 8).headD default).kt, leaf.vins + 1, leaf.vsplit + 1, false,
        (if borderSplitLower k ((leaf.ents.drop 8).headD default).kt
            (rankIfInsert k (leafKeys leaf)) 8 then
          leaf.ents.drop 8 else insertIdx' (leaf.ents.drop 8) (rankIfInsert k (leafKeys leaf) - 8) e)⟩ ::
      post := by
  unfold insLeaves
  simp only [hr.getD]
  rw [if_neg (by simpa [Yak.Const.keySliceLength] using hge), hr.take, hr.drop]
  simp [Yak.Const.borderRemaining]

theorem mem_layerEnts_replace {pre post : List Leaf} {leaf leaf' : Leaf} {e : Ent} {a b : List Ent}
    (h0 : leaf.ents = a ++ b) (h1 : leaf'.ents = a ++ e :: b) (x : Ent) :
    x ∈ layerEnts (pre ++ leaf' :: post) ↔ x = e ∨ x ∈ layerEnts (pre ++ leaf :: post) := by
  rw [layerEnts_split, layerEnts_split, h0, h1]
  simp only [List.mem_append, List.mem_cons]
  constructor
  · rintro (h | (h | h | h) | h)
    · exact Or.inr (Or.inl h)
    · exact Or.inr (Or.inr (Or.inl (Or.inl h)))
    · exact Or.inl h
    · exact Or.inr (Or.inr (Or.inl (Or.inr h)))
    · exact Or.inr (Or.inr (Or.inr h))
  · rintro (h | h | (h | h) | h)
    · exact Or.inr (Or.inl (Or.inr (Or.inl h)))
    · exact Or.inl h
    · exact Or.inr (Or.inl (Or.inl h))
    · exact Or.inr (Or.inl (Or.inr (Or.inr h)))
    · exact Or.inr (Or.inr h)

theorem insLeaves_spec {leaves : List Leaf} (hc : LayerCore leaves) {r : Bool} (hE : EmptOK r leaves)
    {e : Ent} (hw : e.kt.WF) (hv : e.val = none ↔ e.kt.len = 9)
    (hno : ∀ x ∈ layerEnts leaves, x.kt ≠ e.kt) :
    LayerCore (insLeaves leaves e.kt e) ∧ EmptOK r (insLeaves leaves e.kt e) ∧
    (∀ x, x ∈ layerEnts (insLeaves leaves e.kt e) ↔ x = e ∨ x ∈ layerEnts leaves) := by
  obtain ⟨pre, leaf, post, hr⟩ := route_decomp hc hw
  obtain ⟨a, b, h0, ha, hb, hrank, hsorted, hwf, hlo, hhi⟩ := insert_position hc hw hv hr hno
  have heq := hr.eq
  have hl : LeafOK leaf := by subst heq; exact hc.leafOK
  have hfull : AllFull (pre ++ post) := by subst heq; exact hE.others_full
  by_cases hlt : leaf.ents.length < 15
  · rw [insLeaves_lt e hr hlt, hrank]
    have hins : insertIdx' leaf.ents a.length e = a ++ e :: b := by rw [h0]; exact insertIdx'_append a b e
    rw [hins]
    subst heq
    refine ⟨?_, ?_, ?_⟩
    · refine hc.replace ?_ ?_ ?_
      · rfl
      · refine ⟨?_, hwf, hsorted, hlo⟩
        have := congrArg List.length h0
        simp only [List.length_append, List.length_cons] at this ⊢
        omega
      · exact hhi
    · exact (hfull.insert (by simp) rfl).emptOK r
    · exact mem_layerEnts_replace h0 rfl
  · have hlen : leaf.ents.length = 15 := by have := hl.1; omega
    rw [insLeaves_ge e hr hlt, hrank]
    obtain ⟨lo', hi', h, hs, e1, e2, e3, e4, e5, e6, e7, e8, e9⟩ :=
      split_shape (first := ((leaf.ents.drop 8).headD default).kt) h0 hlen rfl hw
        (fun x hx => (hl.2.1 x hx).1) ha hb
    rw [e1, e2]
    generalize ((leaf.ents.drop 8).headD default).kt = first at *
    subst e4
    have hsp := hsorted
    rw [← e7, List.pairwise_append] at hsp
    have hmemL : ∀ x ∈ lo', x ∈ a ++ e :: b := by intro x hx; rw [← e7]; simp [hx]
    have hmemR : ∀ x ∈ hi', x ∈ a ++ e :: b := by intro x hx; rw [← e7]; simp [hx]
    have hhw : h.kt.WF := (hl.2.1 h e5).1
    have hhh : h ∈ hi' := by rw [e3]; simp
    obtain ⟨y, hy⟩ := List.exists_mem_of_ne_nil lo' e6
    have hyh : KT.ltSpec y.kt h.kt = true := hsp.2.2 y hy h hhh
    subst heq
    refine ⟨?_, ?_, ?_⟩
    · refine hc.split (first := h.kt) ?_ ?_ ?_ ?_ ?_ ?_ ?_ ?_ ?_
      · rfl
      · rfl
      · exact ⟨by simp only; omega, fun x hx => hwf x (hmemL x hx), hsp.1,
          fun f hf x hx => hlo f hf x (hmemL x hx)⟩
      · refine ⟨by simp only; omega, fun x hx => hwf x (hmemR x hx), hsp.2.1, ?_⟩
        intro f hf x hx
        have : h.kt = f := Option.some.inj hf
        subst this
        simp only at hx
        rw [e3] at hx
        rcases List.mem_cons.mp hx with hx | hx
        · subst hx; exact KT.ltSpec_irrefl _
        · have := hsp.2.1
          rw [e3, List.pairwise_cons] at this
          exact lt_asymm (this.1 x hx)
      · exact hhw
      · exact len_ne_zero_of_lt hyh
      · intro g hg
        have hpre : pre ≠ [] := by
          intro ee; subst ee
          rw [hc.head_none] at hg; cases hg
        obtain ⟨g', hg', hgw, _⟩ := hc.mid_fence hpre
        have : g' = g := by rw [hg'] at hg; exact Option.some.inj hg
        subst this
        exact le_lt_trans hgw hhw (hlo g' hg y (hmemL y hy)) hyh
      · intro x hx; exact hsp.2.2 x hx h hhh
      · intro b' hb' f hf
        refine ⟨(hc.before_post b' hb' f hf).2 h e5, ?_⟩
        intro x hx
        simp only at hx
        rw [e7] at hx
        exact hhi b' hb' f hf x hx
    · have h1 : AllFull (pre ++ (⟨some h.kt, leaf.vins + 1, leaf.vsplit + 1, false, hi'⟩ :: post)) :=
        hfull.insert (by simp only; rw [e3]; simp) rfl
      exact AllFull.emptOK (AllFull.insert h1 e6 rfl) r
    · intro x
      rw [layerEnts_split, layerEnts_split]
      have : layerEnts ((⟨some h.kt, leaf.vins + 1, leaf.vsplit + 1, false, hi'⟩ : Leaf) :: post) =
          hi' ++ layerEnts post := by simp [layerEnts]
      rw [this, h0]
      simp only
      have hx : x ∈ lo' ++ hi' ↔ x = e ∨ x ∈ a ∨ x ∈ b := by
        rw [e7]; simp only [List.mem_append, List.mem_cons]
        constructor
        · rintro (h | h | h)
          · exact Or.inr (Or.inl h)
          · exact Or.inl h
          · exact Or.inr (Or.inr h)
        · rintro (h | h | h)
          · exact Or.inr (Or.inl h)
          · exact Or.inl h
          · exact Or.inr (Or.inr h)
      simp only [List.mem_append] at hx ⊢
      constructor
      · rintro (h | h | h | h)
        · exact Or.inr (Or.inl h)
        · rcases hx.mp (Or.inl h) with h | h | h
          · exact Or.inl h
          · exact Or.inr (Or.inr (Or.inl (Or.inl h)))
          · exact Or.inr (Or.inr (Or.inl (Or.inr h)))
        · rcases hx.mp (Or.inr h) with h | h | h
          · exact Or.inl h
          · exact Or.inr (Or.inr (Or.inl (Or.inl h)))
          · exact Or.inr (Or.inr (Or.inl (Or.inr h)))
        · exact Or.inr (Or.inr (Or.inr h))
      · rintro (h | h | (h | h) | h)
        · rcases hx.mpr (Or.inl h) with h | h
          · exact Or.inr (Or.inl h)
          · exact Or.inr (Or.inr (Or.inl h))
        · exact Or.inl h
        · rcases hx.mpr (Or.inr (Or.inl h)) with h | h
          · exact Or.inr (Or.inl h)
          · exact Or.inr (Or.inr (Or.inl h))
        · rcases hx.mpr (Or.inr (Or.inr h)) with h | h
          · exact Or.inr (Or.inl h)
          · exact Or.inr (Or.inr (Or.inl h))
        · exact Or.inr (Or.inr (Or.inr h))

/-- what `put` reports about the versions (C12), on the chain alone -/
theorem insLeaves_report {leaves : List Leaf} (hc : LayerCore leaves) {k : KT} (hk : k.WF) (e : Ent) :
    ∃ leaf, leaves[route k leaves]? = some leaf ∧
      leaves.getD (route k leaves) emptyLeaf = leaf ∧
      ((leaf.ents.length < 15 ∧ ∃ leaf', insLeaves leaves k e = leaves.set (route k leaves) leaf' ∧
          leaf'.vins = leaf.vins + 1 ∧ leaf'.vsplit = leaf.vsplit) ∨
       (leaf.ents.length = 15 ∧ ∃ a b, insLeaves leaves k e =
          leaves.take (route k leaves) ++ [a, b] ++ leaves.drop (route k leaves + 1) ∧
          a.vins = leaf.vins + 1 ∧ a.vsplit = leaf.vsplit + 1 ∧
          b.vins = leaf.vins + 1 ∧ b.vsplit = leaf.vsplit + 1)) := by
  obtain ⟨pre, leaf, post, hr⟩ := route_decomp hc hk
  have hl : LeafOK leaf := by have := hr.eq; subst this; exact hc.leafOK
  refine ⟨leaf, hr.getElem?, hr.getD, ?_⟩
  by_cases hlt : leaf.ents.length < 15
  · refine Or.inl ⟨hlt, { leaf with
      ents := insertIdx' leaf.ents (rankIfInsert k (leafKeys leaf)) e,
      vins := leaf.vins + 1, deleted := false }, ?_, rfl, rfl⟩
    rw [insLeaves_lt e hr hlt, hr.set]
  · have hlen : leaf.ents.length = 15 := by have := hl.1; omega
    rw [insLeaves_ge e hr hlt, hr.take, hr.drop]
    exact Or.inr ⟨hlen, _, _, by rw [List.append_assoc]; rfl, rfl, rfl, rfl, rfl⟩

end Yak.Tree
