import YakModel.Proofs.ScanKeys
/-!
# The endpoint tests of `scan_border` as interval membership
-/
namespace Yak.Tree
open Yak

/-! ### right endpoint: `memcmp` over the common length of two full keys -/

theorem memcmpMin_swap (a b : Key) : memcmpMin b a = - memcmpMin a b := by
  unfold memcmpMin
  have : Nat.min b.length a.length = Nat.min a.length b.length := Nat.min_comm _ _
  rw [this]
  exact memcmp_swap _ _ _

theorem lexLt_eq_memcmpMin (rk fk : Key) :
    lexLt rk fk = (decide (memcmpMin rk fk < 0) || (memcmpMin rk fk == 0 && decide (rk.length < fk.length))) := by
  have := lexLt_take rk.length fk.length rk fk (Nat.le_refl _) (Nat.le_refl _)
  rw [List.take_length, List.take_length] at this
  exact this

theorem lexLt_eq_memcmpMin' (rk fk : Key) :
    lexLt fk rk = (decide (memcmpMin rk fk > 0) || (memcmpMin rk fk == 0 && decide (fk.length < rk.length))) := by
  rw [lexLt_eq_memcmpMin fk rk, memcmpMin_swap rk fk]
  generalize memcmpMin rk fk = c
  rw [Bool.eq_iff_iff]
  simp only [Bool.or_eq_true, Bool.and_eq_true, decide_eq_true_eq, beq_iff_eq]
  omega

theorem inRight_true_of_lt {rk : Key} {re : EP} {k : Key} (h : lexLt k rk = true) : inRight rk re k = true := by
  cases re with
  | inf => rfl
  | incl => simp [inRight, lexLt_asymm _ _ h]
  | excl => exact h

theorem withinRight_eq (rk : Key) (re : EP) (fk : Key) : withinRight rk re fk = inRight rk re fk := by
  cases re with
  | inf => rfl
  | incl =>
    have e : (EP.incl == EP.inf) = false := rfl
    have e2 : (EP.incl == EP.incl) = true := rfl
    simp only [withinRight, inRight, lexLt_eq_memcmpMin rk fk, e, e2, Bool.false_eq_true, if_false]
    generalize memcmpMin rk fk = c
    rw [Bool.eq_iff_iff]
    simp only [Bool.or_eq_true, Bool.and_eq_true, decide_eq_true_eq, beq_iff_eq, Bool.not_eq_true',
      Bool.or_eq_false_iff, Bool.and_eq_false_iff, decide_eq_false_iff_not, beq_eq_false_iff_ne,
      Bool.and_true, ne_eq]
    omega
  | excl =>
    have e : (EP.excl == EP.inf) = false := rfl
    have e2 : (EP.excl == EP.incl) = false := rfl
    simp only [withinRight, inRight, lexLt_eq_memcmpMin' rk fk, e, e2, Bool.false_eq_true, if_false,
      Bool.and_false, Bool.or_false]

/-! ### key tuples of arbitrary keys -/

theorem ofKey_slice (lk : Key) : (KT.ofKey lk).slice = padTo 8 lk := by
  by_cases h : lk.length > 8
  · rw [ofKey_long h, padTo_of_ge (by omega)]
  · rw [ofKey_short h]

theorem ofKey_bytes_take (lk : Key) : (KT.ofKey lk).bytes = lk.take 8 := by
  by_cases h : lk.length > 8
  · rw [ofKey_long h]
    simp only [KT.bytes]
    have : Nat.min 9 8 = 8 := rfl
    rw [this]
    exact List.take_of_length_le (by simp only [List.length_take]; omega)
  · rw [bytes_ofKey_short h, List.take_of_length_le (by omega)]

/-- a terminal tuple against the tuple of an arbitrary key: the order of the byte strings -/
theorem ltSpec_ofKey_right {tt : KT} (hw : tt.WF) (h8 : tt.len ≤ 8) (lk : Key) :
    KT.ltSpec tt (KT.ofKey lk) = lexLt tt.bytes lk := by
  have hbl := bytes_len_of_short hw h8
  unfold KT.ltSpec
  by_cases h : lk.length > 8
  · rw [ofKey_bytes_take, ofKey_len_long h]
    have hlt : tt.len < 9 := by omega
    have := lexLt_short_long tt.bytes (lk.take 8) (lk.drop 8) (by rw [hbl, take8_len h]; exact h8)
      (drop8_ne_nil h)
    rw [List.take_append_drop] at this
    rw [this]
    simp [hlt]
  · rw [bytes_ofKey_short h, ofKey_len_short h]
    by_cases e : tt.bytes = lk
    · have : ¬ tt.len < lk.length := by rw [← e, hbl]; omega
      simp [this]
    · simp [e]

theorem ltSpec_ofKey_left {tt : KT} (hw : tt.WF) (h8 : tt.len ≤ 8) (lk : Key) :
    KT.ltSpec (KT.ofKey lk) tt = lexLt lk tt.bytes := by
  have hbl := bytes_len_of_short hw h8
  unfold KT.ltSpec
  by_cases h : lk.length > 8
  · rw [ofKey_bytes_take, ofKey_len_long h]
    have hlt : ¬ 9 < tt.len := by omega
    have := lexLt_long_short tt.bytes (lk.take 8) (lk.drop 8) (by rw [hbl, take8_len h]; exact h8)
    rw [List.take_append_drop] at this
    rw [this]
    simp [hlt]
  · rw [bytes_ofKey_short h, ofKey_len_short h]
    by_cases e : lk = tt.bytes
    · have : ¬ lk.length < tt.len := by rw [e, hbl]; omega
      simp [this]
    · simp [e]

theorem eq_ofKey_iff {tt : KT} (hw : tt.WF) (h8 : tt.len ≤ 8) (lk : Key) :
    tt = KT.ofKey lk ↔ tt.bytes = lk := by
  constructor
  · intro e
    have hs : ¬ lk.length > 8 := by
      intro h
      have := congrArg KT.len e
      rw [ofKey_len_long h] at this; omega
    rw [e, bytes_ofKey_short hs]
  · intro e
    rw [← e, ofKey_bytes hw h8]

/-- a tuple below the tuple of `lk`: every (layer-relative) key under it is below `lk` -/
theorem keys_lt_of_ltSpec_ofKey {tt : KT} (hw : tt.WF) {lk : Key} (h : KT.ltSpec tt (KT.ofKey lk) = true) :
    (tt.len ≤ 8 → lexLt tt.bytes lk = true) ∧ (tt.len = 9 → ∀ r', lexLt (tt.slice ++ r') lk = true) := by
  refine ⟨fun h8 => by rw [← ltSpec_ofKey_right hw h8]; exact h, ?_⟩
  intro h9 r'
  have hb : tt.bytes = tt.slice := bytes_of_link hw h9
  unfold KT.ltSpec at h
  rw [hb, ofKey_bytes_take, h9] at h
  have hlen : ¬ 9 < (KT.ofKey lk).len := by have := (KT.ofKey_wf lk).2.1; omega
  simp only [hlen, decide_false, Bool.and_false, Bool.or_false] at h
  have := lexLt_append_both tt.slice (lk.take 8) r' (lk.drop 8) h (by rw [hw.1]; simp only [List.length_take]; omega)
  rw [List.take_append_drop] at this
  exact this

/-! ### left endpoint on a terminal entry -/

theorem beforeLeft_eq {tt : KT} (hw : tt.WF) (h8 : tt.len ≤ 8) (lk : Key) (le : EP) :
    beforeLeft lk le tt.slice tt.len = !inLeft lk le tt.bytes := by
  cases le with
  | inf => rfl
  | incl =>
    have e : (EP.incl == EP.inf) = false := rfl
    have e2 : (EP.incl == EP.excl) = false := rfl
    simp only [beforeLeft, inLeft, e, e2, Bool.false_eq_true, if_false, Bool.and_false, Bool.or_false,
      Bool.not_not]
    rw [← ltSpec_ofKey_right hw h8, ltSpec_eq_cmp8 _ _ hw (KT.ofKey_wf lk), ofKey_slice,
      memcmp_swap 8 (padTo 8 lk) tt.slice]
    have hl : (tt.len < (KT.ofKey lk).len) ↔ lk.length > tt.len := by
      by_cases h : lk.length > 8
      · rw [ofKey_len_long h]; omega
      · rw [ofKey_len_short h]
    generalize memcmp (padTo 8 lk) tt.slice 8 = c
    rw [Bool.eq_iff_iff]
    simp only [Bool.or_eq_true, Bool.and_eq_true, decide_eq_true_eq, beq_iff_eq]
    omega
  | excl =>
    have e : (EP.excl == EP.inf) = false := rfl
    have e2 : (EP.excl == EP.excl) = true := rfl
    simp only [beforeLeft, inLeft, e, e2, Bool.false_eq_true, if_false, Bool.and_true]
    rw [← ltSpec_ofKey_left hw h8, ltSpec_eq_cmp8 _ _ (KT.ofKey_wf lk) hw, ofKey_slice]
    have hl : ((KT.ofKey lk).len < tt.len) ↔ lk.length < tt.len := by
      by_cases h : lk.length > 8
      · rw [ofKey_len_long h]; omega
      · rw [ofKey_len_short h]
    generalize memcmp (padTo 8 lk) tt.slice 8 = c
    rw [Bool.eq_iff_iff]
    simp only [Bool.or_eq_true, Bool.and_eq_true, decide_eq_true_eq, beq_iff_eq, Bool.not_eq_true',
      Bool.or_eq_false_iff, Bool.and_eq_false_iff, decide_eq_false_iff_not, beq_eq_false_iff_ne, ne_eq]
    omega

/-! ### the sub-range handed to a next layer -/

/-- the left half of `linkArgs` -/
def linkLeft (lk : Key) (le : EP) (ks : List UInt8) : Option (Key × EP) :=
  if le == .inf then some ([], .inf)
  else
    let c := memcmp (padTo 8 lk) ks 8
    if c < 0 then some ([], .inf)
    else if c == 0 then some (if lk.length > 8 then lk.drop 8 else [], le)
    else none

theorem linkArgs_eq (lk : Key) (le : EP) (rk : Key) (re : EP) (ks : List UInt8) (F : Key) :
    linkArgs lk le rk re ks F =
      match linkLeft lk le ks with
      | none => .skip
      | some (alk, ale) =>
        if re == .inf then .go alk ale [] .inf
        else
          let c := memcmpMin rk F
          if c < 0 then .stop
          else if c == 0 then
            if rk.length ≤ F.length then .stop else .go alk ale rk re
          else .go alk ale [] .inf := rfl

theorem linkLeft_none {lk : Key} {le : EP} {ks : List UInt8} (hks : ks.length = 8)
    (h : linkLeft lk le ks = none) : ∀ r', inLeft lk le (ks ++ r') = false := by
  intro r'
  unfold linkLeft at h
  split at h
  · cases h
  · rename_i hle
    have hle' : le ≠ .inf := by intro e; subst e; exact hle rfl
    dsimp only at h
    split at h
    · cases h
    · split at h
      · cases h
      · rename_i h1 h2
        have hc : memcmp (padTo 8 lk) ks 8 > 0 := by
          have : ¬ memcmp (padTo 8 lk) ks 8 = 0 := by simpa using h2
          omega
        have := (memcmp_gt_iff (padTo_length 8 lk) hks).mp hc
        exact inLeft_false_of_lt hle' (lexLt_of_lt_padTo 8 lk ks r' hks this)

theorem linkLeft_some {lk : Key} {le : EP} {ks : List UInt8} {alk : Key} {ale : EP} (hks : ks.length = 8)
    (h : linkLeft lk le ks = some (alk, ale)) :
    (ale = .inf → alk = []) ∧ ∀ r', r' ≠ [] → inLeft alk ale r' = inLeft lk le (ks ++ r') := by
  unfold linkLeft at h
  split at h
  · rename_i hle
    have hle' : le = .inf := by cases le <;> first | rfl | cases hle
    simp only [Option.some.injEq, Prod.mk.injEq] at h
    obtain ⟨rfl, rfl⟩ := h
    subst hle'
    exact ⟨fun _ => rfl, fun _ _ => rfl⟩
  · rename_i hle
    dsimp only at h
    split at h
    · rename_i hc
      simp only [Option.some.injEq, Prod.mk.injEq] at h
      obtain ⟨rfl, rfl⟩ := h
      refine ⟨fun _ => rfl, fun r' _ => ?_⟩
      have := (memcmp_lt_iff (padTo_length 8 lk) hks).mp hc
      rw [inLeft_true_of_lt (lexLt_of_padTo_lt 8 lk ks r' hks this)]
      rfl
    · split at h
      · rename_i h1 h2
        have hc : memcmp (padTo 8 lk) ks 8 = 0 := by simpa using h2
        have hP : padTo 8 lk = ks := (memcmp_eq_iff (padTo_length 8 lk) hks).mp hc
        simp only [Option.some.injEq, Prod.mk.injEq] at h
        obtain ⟨rfl, rfl⟩ := h
        refine ⟨fun e => by subst e; exact absurd rfl hle, fun r' hr' => ?_⟩
        by_cases hl : lk.length > 8
        · rw [if_pos hl]
          have hlk : lk = ks ++ lk.drop 8 := by
            rw [← hP, padTo_of_ge (by omega), List.take_append_drop]
          conv => rhs; rw [hlk]
          cases le <;> simp only [inLeft, lexLt_append_left]
        · rw [if_neg hl]
          have hks' : ks = lk ++ List.replicate (8 - lk.length) 0 := by
            rw [← hP, padTo_of_le (by omega)]
          have hlt : lexLt lk (ks ++ r') = true := by
            rw [hks', List.append_assoc]
            apply lexLt_append_self
            intro e
            exact hr' (List.append_eq_nil_iff.mp e).2
          rw [inLeft_true_of_lt hlt]
          cases r' with
          | nil => exact absurd rfl hr'
          | cons x xs => cases le <;> rfl
      · cases h

theorem linkArgs_skip {lk : Key} {le : EP} {rk : Key} {re : EP} {ks : List UInt8} {F : Key}
    (hks : ks.length = 8) (h : linkArgs lk le rk re ks F = .skip) :
    ∀ r', inLeft lk le (ks ++ r') = false := by
  rw [linkArgs_eq] at h
  cases hl : linkLeft lk le ks with
  | none => exact linkLeft_none hks hl
  | some x =>
    obtain ⟨alk, ale⟩ := x
    rw [hl] at h
    dsimp only at h
    split at h
    · cases h
    · split at h
      · cases h
      · split at h
        · split at h <;> cases h
        · cases h

theorem linkArgs_stop {lk : Key} {le : EP} {rk : Key} {re : EP} {ks : List UInt8} {F : Key}
    (h : linkArgs lk le rk re ks F = .stop) : re ≠ .inf ∧ lexLt F rk = false := by
  rw [linkArgs_eq] at h
  cases hl : linkLeft lk le ks with
  | none => rw [hl] at h; cases h
  | some x =>
    obtain ⟨alk, ale⟩ := x
    rw [hl] at h
    dsimp only at h
    split at h
    · cases h
    · rename_i hre
      have hre' : re ≠ .inf := by intro e; subst e; exact hre rfl
      refine ⟨hre', ?_⟩
      rw [lexLt_eq_memcmpMin' rk F]
      split at h
      · rename_i hc
        have h1 : ¬ memcmpMin rk F > 0 := by omega
        have h2 : ¬ memcmpMin rk F = 0 := by omega
        simp [h1, h2]
      · split at h
        · rename_i h1 h2
          have hc : memcmpMin rk F = 0 := by simpa using h2
          split at h
          · rename_i h3
            have : ¬ F.length < rk.length := by omega
            simp [hc, this]
          · cases h
        · cases h

theorem linkArgs_go {lk : Key} {le : EP} {rk : Key} {re : EP} {ks : List UInt8} {F : Key}
    {alk : Key} {ale : EP} {ark : Key} {are : EP}
    (hks : ks.length = 8) (h : linkArgs lk le rk re ks F = .go alk ale ark are) :
    (ale = .inf → alk = []) ∧
    ∀ r', r' ≠ [] → inLeft alk ale r' = inLeft lk le (ks ++ r') ∧
      inRight ark are (F ++ r') = inRight rk re (F ++ r') := by
  rw [linkArgs_eq] at h
  cases hl : linkLeft lk le ks with
  | none => rw [hl] at h; cases h
  | some x =>
    obtain ⟨alk', ale'⟩ := x
    rw [hl] at h
    obtain ⟨h0, hleft⟩ := linkLeft_some hks hl
    dsimp only at h
    split at h
    · rename_i hre
      have hre' : re = .inf := by cases re <;> first | rfl | cases hre
      simp only [LinkArgs.go.injEq] at h
      obtain ⟨rfl, rfl, rfl, rfl⟩ := h
      subst hre'
      exact ⟨h0, fun r' hr' => ⟨hleft r' hr', rfl⟩⟩
    · split at h
      · cases h
      · split at h
        · split at h
          · cases h
          · simp only [LinkArgs.go.injEq] at h
            obtain ⟨rfl, rfl, rfl, rfl⟩ := h
            exact ⟨h0, fun r' hr' => ⟨hleft r' hr', rfl⟩⟩
        · rename_i h1 h2
          simp only [LinkArgs.go.injEq] at h
          obtain ⟨rfl, rfl, rfl, rfl⟩ := h
          refine ⟨h0, fun r' hr' => ⟨hleft r' hr', ?_⟩⟩
          have hc : memcmpMin rk F > 0 := by
            have : ¬ memcmpMin rk F = 0 := by simpa using h2
            omega
          have hc' : memcmp F rk (Nat.min F.length rk.length) < 0 := by
            have := memcmpMin_swap rk F
            unfold memcmpMin at this hc
            omega
          have := memcmp_neg_append _ F rk r' [] (Nat.min_le_left _ _) (Nat.min_le_right _ _) hc'
          rw [List.append_nil] at this
          rw [inRight_true_of_lt this]
          rfl

/-! ### the initial descent: truncating the length can only move the start to the left -/

theorem memcmp_prefix_nonpos : ∀ (n' n : Nat) (s t : List UInt8), n' ≤ n → memcmp s t n < 0 →
    memcmp s t n' ≤ 0
  | 0, _, _, _, _, _ => by rw [memcmp_zero_n]; omega
  | n' + 1, 0, _, _, h, _ => by omega
  | n' + 1, n + 1, s, t, h, hc => by
    rw [memcmp_succ] at hc ⊢
    by_cases h1 : s.headD 0 < t.headD 0
    · rw [if_pos h1]; omega
    · rw [if_neg h1] at hc ⊢
      by_cases h2 : t.headD 0 < s.headD 0
      · rw [if_pos h2] at hc; omega
      · rw [if_neg h2] at hc ⊢
        exact memcmp_prefix_nonpos n' n s.tail t.tail (by omega) hc

theorem descent_left {lk : Key} {f : KT} (hf : f.WF)
    (h : routeLeft (descentKT lk false) f = false) : KT.ltSpec (KT.ofKey lk) f = false := by
  cases hs : KT.ltSpec (KT.ofKey lk) f with
  | false => rfl
  | true =>
    exfalso
    rw [← routeLeft_eq _ _ (KT.ofKey_wf lk) hf] at hs
    have hf9 := hf.2.1
    by_cases hl : lk.length > 8
    · -- the true tuple is a link tuple; the descent tuple has the same slice and some length
      have hdk : descentKT lk false = ⟨padTo 8 lk, lk.length % 256⟩ := rfl
      rw [hdk] at h
      rw [ofKey_long hl, ← padTo_of_ge (by omega : 8 ≤ lk.length)] at hs
      unfold routeLeft at h hs
      simp only at h hs
      have e9 : (if 9 < f.len then 9 else f.len) = f.len := by split <;> omega
      rw [e9] at hs
      have hn9 : ¬ 9 < f.len := by omega
      simp only [hn9, decide_false, Bool.and_false, Bool.or_false, decide_eq_true_eq] at hs
      generalize hm : lk.length % 256 = m at h
      simp only [Bool.or_eq_false_iff, Bool.and_eq_false_iff, decide_eq_false_iff_not,
        beq_eq_false_iff_ne, ne_eq] at h
      obtain ⟨h1, h2⟩ := h
      have hle : (if (if m < f.len then m else f.len) > 8 then 8 else (if m < f.len then m else f.len)) ≤
          (if f.len > 8 then 8 else f.len) := by
        repeat' split
        all_goals omega
      have hnp := memcmp_prefix_nonpos _ _ _ _ hle hs
      have h0 : memcmp (padTo 8 lk) f.slice
          (if (if m < f.len then m else f.len) > 8 then 8 else (if m < f.len then m else f.len)) = 0 := by
        omega
      rcases h2 with h2 | h2
      · exact h2 h0
      · have e : (if m < f.len then m else f.len) = f.len := by rw [if_neg h2]
        rw [e] at h1
        exact h1 hs
    · -- short key: the descent tuple is the true tuple
      have hdk : descentKT lk false = KT.ofKey lk := by
        rw [ofKey_short hl]
        show (⟨padTo 8 lk, lk.length % 256⟩ : KT) = _
        rw [Nat.mod_eq_of_lt (by omega)]
      rw [hdk, hs] at h
      cases h

/-- an INF left end descends with the empty key, which routes to the first leaf -/
theorem route_nil_key {leaves : List Leaf} (h : FencesOK leaves) :
    route (descentKT [] false) leaves = 0 := by
  cases leaves with
  | nil => rfl
  | cons l ls =>
    unfold route
    cases ls with
    | nil => rfl
    | cons m ms =>
      obtain ⟨f, hf, _, hf0⟩ := h.2 m (by simp)
      have hf' : m.fence = some f := hf
      simp only [routeFrom, hf']
      have : routeLeft (descentKT [] false) f = true := by
        unfold routeLeft descentKT
        have : 0 < f.len := by omega
        simp [this]
      rw [this]; rfl

end Yak.Tree
