import YakModel.Proto.LockOrder
/-!
# Proofs for `LockOrder` (C09)

`no_deadlock`: among the blocked threads take one whose awaited lock is maximal (w.r.t. the strict
lock order) among all awaited locks; the holder of that lock cannot itself be blocked, because the
discipline would force the lock it waits for to lie strictly above the maximal one.
-/
namespace Yak.Proto.LockOrder

/-- a non-empty list has a maximal element under an irreflexive transitive relation. -/
theorem exists_maximal {α : Type} (R : α → α → Prop) (irrefl : ∀ a, ¬ R a a)
    (trans : ∀ a b c, R a b → R b c → R a c) :
    ∀ (l : List α), l ≠ [] → ∃ m ∈ l, ∀ x ∈ l, ¬ R m x := by
  intro l
  induction l with
  | nil => intro h; exact absurd rfl h
  | cons a tl ih =>
    intro _
    by_cases htl : tl = []
    · subst htl
      refine ⟨a, List.mem_cons_self, ?_⟩
      intro x hx
      have : x = a := by simpa using hx
      subst this
      exact irrefl x
    · obtain ⟨m, hm, hmax⟩ := ih htl
      by_cases hma : R m a
      · refine ⟨a, List.mem_cons_self, ?_⟩
        intro x hx hax
        rcases List.mem_cons.mp hx with rfl | hx'
        · exact irrefl _ hax
        · exact hmax x hx' (trans _ _ _ hma hax)
      · refine ⟨m, List.mem_cons_of_mem _ hm, ?_⟩
        intro x hx
        rcases List.mem_cons.mp hx with rfl | hx'
        · exact hma
        · exact hmax x hx'

variable {L : Type}

theorem no_deadlock (lt : L → L → Prop)
    (irrefl : ∀ a, ¬ lt a a) (trans : ∀ a b c, lt a b → lt b c → lt a c)
    (s : Sys L) (wf : s.WellFormed) (disc : s.Ordered lt) (hne : s.blocked ≠ []) :
    ∃ t ∈ s.blocked, ∀ l, s.waits t = some l → ∀ u, s.holder l = some u → u ∉ s.blocked := by
  obtain ⟨_, hblk, _⟩ := wf
  -- order threads by the lock they wait for
  let R : Nat → Nat → Prop := fun t u => ∃ l l', s.waits t = some l ∧ s.waits u = some l' ∧ lt l l'
  have Rirr : ∀ a, ¬ R a a := by
    rintro a ⟨l, l', h1, h2, h3⟩
    rw [h1] at h2
    cases h2
    exact irrefl _ h3
  have Rtr : ∀ a b c, R a b → R b c → R a c := by
    rintro a b c ⟨l1, l2, h1, h2, h3⟩ ⟨l2', l3, h4, h5, h6⟩
    rw [h2] at h4
    cases h4
    exact ⟨l1, l3, h1, h5, trans _ _ _ h3 h6⟩
  obtain ⟨t, ht, hmax⟩ := exists_maximal R Rirr Rtr s.blocked hne
  refine ⟨t, ht, ?_⟩
  intro l hw u hu hub
  obtain ⟨l', hw'⟩ := (hblk u).mp hub
  exact hmax u hub ⟨l, l', hw, hw', disc u l' hw' l hu⟩

theorem lock_free_threads_block_nobody (s : Sys L) (t : Nat)
    (h : ∀ l, s.holder l ≠ some t) : ∀ u l, s.waits u = some l → s.holder l ≠ some t :=
  fun _ l _ => h l

/-- non-vacuity: thread 1 holds lock 5 and is running; thread 0 holds lock 3 and waits for 5. -/
def exSys : Sys Nat where
  holder := fun l => if l = 3 then some 0 else if l = 5 then some 1 else none
  waits := fun t => if t = 0 then some 5 else none
  blocked := [0]

theorem exSys_wellFormed : exSys.WellFormed := by
  refine ⟨by simp [exSys], ?_, ?_⟩
  · intro t
    by_cases h : t = 0 <;> simp [exSys, h]
  · intro t l hw
    by_cases h : t = 0
    · subst h
      simp [exSys] at hw
      subst hw
      exact ⟨1, by simp [exSys], by decide⟩
    · simp [exSys, h] at hw

theorem exSys_ordered : exSys.Ordered (· < ·) := by
  intro t l hw h hh
  by_cases ht : t = 0
  · subst ht
    simp [exSys] at hw
    subst hw
    by_cases h3 : h = 3
    · subst h3; decide
    · by_cases h5 : h = 5
      · subst h5; simp [exSys] at hh
      · simp [exSys, h3, h5] at hh
  · simp [exSys, ht] at hw

example : exSys.WellFormed ∧ exSys.Ordered (· < ·) ∧ exSys.blocked ≠ [] :=
  ⟨exSys_wellFormed, exSys_ordered, by simp [exSys]⟩

end Yak.Proto.LockOrder
