import YakModel.Version
/-!
# Bit-level facts about the node version word

`encode`/`decode` are inverse bijections; `unlockW` (the field view) agrees with `unlockArith`
(plain 64-bit arithmetic); each setter touches only its own field.
-/
namespace Yak.Version
open Yak.Const

/-! ## layout -/

theorem encode_getLsbD (b : Body) (i : Nat) :
    (encode b).getLsbD i =
      if i < 29 then b.vinsert.getLsbD i
      else if i = 29 then b.locked
      else if i = 30 then b.inserting
      else if i = 31 then b.splitting
      else if i < 61 then b.vsplit.getLsbD (i - 32)
      else if i = 61 then b.deleted
      else if i = 62 then b.root
      else if i = 63 then b.border
      else false := by
  unfold encode
  simp only [BitVec.getLsbD_append, BitVec.getLsbD_ofBool]
  by_cases h0 : i < 29
  · simp [h0]
  by_cases h1 : i = 29
  · simp [h1]
  by_cases h2 : i = 30
  · simp [h2]
  by_cases h3 : i = 31
  · simp [h3]
  by_cases h4 : i < 61
  · have e : i - 29 - 1 - 1 - 1 = i - 32 := by omega
    have a1 : ¬ (i - 29 < 1) := by omega
    have a2 : ¬ (i - 29 - 1 < 1) := by omega
    have a3 : ¬ (i - 29 - 1 - 1 < 1) := by omega
    have a4 : (i - 32 < 29) := by omega
    simp [h0, h1, h2, h3, h4, e, a1, a2, a3, a4]
  by_cases h5 : i = 61
  · simp [h5]
  by_cases h6 : i = 62
  · simp [h6]
  by_cases h7 : i = 63
  · simp [h7]
  have a1 : ¬ (i - 29 < 1) := by omega
  have a2 : ¬ (i - 29 - 1 < 1) := by omega
  have a3 : ¬ (i - 29 - 1 - 1 < 1) := by omega
  have a4 : ¬ (i - 29 - 1 - 1 - 1 < 29) := by omega
  have a5 : ¬ (i - 29 - 1 - 1 - 1 - 29 < 1) := by omega
  have a6 : ¬ (i - 29 - 1 - 1 - 1 - 29 - 1 < 1) := by omega
  have a7 : ¬ (i - 29 - 1 - 1 - 1 - 29 - 1 - 1 = 0) := by omega
  simp [h0, h1, h2, h3, h4, h5, h6, h7, a1, a2, a3, a4, a5, a6, a7]


theorem encode_lo (b : Body) : (encode b).extractLsb' 0 29 = b.vinsert := by
  ext i hi
  simp [encode_getLsbD, hi]

theorem encode_hi (b : Body) : (encode b).extractLsb' 32 29 = b.vsplit := by
  ext i hi
  have h1 : ¬ (32 + i < 29) := by omega
  have h2 : (32 + i < 61) := by omega
  have h3 : ¬ (32 + i = 29) := by omega
  have h4 : ¬ (32 + i = 30) := by omega
  have h5 : ¬ (32 + i = 31) := by omega
  simp [encode_getLsbD, hi, h1, h2, h3, h4, h5]

theorem decode_encode (b : Body) : decode (encode b) = b := by
  cases b
  simp only [decode, vinsertShift, lockedBit, insertingBit, splittingBit, vsplitShift, deletedBit,
    rootBit, borderBit, encode_lo, encode_hi, encode_getLsbD]
  simp

theorem encode_decode (w : W) : encode (decode w) = w := by
  ext i hi
  rw [← BitVec.getLsbD_eq_getElem, encode_getLsbD]
  simp only [decode, vinsertShift, lockedBit, insertingBit, splittingBit, vsplitShift, deletedBit,
    rootBit, borderBit, BitVec.getLsbD_extractLsb']
  rw [← BitVec.getLsbD_eq_getElem]
  by_cases h0 : i < 29
  · simp [h0]
  by_cases h1 : i = 29
  · simp [h1]
  by_cases h2 : i = 30
  · simp [h2]
  by_cases h3 : i = 31
  · simp [h3]
  by_cases h4 : i < 61
  · have a4 : (i - 32 < 29) := by omega
    have e : 32 + (i - 32) = i := by omega
    simp [h0, h1, h2, h3, h4, e, a4]
  by_cases h5 : i = 61
  · simp [h5]
  by_cases h6 : i = 62
  · simp [h6]
  by_cases h7 : i = 63
  · simp [h7]
  omega


/-! ## word arithmetic of `unlockArith` -/

theorem m29_getLsbD (i : Nat) : (0x1FFFFFFF#64).getLsbD i = decide (i < 29) := by
  have e : (0x1FFFFFFF#64) = BitVec.setWidth 64 (BitVec.allOnes 29) := by decide
  rw [e]
  simp only [BitVec.getLsbD_setWidth, BitVec.getLsbD_allOnes]
  by_cases h : i < 29 <;> simp [h] <;> omega

theorem lo_add_one (w : W) : (w + 1#64).extractLsb' 0 29 = w.extractLsb' 0 29 + 1#29 := by
  apply BitVec.eq_of_toNat_eq
  rw [BitVec.extractLsb'_toNat, BitVec.toNat_add, BitVec.toNat_add, BitVec.extractLsb'_toNat]
  have e1 : (1#64).toNat = 1 := by rfl
  have e2 : (1#29).toNat = 1 := by rfl
  rw [e1, e2, Nat.shiftRight_eq_div_pow, Nat.shiftRight_eq_div_pow]
  omega

theorem hi_add_one (w : W) :
    (w + 4294967296#64).extractLsb' 32 29 = w.extractLsb' 32 29 + 1#29 := by
  apply BitVec.eq_of_toNat_eq
  rw [BitVec.extractLsb'_toNat, BitVec.toNat_add, BitVec.toNat_add, BitVec.extractLsb'_toNat]
  have e1 : (4294967296#64).toNat = 4294967296 := by rfl
  have e2 : (1#29).toNat = 1 := by rfl
  rw [e1, e2, Nat.shiftRight_eq_div_pow, Nat.shiftRight_eq_div_pow]
  omega

/-- the insert step of `unlockArith` -/
def insStep (w : W) : W :=
  ((w &&& ~~~(0x1FFFFFFF#64)) ||| ((w + 1#64) &&& 0x1FFFFFFF#64)) &&& ~~~(1#64 <<< 30)

theorem insStep_getLsbD (w : W) (i : Nat) :
    (insStep w).getLsbD i =
      if i < 29 then (w.extractLsb' 0 29 + 1#29).getLsbD i
      else if i = 30 then false else w.getLsbD i := by
  rw [← lo_add_one]
  unfold insStep
  simp only [BitVec.getLsbD_and, BitVec.getLsbD_or, BitVec.getLsbD_not, m29_getLsbD,
    BitVec.getLsbD_shiftLeft, BitVec.getLsbD_one, BitVec.getLsbD_extractLsb']
  by_cases h0 : i < 29
  · have : i < 64 := by omega
    have : i < 30 := by omega
    simp [*]
  by_cases h1 : i = 30
  · simp [h1]
  by_cases h2 : i < 64
  · by_cases h3 : i < 30
    · simp [*]
    · have : ¬ (i - 30 = 0) := by omega
      simp [*]
  · have : w.getLsbD i = false := BitVec.getLsbD_of_ge w i (by omega)
    simp [*]

/-- the split step of `unlockArith` -/
def splitStep (w : W) : W :=
  ((w &&& ~~~(0x1FFFFFFF#64 <<< 32)) ||| ((w + (1#64 <<< 32)) &&& (0x1FFFFFFF#64 <<< 32))) &&&
    ~~~(1#64 <<< 31)

theorem splitStep_getLsbD (w : W) (i : Nat) :
    (splitStep w).getLsbD i =
      if 32 ≤ i ∧ i < 61 then (w.extractLsb' 32 29 + 1#29).getLsbD (i - 32)
      else if i = 31 then false else w.getLsbD i := by
  rw [← hi_add_one]
  unfold splitStep
  have e : (1#64 <<< 32) = 4294967296#64 := by decide
  rw [e]
  simp only [BitVec.getLsbD_and, BitVec.getLsbD_or, BitVec.getLsbD_not, m29_getLsbD,
    BitVec.getLsbD_shiftLeft, BitVec.getLsbD_one, BitVec.getLsbD_extractLsb']
  by_cases h0 : 32 ≤ i ∧ i < 61
  · have : i < 64 := by omega
    have : ¬ i < 32 := by omega
    have : ¬ i < 31 := by omega
    have : i - 32 < 29 := by omega
    have : ¬ (i - 31 = 0) := by omega
    have : 32 + (i - 32) = i := by omega
    simp [*]
  by_cases h1 : i = 31
  · simp [h1]
  by_cases h2 : i < 64
  · by_cases h3 : i < 31
    · have : i < 32 := by omega
      simp [*]
    · have : ¬ (i - 31 = 0) := by omega
      have : ¬ i < 32 := by omega
      have : ¬ (i - 32 < 29) := by omega
      simp [*]
  · have : w.getLsbD i = false := BitVec.getLsbD_of_ge w i (by omega)
    simp [*]

def lockStep (w : W) : W := w &&& ~~~(1#64 <<< 29)

theorem lockStep_getLsbD (w : W) (i : Nat) :
    (lockStep w).getLsbD i = if i = 29 then false else w.getLsbD i := by
  unfold lockStep
  simp only [BitVec.getLsbD_and, BitVec.getLsbD_not,
    BitVec.getLsbD_shiftLeft, BitVec.getLsbD_one]
  by_cases h1 : i = 29
  · simp [h1]
  by_cases h2 : i < 64
  · by_cases h3 : i < 29
    · simp [*]
    · have : ¬ (i - 29 = 0) := by omega
      simp [*]
  · have : w.getLsbD i = false := BitVec.getLsbD_of_ge w i (by omega)
    simp [*]



theorem insStep_lo (w : W) : (insStep w).extractLsb' 0 29 = w.extractLsb' 0 29 + 1#29 := by
  ext i hi
  rw [← BitVec.getLsbD_eq_getElem, ← BitVec.getLsbD_eq_getElem, BitVec.getLsbD_extractLsb',
    insStep_getLsbD]
  simp [hi]

theorem insStep_hi (w : W) : (insStep w).extractLsb' 32 29 = w.extractLsb' 32 29 := by
  ext i hi
  rw [← BitVec.getLsbD_eq_getElem, ← BitVec.getLsbD_eq_getElem, BitVec.getLsbD_extractLsb',
    BitVec.getLsbD_extractLsb', insStep_getLsbD]
  have : ¬ (32 + i < 29) := by omega
  have : ¬ (32 + i = 30) := by omega
  simp [*]

theorem splitStep_lo (w : W) : (splitStep w).extractLsb' 0 29 = w.extractLsb' 0 29 := by
  ext i hi
  rw [← BitVec.getLsbD_eq_getElem, ← BitVec.getLsbD_eq_getElem, BitVec.getLsbD_extractLsb',
    BitVec.getLsbD_extractLsb', splitStep_getLsbD]
  have : ¬ (32 ≤ i ∧ i < 61) := by omega
  have : ¬ (i = 31) := by omega
  simp [*]

theorem splitStep_hi (w : W) : (splitStep w).extractLsb' 32 29 = w.extractLsb' 32 29 + 1#29 := by
  ext i hi
  rw [← BitVec.getLsbD_eq_getElem, ← BitVec.getLsbD_eq_getElem, BitVec.getLsbD_extractLsb',
    splitStep_getLsbD]
  have : (32 ≤ 32 + i ∧ 32 + i < 61) := by omega
  have : 32 + i - 32 = i := by omega
  simp [*]

theorem lockStep_lo (w : W) : (lockStep w).extractLsb' 0 29 = w.extractLsb' 0 29 := by
  ext i hi
  rw [← BitVec.getLsbD_eq_getElem, ← BitVec.getLsbD_eq_getElem, BitVec.getLsbD_extractLsb',
    BitVec.getLsbD_extractLsb', lockStep_getLsbD]
  have : ¬ (i = 29) := by omega
  simp [*]

theorem lockStep_hi (w : W) : (lockStep w).extractLsb' 32 29 = w.extractLsb' 32 29 := by
  ext i hi
  rw [← BitVec.getLsbD_eq_getElem, ← BitVec.getLsbD_eq_getElem, BitVec.getLsbD_extractLsb',
    BitVec.getLsbD_extractLsb', lockStep_getLsbD]
  have : ¬ (32 + i = 29) := by omega
  simp [*]

theorem decode_insStep (w : W) :
    decode (insStep w) = { decode w with vinsert := (decode w).vinsert + 1, inserting := false } := by
  simp only [decode, vinsertShift, lockedBit, insertingBit, splittingBit, vsplitShift, deletedBit,
    rootBit, borderBit, insStep_lo, insStep_hi, insStep_getLsbD]
  simp

theorem decode_splitStep (w : W) :
    decode (splitStep w) = { decode w with vsplit := (decode w).vsplit + 1, splitting := false } := by
  simp only [decode, vinsertShift, lockedBit, insertingBit, splittingBit, vsplitShift, deletedBit,
    rootBit, borderBit, splitStep_lo, splitStep_hi, splitStep_getLsbD]
  simp

theorem decode_lockStep (w : W) :
    decode (lockStep w) = { decode w with locked := false } := by
  simp only [decode, vinsertShift, lockedBit, insertingBit, splittingBit, vsplitShift, deletedBit,
    rootBit, borderBit, lockStep_lo, lockStep_hi, lockStep_getLsbD]
  simp

theorem unlockArith_eq (w : W) :
    unlockArith w =
      lockStep (if (if w.getLsbD 30 then insStep w else w).getLsbD 31
                then splitStep (if w.getLsbD 30 then insStep w else w)
                else (if w.getLsbD 30 then insStep w else w)) := rfl

theorem decode_unlockArith (w : W) : decode (unlockArith w) = (decode w).unlock := by
  rw [unlockArith_eq, decode_lockStep]
  have hI : w.getLsbD 30 = (decode w).inserting := rfl
  have hS : ∀ v : W, v.getLsbD 31 = (decode v).splitting := fun _ => rfl
  rw [hI, hS]
  unfold Body.unlock
  cases h1 : (decode w).inserting <;> cases h2 : (decode w).splitting <;>
    simp [h1, h2, decode_insStep, decode_splitStep]


/-! ## unlock -/

theorem decode_unlockW (w : W) : decode (unlockW w) = (decode w).unlock := by
  unfold unlockW
  rw [decode_encode]

theorem unlock_clears (w : W) :
    (decode (unlockW w)).locked = false ∧ (decode (unlockW w)).inserting = false ∧
    (decode (unlockW w)).splitting = false := by
  rw [decode_unlockW]
  unfold Body.unlock
  cases h1 : (decode w).inserting <;> cases h2 : (decode w).splitting <;> simp [h1, h2]

theorem unlock_counters (w : W) :
    (decode (unlockW w)).vinsert =
      (if (decode w).inserting then (decode w).vinsert + 1 else (decode w).vinsert) ∧
    (decode (unlockW w)).vsplit =
      (if (decode w).splitting then (decode w).vsplit + 1 else (decode w).vsplit) := by
  rw [decode_unlockW]
  unfold Body.unlock
  cases h1 : (decode w).inserting <;> cases h2 : (decode w).splitting <;> simp [h1, h2]

theorem unlock_others (w : W) :
    (decode (unlockW w)).deleted = (decode w).deleted ∧ (decode (unlockW w)).root = (decode w).root ∧
    (decode (unlockW w)).border = (decode w).border := by
  rw [decode_unlockW]
  unfold Body.unlock
  cases h1 : (decode w).inserting <;> cases h2 : (decode w).splitting <;> simp [h1, h2]

theorem unlockW_eq_arith (w : W) : unlockW w = unlockArith w := by
  rw [← encode_decode (unlockArith w), decode_unlockArith]
  rfl

theorem unlock_wraps (b : Body) (h : b.vinsert = BitVec.ofNat 29 (2^29 - 1)) (hi : b.inserting = true) :
    (decode (unlockW (encode b))).vinsert = 0 ∧ (decode (unlockW (encode b))).vsplit =
      (if b.splitting then b.vsplit + 1 else b.vsplit) := by
  rw [decode_unlockW, decode_encode]
  unfold Body.unlock
  cases b.splitting <;> simp [hi, h]

/-! ## setters -/

theorem setters_local (w : W) (tf : Bool) :
    decode (setRootW w tf) = { decode w with root := tf } ∧
    decode (setBorderW w tf) = { decode w with border := tf } ∧
    decode (setDeletedW w tf) = { decode w with deleted := tf } ∧
    decode (setInsertingW w tf) = { decode w with inserting := tf } ∧
    decode (setSplittingW w tf) = { decode w with splitting := tf } ∧
    decode (lockW w) = { decode w with locked := true } := by
  unfold setRootW setBorderW setDeletedW setInsertingW setSplittingW lockW
  simp only [decode_encode]
  exact ⟨rfl, rfl, rfl, rfl, rfl, rfl⟩

end Yak.Version
