import YakModel.Proofs.LeafLookup
/-!
# `Leaf`: the history-free invariants of reachable states (`Inv1`)

Lock discipline, shape of the shared cells, and what each program counter knows about the shared
state. Facts a reader holds are conditional on `quiet s v1`: no insert has started since the reader
fetched version `v1` (the seqlock argument: an insert in flight sets `ins`, a finished one bumped
`vins`, and `vins` never decreases).
-/
namespace Yak.Proto.Leaf

def Pc.holds : Pc → Bool
  | .locked _ _ | .relooked _ _ | .insFlag _ | .keyed _ _ | .valued _ _ | .published _ _
  | .cleared _ _ => true
  | _ => false

/-- thread `t` is between `lock` and `unlock` -/
def holdsLock (s : State) (t : Nat) : Prop := (s.pc t).holds = true

def OpKind.isGet : OpKind → Bool
  | .get _ => true
  | _ => false

/-- no insert has started since version `v1` was fetched -/
def quiet (s : State) (v1 : Nat) : Prop := s.ver.vins = v1 ∧ s.ver.ins = false

/-- what a lookup result means now -/
def HitOk (s : State) (op : OpKind) : Option Slot → Prop
  | none => lookupIn s.keys s.perm (opKey op) = none
  | some sl => s.keys sl = some (opKey op)

def PcOk (c : Cfg) (s : State) : Pc → Prop
  | .idle => True
  | .start _ => True
  | .haveV _ v1 => v1 ≤ s.ver.vins
  | .haveP _ v1 p => v1 ≤ s.ver.vins ∧ (quiet s v1 → ∀ a ∈ s.perm, a ∈ p)
  | .looked op v1 hit => v1 ≤ s.ver.vins ∧ (quiet s v1 → HitOk s op hit)
  | .valid op v1 hit => v1 ≤ s.ver.vins ∧ (quiet s v1 → HitOk s op hit)
  | .gotVal _ v1 x => v1 ≤ s.ver.vins ∧ (c.fixD1 = true → x ≠ none)
  | .locked op hit => s.ver.ins = false ∧ (hit = none → lookupIn s.keys s.perm (opKey op) = none)
  | .relooked op hit => s.ver.ins = false ∧ hit = lookupIn s.keys s.perm (opKey op)
  | .insFlag op => s.ver.ins = true ∧ lookupIn s.keys s.perm (opKey op) = none
  | .keyed op sl => s.ver.ins = true ∧ lookupIn s.keys s.perm (opKey op) = none ∧ sl ∉ s.perm ∧
      s.keys sl = some (opKey op)
  | .valued op sl => s.ver.ins = true ∧ lookupIn s.keys s.perm (opKey op) = none ∧ sl ∉ s.perm ∧
      s.keys sl = some (opKey op) ∧ ∀ k v u, op = .put k v u → s.vals sl = some v
  | .published op r => r = .ok none ∧ op.isGet = false
  | .cleared op sl => s.ver.ins = false ∧ sl ∈ s.perm ∧ s.keys sl = some (opKey op) ∧ s.vals sl = none
  | .done op r => ∀ x, r = .ok x → if op.isGet = true then (c.fixD1 = true → x ≠ none) else x = none

structure Inv1 (c : Cfg) (s : State) : Prop where
  lk_holds : ∀ t, (s.pc t).holds = true → s.ver.locked = true
  lk_uniq : ∀ t1 t2, (s.pc t1).holds = true → (s.pc t2).holds = true → t1 = t2
  ins_locked : s.ver.ins = true → s.ver.locked = true
  keys_inj : ∀ a ∈ s.perm, ∀ b ∈ s.perm, s.keys a = s.keys b → a = b
  val_listed : ∀ a ∈ s.perm, s.vals a = none → ∃ t op, s.pc t = .cleared op a
  val_unlisted : ∀ a, a ∉ s.perm → s.vals a ≠ none → ∃ t op, s.pc t = .valued op a
  run_mem : ∀ t, s.pc t ≠ .idle → t ∈ s.running
  inv_lt : ∀ t, s.pc t ≠ .idle → s.inv t < s.now
  pc_ok : ∀ t, PcOk c s (s.pc t)
  hist_get : c.fixD1 = true → ∀ t k i j, (t, OpKind.get k, Res.ok none, i, j) ∉ s.hist

theorem inv1_init (c : Cfg) : Inv1 c init := by
  constructor <;> simp [init, Pc.holds, PcOk]

theorem Step.pc_other {c s t s'} (h : Step c s t s') (t' : Nat) (ht : t' ≠ t) : s'.pc t' = s.pc t' := by
  cases h <;> exact upd_other _ _ _ _ ht

theorem Step.now_eq {c s t s'} (h : Step c s t s') : s'.now = s.now + 1 := by
  cases h <;> rfl

theorem Step.vins_mono {c s t s'} (h : Step c s t s') : s.ver.vins ≤ s'.ver.vins := by
  cases h <;> try exact Nat.le_refl _
  case unlockPub => show _ ≤ (if _ then _ else _); split <;> simp

theorem holder_eq {c s t t'} (I : Inv1 c s) (h1 : (s.pc t).holds = true) (h2 : (s.pc t').holds = true) :
    t' = t := I.lk_uniq t' t h2 h1

/-- the seqlock step: if the word still looks quiet for `v1` afterwards, it was quiet before, and the
    step was no part of an insert: key cells untouched, the permutation can only have shrunk -/
theorem quiet_step {c s t s'} (I : Inv1 c s) (h : Step c s t s') {v1 : Nat} (hv : v1 ≤ s.ver.vins)
    (hq : quiet s' v1) : quiet s v1 ∧ s'.keys = s.keys ∧ ∀ a ∈ s'.perm, a ∈ s.perm := by
  have hok := I.pc_ok t
  cases h
  case setIns => exact absurd hq.2 (by simp)
  case stKey hpc => rw [hpc] at hok; exact absurd hq.2 (by simp [hok.1])
  case stPermIns hpc => rw [hpc] at hok; exact absurd hq.2 (by simp [hok.1])
  case stPermRem => exact ⟨hq, rfl, fun a ha => (List.mem_filter.mp ha).1⟩
  case unlockPub =>
    obtain ⟨h1, _⟩ := hq
    simp only at h1
    split at h1
    · omega
    · rename_i hi
      exact ⟨⟨h1, by simpa using hi⟩, rfl, fun a ha => ha⟩
  all_goals exact ⟨hq, rfl, fun a ha => ha⟩

theorem PcOk_congr {c : Cfg} {s s' : State} (h1 : s'.ver = s.ver) (h2 : s'.perm = s.perm)
    (h3 : s'.keys = s.keys) (h4 : s'.vals = s.vals) (p : Pc) : PcOk c s p → PcOk c s' p := by
  cases p <;> simp only [PcOk, quiet, HitOk, h1, h2, h3, h4] <;> exact id

/-- a thread that does not hold the lock keeps what it knows across a lock holder's step -/
theorem PcOk_reader {c : Cfg} {s s' : State} (hm : s.ver.vins ≤ s'.ver.vins)
    (hq : ∀ v1, v1 ≤ s.ver.vins → quiet s' v1 →
      quiet s v1 ∧ s'.keys = s.keys ∧ ∀ a ∈ s'.perm, a ∈ s.perm)
    (p : Pc) (hp : p.holds = false) : PcOk c s p → PcOk c s' p := by
  have hit : ∀ op v1 hit, v1 ≤ s.ver.vins → (quiet s v1 → HitOk s op hit) → quiet s' v1 → HitOk s' op hit := by
    intro op v1 hit hv h q'
    obtain ⟨q, hk, hsub⟩ := hq v1 hv q'
    have := h q
    cases hit with
    | none => simp only [HitOk, hk] at this ⊢; exact lookupIn_none_subset this hsub
    | some sl => simp only [HitOk, hk] at this ⊢; exact this
  cases p <;> simp only [Pc.holds] at hp <;> try (cases hp; done)
  all_goals simp only [PcOk]
  case idle | start => exact id
  case haveV => exact fun h => Nat.le_trans h hm
  case haveP =>
    rintro ⟨h1, h2⟩
    refine ⟨Nat.le_trans h1 hm, fun q' a ha => ?_⟩
    obtain ⟨q, _, hsub⟩ := hq _ h1 q'
    exact h2 q a (hsub a ha)
  case looked => exact fun ⟨h1, h2⟩ => ⟨Nat.le_trans h1 hm, hit _ _ _ h1 h2⟩
  case valid => exact fun ⟨h1, h2⟩ => ⟨Nat.le_trans h1 hm, hit _ _ _ h1 h2⟩
  case gotVal => exact fun ⟨h1, h2⟩ => ⟨Nat.le_trans h1 hm, h2⟩
  case done => exact id

theorem lk_holds_step {c s t s'} (I : Inv1 c s) (h : Step c s t s') :
    ∀ t', (s'.pc t').holds = true → s'.ver.locked = true := by
  intro t'
  by_cases ht : t' = t
  · subst ht
    cases h <;> simp only [upd_same, Pc.holds] <;> intro h' <;> try (cases h'; done)
    all_goals rename_i hpc
    all_goals first | trivial | exact I.lk_holds t' (by rw [hpc]; rfl)
  · intro h'
    rw [h.pc_other t' ht] at h'
    have hl := I.lk_holds t' h'
    cases h <;> try exact hl
    case lockOk => rfl
    all_goals rename_i hpc
    all_goals exact absurd (holder_eq I (by rw [hpc]; rfl) h') ht

theorem lk_uniq_step {c s t s'} (I : Inv1 c s) (h : Step c s t s') :
    ∀ t1 t2, (s'.pc t1).holds = true → (s'.pc t2).holds = true → t1 = t2 := by
  have aux : ∀ t2, t2 ≠ t → (s'.pc t).holds = true → (s.pc t2).holds = true → False := by
    intro t2 ht2
    cases h <;> simp only [upd_same, Pc.holds] <;> intro h1 h2 <;> try (cases h1; done)
    case lockOk hl _ _ => have := I.lk_holds t2 h2; rw [hl] at this; cases this
    all_goals rename_i hpc
    all_goals exact ht2 (holder_eq I (by rw [hpc]; rfl) h2)
  intro t1 t2 h1 h2
  by_cases e1 : t1 = t <;> by_cases e2 : t2 = t
  · rw [e1, e2]
  · subst e1; rw [h.pc_other t2 e2] at h2; exact (aux t2 e2 h1 h2).elim
  · subst e2; rw [h.pc_other t1 e1] at h1; exact (aux t1 e1 h2 h1).elim
  · rw [h.pc_other t1 e1] at h1; rw [h.pc_other t2 e2] at h2; exact I.lk_uniq t1 t2 h1 h2

theorem ins_locked_step {c s t s'} (I : Inv1 c s) (h : Step c s t s') :
    s'.ver.ins = true → s'.ver.locked = true := by
  have hok := I.pc_ok t
  cases h <;> try exact I.ins_locked
  case lockOk => intro _; rfl
  case setIns hpc => intro _; exact I.lk_holds t (by rw [hpc]; rfl)
  case unlockPub => intro h; cases h
  case unlockRemMiss hpc => rw [hpc] at hok; intro h; exact absurd h (by simp [hok.1])
  case unlockRetry hpc => rw [hpc] at hok; intro h; exact absurd h (by simp [hok.1])

theorem keys_inj_step {c s t s'} (I : Inv1 c s) (h : Step c s t s') :
    ∀ a ∈ s'.perm, ∀ b ∈ s'.perm, s'.keys a = s'.keys b → a = b := by
  have hok := I.pc_ok t
  cases h <;> try exact I.keys_inj
  case stKey k v u sl hfree hpc =>
    intro a ha b hb
    have hsl := freeSlot_not_mem hfree
    dsimp only at ha hb ⊢
    have ea : a ≠ sl := fun e => hsl (e ▸ ha)
    have eb : b ≠ sl := fun e => hsl (e ▸ hb)
    rw [upd_other _ _ _ _ ea, upd_other _ _ _ _ eb]
    exact I.keys_inj a ha b hb
  case stPermIns k v u sl hpc =>
    rw [hpc] at hok
    obtain ⟨_, hn, _, hk, _⟩ := hok
    have hn' := lookupIn_none.mp hn
    intro a ha b hb hab
    rcases (mem_insertSorted a).mp ha with ea | ha' <;> rcases (mem_insertSorted b).mp hb with eb | hb'
    · rw [ea, eb]
    · subst ea; exact absurd (hab.symm.trans hk) (hn' b hb')
    · subst eb; exact absurd (hab.trans hk) (hn' a ha')
    · exact I.keys_inj a ha' b hb' hab
  case stPermRem =>
    intro a ha b hb
    exact I.keys_inj a (List.mem_filter.mp ha).1 b (List.mem_filter.mp hb).1

theorem val_listed_step {c s t s'} (I : Inv1 c s) (h : Step c s t s') :
    ∀ a ∈ s'.perm, s'.vals a = none → ∃ t' op, s'.pc t' = .cleared op a := by
  have hok := I.pc_ok t
  -- generic transfer of the old witness when the acting thread was not `cleared` on `a`
  have tr : ∀ a, a ∈ s.perm → s.vals a = none → (∀ op, s.pc t ≠ .cleared op a) →
      ∃ t' op, s'.pc t' = .cleared op a := by
    intro a ha hv hne
    obtain ⟨t', op, hw⟩ := I.val_listed a ha hv
    refine ⟨t', op, ?_⟩
    rw [h.pc_other t' (by rintro rfl; exact hne op hw)]; exact hw
  intro a ha hv
  cases h
  case stValIns k v u sl hpc =>
    dsimp only at ha hv
    rw [hpc] at hok
    have : a ≠ sl := fun e => hok.2.2.1 (e ▸ ha)
    rw [upd_other _ _ _ _ this] at hv
    exact tr a ha hv (by intro op; rw [hpc]; intro e; cases e)
  case stValUpd k v sl hpc =>
    dsimp only at ha hv
    by_cases e : a = sl
    · subst e; rw [upd_same] at hv; cases hv
    · rw [upd_other _ _ _ _ e] at hv
      exact tr a ha hv (by intro op; rw [hpc]; intro e; cases e)
  case clearVal k sl hpc =>
    dsimp only at ha hv
    by_cases e : a = sl
    · subst e; exact ⟨t, _, upd_same _ _ _⟩
    · rw [upd_other _ _ _ _ e] at hv
      exact tr a ha hv (by intro op; rw [hpc]; intro e; cases e)
  case stPermIns k v u sl hpc =>
    dsimp only at ha hv
    rw [hpc] at hok
    rcases (mem_insertSorted a).mp ha with e | ha'
    · subst e; rw [hok.2.2.2.2 k v u rfl] at hv; cases hv
    · exact tr a ha' hv (by intro op; rw [hpc]; intro e; cases e)
  case stPermRem k sl hpc =>
    dsimp only at ha hv
    obtain ⟨ha', hne⟩ := List.mem_filter.mp ha
    have : a ≠ sl := by simpa using hne
    exact tr a ha' hv (by intro op; rw [hpc]; intro e; cases e; exact this rfl)
  all_goals rename_i hpc
  all_goals exact tr a ha hv (by intro op; rw [hpc]; intro e; cases e)

theorem val_unlisted_step {c s t s'} (I : Inv1 c s) (h : Step c s t s') :
    ∀ a, a ∉ s'.perm → s'.vals a ≠ none → ∃ t' op, s'.pc t' = .valued op a := by
  have hok := I.pc_ok t
  have tr : ∀ a, a ∉ s.perm → s.vals a ≠ none → (∀ op, s.pc t ≠ .valued op a) →
      ∃ t' op, s'.pc t' = .valued op a := by
    intro a ha hv hne
    obtain ⟨t', op, hw⟩ := I.val_unlisted a ha hv
    refine ⟨t', op, ?_⟩
    rw [h.pc_other t' (by rintro rfl; exact hne op hw)]; exact hw
  intro a ha hv
  cases h
  case stValIns k v u sl hpc =>
    dsimp only at ha hv
    by_cases e : a = sl
    · subst e; exact ⟨t, _, upd_same _ _ _⟩
    · rw [upd_other _ _ _ _ e] at hv
      exact tr a ha hv (by intro op; rw [hpc]; intro e; cases e)
  case stValUpd k v sl hpc =>
    dsimp only at ha hv
    rw [hpc] at hok
    have hm := (lookupIn_some hok.2.symm).1
    have : a ≠ sl := fun e => ha (e ▸ hm)
    rw [upd_other _ _ _ _ this] at hv
    exact tr a ha hv (by intro op; rw [hpc]; intro e; cases e)
  case clearVal k sl hpc =>
    dsimp only at ha hv
    by_cases e : a = sl
    · subst e; rw [upd_same] at hv; exact absurd rfl hv
    · rw [upd_other _ _ _ _ e] at hv
      exact tr a ha hv (by intro op; rw [hpc]; intro e; cases e)
  case stPermIns k v u sl hpc =>
    dsimp only at ha hv
    have h1 : a ≠ sl := fun e => ha ((mem_insertSorted a).mpr (Or.inl e))
    have h2 : a ∉ s.perm := fun e => ha ((mem_insertSorted a).mpr (Or.inr e))
    exact tr a h2 hv (by intro op; rw [hpc]; intro e; cases e; exact h1 rfl)
  case stPermRem k sl hpc =>
    dsimp only at ha hv
    rw [hpc] at hok
    by_cases e : a = sl
    · subst e; exact absurd hok.2.2.2 hv
    · have : a ∉ s.perm := fun hm => ha (List.mem_filter.mpr ⟨hm, by simpa using e⟩)
      exact tr a this hv (by intro op; rw [hpc]; intro e; cases e)
  all_goals rename_i hpc
  all_goals exact tr a ha hv (by intro op; rw [hpc]; intro e; cases e)

theorem run_mem_step {c s t s'} (I : Inv1 c s) (h : Step c s t s') :
    ∀ t', s'.pc t' ≠ .idle → t' ∈ s'.running := by
  intro t' hne
  by_cases ht : t' = t
  · subst ht
    cases h
    case invoke => exact List.mem_cons_self ..
    case ret => exact absurd (upd_same _ _ _) hne
    all_goals rename_i hpc
    all_goals exact I.run_mem t' (by rw [hpc]; intro e; cases e)
  · rw [h.pc_other t' ht] at hne
    have := I.run_mem t' hne
    cases h
    case invoke => exact List.mem_cons_of_mem _ this
    case ret => exact List.mem_filter.mpr ⟨this, by simpa using ht⟩
    all_goals exact this

theorem inv_lt_step {c s t s'} (I : Inv1 c s) (h : Step c s t s') :
    ∀ t', s'.pc t' ≠ .idle → s'.inv t' < s'.now := by
  intro t' hne
  rw [h.now_eq]
  by_cases ht : t' = t
  · subst ht
    cases h
    case invoke => dsimp only; rw [upd_same]; exact Nat.lt_succ_self _
    case ret => exact absurd (upd_same _ _ _) hne
    all_goals rename_i hpc
    all_goals exact Nat.lt_succ_of_lt (I.inv_lt t' (by rw [hpc]; intro e; cases e))
  · rw [h.pc_other t' ht] at hne
    have := Nat.lt_succ_of_lt (I.inv_lt t' hne)
    cases h
    case invoke => dsimp only; rw [upd_other _ _ _ _ ht]; exact this
    all_goals exact this

theorem hist_get_step {c s t s'} (I : Inv1 c s) (h : Step c s t s') :
    c.fixD1 = true → ∀ t' k i j, (t', OpKind.get k, Res.ok none, i, j) ∉ s'.hist := by
  intro hf
  have hok := I.pc_ok t
  cases h <;> try exact I.hist_get hf
  case ret op r hpc =>
    intro t' k i j hm
    rcases List.mem_append.mp hm with hm | hm
    · exact I.hist_get hf _ _ _ _ hm
    · simp only [List.mem_singleton, Prod.mk.injEq] at hm
      obtain ⟨_, e1, e2, _⟩ := hm
      rw [hpc, ← e1, ← e2] at hok
      have := hok none rfl
      simp [OpKind.isGet, hf] at this

theorem pc_ok_other {c s t s'} (I : Inv1 c s) (h : Step c s t s') (t' : Nat) (ht : t' ≠ t) :
    PcOk c s' (s'.pc t') := by
  rw [h.pc_other t' ht]
  have hok := I.pc_ok t'
  by_cases hh : (s.pc t').holds = true
  · have hl := I.lk_holds t' hh
    cases h
    case lockOk hl' _ _ => rw [hl'] at hl; cases hl
    all_goals try exact PcOk_congr rfl rfl rfl rfl _ hok
    all_goals rename_i hpc
    all_goals exact absurd (holder_eq I (by rw [hpc]; rfl) hh) ht
  · exact PcOk_reader h.vins_mono (fun v1 hv hq => quiet_step I h hv hq) _ (by simpa using hh) hok

theorem pc_ok_self {c s t s'} (I : Inv1 c s) (h : Step c s t s') : PcOk c s' (s'.pc t) := by
  have hok := I.pc_ok t
  cases h
  all_goals rename_i hpc
  all_goals rw [hpc] at hok
  all_goals dsimp only
  all_goals rw [upd_same]
  all_goals simp only [PcOk] at hok ⊢
  case ldVer => exact Nat.le_refl _
  case ldPerm => exact ⟨hok, fun _ a ha => ha⟩
  case ldKeys op v1 p =>
    refine ⟨hok.1, fun q => ?_⟩
    have hsub := hok.2 q
    cases hl : lookupIn s.keys p (opKey op) with
    | none => exact lookupIn_none_subset hl hsub
    | some sl => exact (lookupIn_some hl).2
  case ldVer2Ok => exact hok
  case ldVer2Fail => exact Nat.le_refl _
  case ldValOk hfix => exact ⟨hok.1, hfix⟩
  case getMiss => intro x e; cases e
  case getOk => intro x' e; cases e; simpa [OpKind.isGet] using hok.2
  case remMiss => intro x e; cases e
  case uniqueHit => intro x e; cases e
  case lockOk op v1 hit hw hl hv =>
    have hi : s.ver.ins = false := by
      cases hi : s.ver.ins with
      | false => rfl
      | true => have := I.ins_locked hi; rw [hl] at this; cases this
    refine ⟨hi, fun e => ?_⟩
    subst e
    exact hok.2 ⟨hv, hi⟩
  case relook => exact ⟨hok.1, trivial⟩
  case setIns => simpa using hok.2
  case stKey k v u sl hfree =>
    have hsl := freeSlot_not_mem hfree
    refine ⟨hok.1, ?_, hsl, upd_same _ _ _⟩
    rw [lookupIn_congr (fun a ha => upd_other _ _ _ _ (fun e : a = sl => hsl (e ▸ ha)))]
    exact hok.2
  case stValIns k v u sl =>
    refine ⟨hok.1, hok.2.1, hok.2.2.1, hok.2.2.2, ?_⟩
    intro k' v' u' e; cases e; exact upd_same _ _ _
  case stValUpd => simp [OpKind.isGet]
  case stPermIns => simp [OpKind.isGet]
  case stPermRem => simp [OpKind.isGet]
  case clearVal k sl =>
    have := lookupIn_some hok.2.symm
    exact ⟨hok.1, this.1, this.2, upd_same _ _ _⟩
  case unlockPub op r =>
    intro x e; rw [hok.1] at e; cases e; simp [hok.2]
  case unlockRemMiss => intro x e; cases e
  all_goals trivial

theorem inv1_step {c s t s'} (I : Inv1 c s) (h : Step c s t s') : Inv1 c s' where
  lk_holds := lk_holds_step I h
  lk_uniq := lk_uniq_step I h
  ins_locked := ins_locked_step I h
  keys_inj := keys_inj_step I h
  val_listed := val_listed_step I h
  val_unlisted := val_unlisted_step I h
  run_mem := run_mem_step I h
  inv_lt := inv_lt_step I h
  pc_ok := fun t' => by
    by_cases ht : t' = t
    · subst ht; exact pc_ok_self I h
    · exact pc_ok_other I h t' ht
  hist_get := hist_get_step I h

theorem inv1_reach {c s} (h : Reach c s) : Inv1 c s :=
  reach_induction (inv1_init c) (fun _ _ _ _ I hs => inv1_step I hs) s h

theorem writers_serialized (s : State) (h : Reach cfgFixed s) :
    ∀ t1 t2, holdsLock s t1 → holdsLock s t2 → t1 = t2 :=
  (inv1_reach h).lk_uniq

theorem leaf_get_nonnull (s : State) (h : Reach cfgFixed s) :
    ∀ t k i j, (t, OpKind.get k, Res.ok none, i, j) ∉ s.hist :=
  (inv1_reach h).hist_get rfl
end Yak.Proto.Leaf
