import YakModel.Proto.Ledger
/-!
# Invariants of the `Ledger` model

`LInv` is stated with multiplicities (`List.count`), which turns every proof obligation of a step
into linear arithmetic: `bal` says that `live` is the multiset union of the four places, `once`
that an id is live or freed at most once in total (so `live` and `freed` are duplicate-free and
disjoint), `fresh` that ids `≥ next` have never been used. The ghost components are tied down by
`log` (the tagged log is `freed`), `ever` (an id that was ever retired is *either* still in a
retire queue, once, *or* freed, once), `retEver` and `cause` (the tag is `gc`/`finRetired` exactly
for the ids that were retired).
-/
namespace Yak.Proto.Ledger

structure LInv (s : State) : Prop where
  bal : ∀ o, s.live.count o =
    s.spec.count o + s.linked.count o + s.retired.count o + s.cursors.count o
  once : ∀ o, s.live.count o + s.freed.count o ≤ 1
  fresh : ∀ o, s.next ≤ o → s.live.count o = 0 ∧ s.freed.count o = 0
  log : s.log.map Prod.fst = s.freed
  down : s.up = false → s.spec = [] ∧ s.linked = [] ∧ s.retired = []
  cursub : s.cursors.Sublist s.live
  ever : ∀ o ∈ s.everRetired, s.retired.count o + s.freed.count o = 1
  retEver : ∀ o ∈ s.retired, o ∈ s.everRetired
  cause : ∀ o c, (o, c) ∈ s.log → ((c = .gc ∨ c = .finRetired) ↔ o ∈ s.everRetired)
  total : ∀ o, o < s.next → s.live.count o + s.freed.count o = 1

theorem linv_boot : LInv boot := by
  constructor <;> simp [boot]

/-! ## list helpers -/

theorem count_filter_ite (p : Nat → Bool) (x : Nat) (l : List Nat) :
    (l.filter p).count x = if p x = true then l.count x else 0 := by
  split
  · next h => exact List.count_filter h
  · next h =>
    apply List.count_eq_zero.mpr
    intro hm
    exact h (List.mem_filter.mp hm).2

theorem map_fst_tag (os : List Nat) (c : Cause) : (os.map (fun o => (o, c))).map Prod.fst = os := by
  induction os with
  | nil => rfl
  | cons a t ih => simp [ih]

theorem mem_tag {os : List Nat} {c0 c : Cause} {o : Nat} :
    (o, c) ∈ os.map (fun o => (o, c0)) ↔ o ∈ os ∧ c = c0 := by
  simp only [List.mem_map, Prod.mk.injEq]
  constructor
  · rintro ⟨a, ha, rfl, rfl⟩; exact ⟨ha, rfl⟩
  · rintro ⟨ha, rfl⟩; exact ⟨o, ha, rfl, rfl⟩

theorem count_mem {x : Nat} {l : List Nat} (h : x ∈ l) : 1 ≤ l.count x := List.count_pos_iff.mpr h

theorem mem_log_freed {s : State} (h : LInv s) {o : Nat} {c : Cause} (hm : (o, c) ∈ s.log) :
    1 ≤ s.freed.count o := by
  apply count_mem
  rw [← h.log]
  exact List.mem_map.mpr ⟨(o, c), hm, rfl⟩

/-! ## the invariant is inductive -/

theorem linv_init {s : State} (h : LInv s) : LInv { s with up := true } :=
  ⟨h.bal, h.once, h.fresh, h.log, fun hd => by simp at hd, h.cursub, h.ever, h.retEver, h.cause, h.total⟩

theorem linv_alloc {s : State} (h : LInv s) (hup : s.up = true) :
    LInv { s with live := s.next :: s.live, spec := s.next :: s.spec, next := s.next + 1 } := by
  constructor
  · intro x
    have := h.bal x
    simp only [List.count_cons]
    omega
  · intro x
    have := h.once x
    have := h.fresh x
    simp only [List.count_cons, beq_iff_eq]
    split <;> omega
  · intro x hx
    have := h.fresh x (by simp only at hx; omega)
    simp only [List.count_cons, beq_iff_eq]
    simp only at hx
    split <;> omega
  · exact h.log
  · intro hd; simp [hup] at hd
  · exact h.cursub.cons _
  · exact h.ever
  · exact h.retEver
  · exact h.cause
  · intro x hx
    have := h.fresh x
    have := h.total x
    simp only [List.count_cons, beq_iff_eq]
    simp only at hx
    split <;> omega

theorem linv_openCursor {s : State} (h : LInv s) (hup : s.up = true) :
    LInv { s with live := s.next :: s.live, cursors := s.next :: s.cursors, next := s.next + 1 } := by
  constructor
  · intro x
    have := h.bal x
    simp only [List.count_cons]
    omega
  · intro x
    have := h.once x
    have := h.fresh x
    simp only [List.count_cons, beq_iff_eq]
    split <;> omega
  · intro x hx
    have := h.fresh x (by simp only at hx; omega)
    simp only [List.count_cons, beq_iff_eq]
    simp only at hx
    split <;> omega
  · exact h.log
  · intro hd; simp [hup] at hd
  · exact h.cursub.cons_cons _
  · exact h.ever
  · exact h.retEver
  · exact h.cause
  · intro x hx
    have := h.fresh x
    have := h.total x
    simp only [List.count_cons, beq_iff_eq]
    simp only at hx
    split <;> omega

theorem linv_publish {s : State} (h : LInv s) (hup : s.up = true) {o : Nat} (hm : o ∈ s.spec) :
    LInv { s with spec := s.spec.erase o, linked := o :: s.linked } := by
  have hc := count_mem hm
  constructor
  · intro x
    have := h.bal x
    simp only [List.count_cons, List.count_erase, beq_iff_eq]
    split
    · next hx => subst hx; omega
    · omega
  · exact h.once
  · exact h.fresh
  · exact h.log
  · intro hd; simp [hup] at hd
  · exact h.cursub
  · exact h.ever
  · exact h.retEver
  · exact h.cause
  · exact h.total

theorem linv_discard {s : State} (h : LInv s) (hup : s.up = true) {o : Nat} (hm : o ∈ s.spec) :
    LInv ({ s with spec := s.spec.erase o, live := s.live.erase o }.recordFree [o] .discard) := by
  have hc := count_mem hm
  have hbo := h.bal o
  have hoo := h.once o
  constructor
  · intro x
    have := h.bal x
    simp only [State.recordFree, List.count_erase, beq_iff_eq]
    split
    · next hx => subst hx; omega
    · omega
  · intro x
    have := h.once x
    simp only [State.recordFree, List.count_erase, List.count_append, List.count_cons,
      List.count_nil, beq_iff_eq]
    split
    · next hx => subst hx; omega
    · omega
  · intro x hx
    have := h.fresh x hx
    simp only [State.recordFree, List.count_erase, List.count_append, List.count_cons,
      List.count_nil, beq_iff_eq]
    split
    · next hxo => subst hxo; omega
    · omega
  · simp [State.recordFree, h.log]
  · intro hd; simp [State.recordFree, hup] at hd
  · have hnc : o ∉ s.cursors := by
      intro hmc; have := count_mem hmc; omega
    have := h.cursub.erase o
    rw [List.erase_of_not_mem hnc] at this
    exact this
  · intro x hx
    have := h.ever x hx
    simp only [State.recordFree, List.count_append, List.count_cons, List.count_nil, beq_iff_eq]
    split
    · next hxo => subst hxo; omega
    · omega
  · exact h.retEver
  · intro x c hxc
    simp only [State.recordFree, List.map_cons, List.map_nil, List.cons_append, List.nil_append,
      List.mem_cons, Prod.mk.injEq] at hxc
    rcases hxc with ⟨rfl, rfl⟩ | hxc
    · constructor
      · intro hcc; rcases hcc with hcc | hcc <;> cases hcc
      · intro he; have := h.ever x he; omega
    · exact h.cause x c hxc
  · intro x hx
    have := h.total x hx
    simp only [State.recordFree, List.count_erase, List.count_append, List.count_cons,
      List.count_nil, beq_iff_eq]
    split
    · next hxo => subst hxo; omega
    · omega

theorem linv_gcFree {s : State} (h : LInv s) (hup : s.up = true) {o : Nat} (hm : o ∈ s.retired) :
    LInv ({ s with retired := s.retired.erase o, live := s.live.erase o }.recordFree [o] .gc) := by
  have hc := count_mem hm
  have hbo := h.bal o
  have hoo := h.once o
  constructor
  · intro x
    have := h.bal x
    simp only [State.recordFree, List.count_erase, beq_iff_eq]
    split
    · next hx => subst hx; omega
    · omega
  · intro x
    have := h.once x
    simp only [State.recordFree, List.count_erase, List.count_append, List.count_cons,
      List.count_nil, beq_iff_eq]
    split
    · next hx => subst hx; omega
    · omega
  · intro x hx
    have := h.fresh x hx
    simp only [State.recordFree, List.count_erase, List.count_append, List.count_cons,
      List.count_nil, beq_iff_eq]
    split
    · next hxo => subst hxo; omega
    · omega
  · simp [State.recordFree, h.log]
  · intro hd; simp [State.recordFree, hup] at hd
  · have hnc : o ∉ s.cursors := by
      intro hmc; have := count_mem hmc; omega
    have := h.cursub.erase o
    rw [List.erase_of_not_mem hnc] at this
    exact this
  · intro x hx
    have := h.ever x hx
    simp only [State.recordFree, List.count_erase, List.count_append, List.count_cons,
      List.count_nil, beq_iff_eq]
    split
    · next hxo => subst hxo; omega
    · omega
  · intro x hx
    exact h.retEver x (List.mem_of_mem_erase hx)
  · intro x c hxc
    simp only [State.recordFree, List.map_cons, List.map_nil, List.cons_append, List.nil_append,
      List.mem_cons, Prod.mk.injEq] at hxc
    rcases hxc with ⟨rfl, rfl⟩ | hxc
    · exact ⟨fun _ => h.retEver x hm, fun _ => Or.inl rfl⟩
    · exact h.cause x c hxc
  · intro x hx
    have := h.total x hx
    simp only [State.recordFree, List.count_erase, List.count_append, List.count_cons,
      List.count_nil, beq_iff_eq]
    split
    · next hxo => subst hxo; omega
    · omega

theorem linv_dropFree {s : State} (h : LInv s) (hup : s.up = true) {o : Nat} (hm : o ∈ s.linked) :
    LInv ({ s with linked := s.linked.erase o, live := s.live.erase o }.recordFree [o] .drop) := by
  have hc := count_mem hm
  have hbo := h.bal o
  have hoo := h.once o
  constructor
  · intro x
    have := h.bal x
    simp only [State.recordFree, List.count_erase, beq_iff_eq]
    split
    · next hx => subst hx; omega
    · omega
  · intro x
    have := h.once x
    simp only [State.recordFree, List.count_erase, List.count_append, List.count_cons,
      List.count_nil, beq_iff_eq]
    split
    · next hx => subst hx; omega
    · omega
  · intro x hx
    have := h.fresh x hx
    simp only [State.recordFree, List.count_erase, List.count_append, List.count_cons,
      List.count_nil, beq_iff_eq]
    split
    · next hxo => subst hxo; omega
    · omega
  · simp [State.recordFree, h.log]
  · intro hd; simp [State.recordFree, hup] at hd
  · have hnc : o ∉ s.cursors := by
      intro hmc; have := count_mem hmc; omega
    have := h.cursub.erase o
    rw [List.erase_of_not_mem hnc] at this
    exact this
  · intro x hx
    have := h.ever x hx
    simp only [State.recordFree, List.count_append, List.count_cons, List.count_nil, beq_iff_eq]
    split
    · next hxo => subst hxo; omega
    · omega
  · exact h.retEver
  · intro x c hxc
    simp only [State.recordFree, List.map_cons, List.map_nil, List.cons_append, List.nil_append,
      List.mem_cons, Prod.mk.injEq] at hxc
    rcases hxc with ⟨rfl, rfl⟩ | hxc
    · constructor
      · intro hcc; rcases hcc with hcc | hcc <;> cases hcc
      · intro he; have := h.ever x he; omega
    · exact h.cause x c hxc
  · intro x hx
    have := h.total x hx
    simp only [State.recordFree, List.count_erase, List.count_append, List.count_cons,
      List.count_nil, beq_iff_eq]
    split
    · next hxo => subst hxo; omega
    · omega

theorem linv_closeCursor {s : State} (h : LInv s) {o : Nat} (hm : o ∈ s.cursors) :
    LInv ({ s with cursors := s.cursors.erase o, live := s.live.erase o }.recordFree [o] .close) := by
  have hc := count_mem hm
  have hbo := h.bal o
  have hoo := h.once o
  constructor
  · intro x
    have := h.bal x
    simp only [State.recordFree, List.count_erase, beq_iff_eq]
    split
    · next hx => subst hx; omega
    · omega
  · intro x
    have := h.once x
    simp only [State.recordFree, List.count_erase, List.count_append, List.count_cons,
      List.count_nil, beq_iff_eq]
    split
    · next hx => subst hx; omega
    · omega
  · intro x hx
    have := h.fresh x hx
    simp only [State.recordFree, List.count_erase, List.count_append, List.count_cons,
      List.count_nil, beq_iff_eq]
    split
    · next hxo => subst hxo; omega
    · omega
  · simp [State.recordFree, h.log]
  · exact h.down
  · exact h.cursub.erase o
  · intro x hx
    have := h.ever x hx
    simp only [State.recordFree, List.count_append, List.count_cons, List.count_nil, beq_iff_eq]
    split
    · next hxo => subst hxo; omega
    · omega
  · exact h.retEver
  · intro x c hxc
    simp only [State.recordFree, List.map_cons, List.map_nil, List.cons_append, List.nil_append,
      List.mem_cons, Prod.mk.injEq] at hxc
    rcases hxc with ⟨rfl, rfl⟩ | hxc
    · constructor
      · intro hcc; rcases hcc with hcc | hcc <;> cases hcc
      · intro he; have := h.ever x he; omega
    · exact h.cause x c hxc
  · intro x hx
    have := h.total x hx
    simp only [State.recordFree, List.count_erase, List.count_append, List.count_cons,
      List.count_nil, beq_iff_eq]
    split
    · next hxo => subst hxo; omega
    · omega

theorem linv_unlinkRetire {s : State} (h : LInv s) (hup : s.up = true) {o : Nat}
    (hm : o ∈ s.linked) :
    LInv { s with linked := s.linked.erase o, retired := s.retired ++ [o],
                  everRetired := o :: s.everRetired } := by
  have hc := count_mem hm
  have hbo := h.bal o
  have hoo := h.once o
  constructor
  · intro x
    have := h.bal x
    simp only [List.count_erase, List.count_append, List.count_cons, List.count_nil, beq_iff_eq]
    split
    · next hx => subst hx; omega
    · omega
  · exact h.once
  · exact h.fresh
  · exact h.log
  · intro hd; simp [hup] at hd
  · exact h.cursub
  · intro x hx
    simp only [List.count_append, List.count_cons, List.count_nil, beq_iff_eq]
    split
    · next hxo => subst hxo; omega
    · next hxo =>
      simp only [List.mem_cons] at hx
      rcases hx with rfl | hx
      · exact absurd rfl hxo
      · have := h.ever x hx; omega
  · intro x hx
    simp only [List.mem_append, List.mem_cons, List.not_mem_nil, or_false] at hx
    rcases hx with hx | rfl
    · exact List.mem_cons_of_mem _ (h.retEver x hx)
    · exact List.mem_cons_self
  · intro x c hxc
    have hf := mem_log_freed h hxc
    have hne : x ≠ o := by rintro rfl; omega
    rw [h.cause x c hxc]
    simp [hne]
  · exact h.total

theorem linv_destroy {s : State} (h : LInv s) (hup : s.up = true) :
    LInv ({ s with linked := [],
                   live := s.live.filter (fun o => decide (o ∉ s.linked)) }.recordFree
            s.linked .destroy) := by
  have key : ∀ x, (x ∈ s.linked ∧ 1 ≤ s.linked.count x) ∨ (x ∉ s.linked ∧ s.linked.count x = 0) := by
    intro x
    by_cases hx : x ∈ s.linked
    · exact Or.inl ⟨hx, count_mem hx⟩
    · exact Or.inr ⟨hx, List.count_eq_zero_of_not_mem hx⟩
  constructor
  · intro x
    have := h.bal x
    have := h.once x
    simp only [State.recordFree, count_filter_ite, List.count_nil, decide_eq_true_eq]
    rcases key x with ⟨hx, hc⟩ | ⟨hx, hc⟩
    · rw [if_neg (fun hn => hn hx)]; omega
    · rw [if_pos hx]; omega
  · intro x
    have := h.bal x
    have := h.once x
    simp only [State.recordFree, count_filter_ite, List.count_append, decide_eq_true_eq]
    rcases key x with ⟨hx, hc⟩ | ⟨hx, hc⟩
    · rw [if_neg (fun hn => hn hx)]; omega
    · rw [if_pos hx]; omega
  · intro x hx
    have := h.fresh x hx
    have := h.bal x
    simp only [State.recordFree, count_filter_ite, List.count_append, decide_eq_true_eq]
    split <;> omega
  · simp only [State.recordFree, List.map_append, map_fst_tag, h.log]
  · intro hd; simp [State.recordFree, hup] at hd
  · have := h.cursub.filter (fun o => decide (o ∉ s.linked))
    rw [List.filter_eq_self.mpr] at this
    · exact this
    · intro a ha
      have := count_mem ha
      have := h.bal a
      have := h.once a
      rcases key a with ⟨hx, hc⟩ | ⟨hx, hc⟩
      · omega
      · simpa using hx
  · intro x hx
    have := h.ever x hx
    have := h.bal x
    have := h.once x
    simp only [State.recordFree, List.count_append]
    omega
  · exact h.retEver
  · intro x c hxc
    simp only [State.recordFree, List.mem_append, mem_tag] at hxc
    rcases hxc with ⟨hx, rfl⟩ | hxc
    · have := count_mem hx
      have := h.bal x
      have := h.once x
      constructor
      · intro hcc; rcases hcc with hcc | hcc <;> cases hcc
      · intro he; have := h.ever x he; omega
    · exact h.cause x c hxc
  · intro x hx
    have := h.total x hx
    have := h.bal x
    have := h.once x
    simp only [State.recordFree, count_filter_ite, List.count_append, decide_eq_true_eq]
    rcases key x with ⟨hx, hc⟩ | ⟨hx, hc⟩
    · rw [if_neg (fun hn => hn hx)]; omega
    · rw [if_pos hx]; omega

theorem linv_fin {s : State} (h : LInv s) (hspec : s.spec = []) :
    LInv (({ s with linked := [], retired := [], up := false,
                    live := s.live.filter (fun o => decide (o ∉ s.linked ∧ o ∉ s.retired)) }.recordFree
            s.linked .finLinked).recordFree s.retired .finRetired) := by
  have key : ∀ x, (x ∈ s.linked ∧ 1 ≤ s.linked.count x) ∨ (x ∉ s.linked ∧ s.linked.count x = 0) := by
    intro x
    by_cases hx : x ∈ s.linked
    · exact Or.inl ⟨hx, count_mem hx⟩
    · exact Or.inr ⟨hx, List.count_eq_zero_of_not_mem hx⟩
  have key' : ∀ x, (x ∈ s.retired ∧ 1 ≤ s.retired.count x) ∨
      (x ∉ s.retired ∧ s.retired.count x = 0) := by
    intro x
    by_cases hx : x ∈ s.retired
    · exact Or.inl ⟨hx, count_mem hx⟩
    · exact Or.inr ⟨hx, List.count_eq_zero_of_not_mem hx⟩
  have hsp : ∀ x, s.spec.count x = 0 := by intro x; rw [hspec]; rfl
  have hflt : ∀ x, (s.live.filter (fun o => decide (o ∉ s.linked ∧ o ∉ s.retired))).count x =
      s.cursors.count x := by
    intro x
    have := h.bal x
    have := h.once x
    have := hsp x
    simp only [count_filter_ite, decide_eq_true_eq]
    rcases key x with ⟨hx, hc⟩ | ⟨hx, hc⟩ <;> rcases key' x with ⟨hx', hc'⟩ | ⟨hx', hc'⟩
    · rw [if_neg (fun hh => hh.1 hx)]; omega
    · rw [if_neg (fun hh => hh.1 hx)]; omega
    · rw [if_neg (fun hh => hh.2 hx')]; omega
    · rw [if_pos ⟨hx, hx'⟩]; omega
  constructor
  · intro x
    simp only [State.recordFree, hflt, hspec, List.count_nil]
    omega
  · intro x
    have := h.bal x
    have := h.once x
    simp only [State.recordFree, hflt, List.count_append]
    omega
  · intro x hx
    have := h.fresh x hx
    have := h.bal x
    simp only [State.recordFree, hflt, List.count_append]
    omega
  · simp only [State.recordFree, List.map_append, map_fst_tag, h.log]
  · intro _; exact ⟨hspec, rfl, rfl⟩
  · have := h.cursub.filter (fun o => decide (o ∉ s.linked ∧ o ∉ s.retired))
    rw [List.filter_eq_self.mpr] at this
    · exact this
    · intro a ha
      have := count_mem ha
      have := h.bal a
      have := h.once a
      rcases key a with ⟨hx, hc⟩ | ⟨hx, hc⟩ <;> rcases key' a with ⟨hx', hc'⟩ | ⟨hx', hc'⟩
      · omega
      · omega
      · omega
      · simpa using ⟨hx, hx'⟩
  · intro x hx
    have := h.ever x hx
    have := h.bal x
    have := h.once x
    simp only [State.recordFree, List.count_append, List.count_nil]
    omega
  · intro x hx; simp [State.recordFree] at hx
  · intro x c hxc
    simp only [State.recordFree, List.mem_append, mem_tag] at hxc
    rcases hxc with ⟨hx, rfl⟩ | ⟨hx, rfl⟩ | hxc
    · exact ⟨fun _ => h.retEver x hx, fun _ => Or.inr rfl⟩
    · have := count_mem hx
      have := h.bal x
      have := h.once x
      constructor
      · intro hcc; rcases hcc with hcc | hcc <;> cases hcc
      · intro he; have := h.ever x he; omega
    · exact h.cause x c hxc
  · intro x hx
    have := h.total x hx
    have := h.bal x
    have := h.once x
    have := hsp x
    simp only [State.recordFree, hflt, List.count_append]
    omega

theorem linv_step {s s' : State} {e : Event} (h : LInv s) (hs : Step s e s') : LInv s' := by
  unfold Step at hs
  cases e <;> simp only [step?] at hs <;> split at hs <;> cases hs
  all_goals first
    | exact linv_init h
    | exact linv_alloc h (by assumption)
    | exact linv_openCursor h (by assumption)
    | exact linv_publish h (by rename_i g; exact g.1) (by rename_i g; exact g.2)
    | exact linv_discard h (by rename_i g; exact g.1) (by rename_i g; exact g.2)
    | exact linv_unlinkRetire h (by rename_i g; exact g.1) (by rename_i g; exact g.2)
    | exact linv_gcFree h (by rename_i g; exact g.1) (by rename_i g; exact g.2)
    | exact linv_dropFree h (by rename_i g; exact g.1) (by rename_i g; exact g.2)
    | exact linv_destroy h (by assumption)
    | exact linv_closeCursor h (by assumption)
    | exact linv_fin h (by rename_i g; exact g.2)

theorem linv_reach {s : State} (h : Reach s) : LInv s := by
  induction h with
  | boot => exact linv_boot
  | step _ hs ih => exact linv_step ih hs

/-! ## traces -/

theorem reach_exec : ∀ (es : List Event) {s s' : State}, Reach s → exec s es = some s' → Reach s'
  | [], s, s', hr, h => by cases h; exact hr
  | e :: es, s, s', hr, h => by
    simp only [exec] at h
    cases h1 : step? s e with
    | none => rw [h1] at h; cases h
    | some s1 => rw [h1] at h; exact reach_exec es (Reach.step hr h1) h

theorem exec_append : ∀ (es1 es2 : List Event) (s : State),
    exec s (es1 ++ es2) = (exec s es1).bind (fun s' => exec s' es2)
  | [], _, _ => rfl
  | e :: es1, es2, s => by
    simp only [List.cons_append, exec]
    cases step? s e with
    | none => rfl
    | some s1 => exact exec_append es1 es2 s1

theorem exec_of_reach {s : State} (h : Reach s) : ∃ es, exec boot es = some s := by
  induction h with
  | boot => exact ⟨[], rfl⟩
  | @step s s' e _ hs ih =>
    obtain ⟨es, hes⟩ := ih
    refine ⟨es ++ [e], ?_⟩
    rw [exec_append, hes]
    have : step? s e = some s' := hs
    simp [exec, this]

/-! ## consequences of the invariant, in list vocabulary -/

theorem live_perm {s : State} (h : LInv s) :
    s.live.Perm (s.spec ++ s.linked ++ s.retired ++ s.cursors) :=
  List.perm_iff_count.mpr (fun a => by simp only [List.count_append]; exact h.bal a)

theorem live_nodup {s : State} (h : LInv s) : s.live.Nodup :=
  List.nodup_iff_count.mpr (fun a => by have := h.once a; omega)

theorem freed_nodup {s : State} (h : LInv s) : s.freed.Nodup :=
  List.nodup_iff_count.mpr (fun a => by have := h.once a; omega)

theorem places_nodup {s : State} (h : LInv s) :
    (s.spec ++ s.linked ++ s.retired ++ s.cursors).Nodup :=
  List.nodup_iff_count.mpr (fun a => by
    have := h.once a; have := h.bal a; simp only [List.count_append]; omega)

theorem live_not_freed {s : State} (h : LInv s) {o : Nat} (hl : o ∈ s.live) : o ∉ s.freed := by
  intro hf
  have := count_mem hl; have := count_mem hf; have := h.once o; omega

theorem place_live {s : State} (h : LInv s) {o : Nat}
    (hp : o ∈ s.spec ∨ o ∈ s.linked ∨ o ∈ s.retired ∨ o ∈ s.cursors) : o ∈ s.live := by
  have := h.bal o
  apply List.count_pos_iff.mp
  rcases hp with hp | hp | hp | hp <;> have := count_mem hp <;> omega

theorem freed_no_place {s : State} (h : LInv s) {o : Nat} (hf : o ∈ s.freed) :
    o ∉ s.live ∧ o ∉ s.spec ∧ o ∉ s.linked ∧ o ∉ s.retired ∧ o ∉ s.cursors := by
  have hnl : o ∉ s.live := fun hl => live_not_freed h hl hf
  exact ⟨hnl, fun hp => hnl (place_live h (Or.inl hp)),
    fun hp => hnl (place_live h (Or.inr (Or.inl hp))),
    fun hp => hnl (place_live h (Or.inr (Or.inr (Or.inl hp)))),
    fun hp => hnl (place_live h (Or.inr (Or.inr (Or.inr hp))))⟩

/-- every id handed out so far is live or freed, never both, and no other id is -/
theorem allocated_iff {s : State} (h : LInv s) (o : Nat) :
    o < s.next ↔ (o ∈ s.live ∨ o ∈ s.freed) := by
  constructor
  · intro hlt
    have := h.total o hlt
    by_cases hl : o ∈ s.live
    · exact Or.inl hl
    · have := List.count_eq_zero_of_not_mem hl
      exact Or.inr (List.count_pos_iff.mp (by omega))
  · intro hm
    apply Nat.lt_of_not_le
    intro hle
    have := h.fresh o hle
    rcases hm with hm | hm <;> have := count_mem hm <;> omega

theorem fst_unique : ∀ {l : List (Nat × Cause)}, (l.map Prod.fst).Nodup →
    ∀ {a : Nat} {b b' : Cause}, (a, b) ∈ l → (a, b') ∈ l → b = b'
  | [], _, _, _, _, h, _ => by cases h
  | x :: t, hn, a, b, b', h1, h2 => by
    simp only [List.map_cons, List.nodup_cons] at hn
    rcases List.mem_cons.mp h1 with e1 | m1 <;> rcases List.mem_cons.mp h2 with e2 | m2
    · exact (Prod.mk.inj (e1.trans e2.symm)).2
    · exfalso; apply hn.1; rw [← e1]; exact List.mem_map.mpr ⟨(a, b'), m2, rfl⟩
    · exfalso; apply hn.1; rw [← e2]; exact List.mem_map.mpr ⟨(a, b), m1, rfl⟩
    · exact fst_unique hn.2 m1 m2

theorem cause_unique {s : State} (h : LInv s) {o : Nat} {c c' : Cause}
    (h1 : (o, c) ∈ s.log) (h2 : (o, c') ∈ s.log) : c = c' :=
  fst_unique (by rw [h.log]; exact freed_nodup h) h1 h2

theorem cause_exists {s : State} (h : LInv s) {o : Nat} (hf : o ∈ s.freed) :
    ∃ c, (o, c) ∈ s.log := by
  rw [← h.log] at hf
  obtain ⟨⟨a, c⟩, hm, rfl⟩ := List.mem_map.mp hf
  exact ⟨c, hm⟩

theorem ever_retired_cases {s : State} (h : LInv s) {o : Nat} (he : o ∈ s.everRetired) :
    (o ∈ s.retired ∧ s.retired.count o = 1 ∧ o ∉ s.freed) ∨
    (o ∉ s.retired ∧ s.freed.count o = 1 ∧
      ∃ c, (o, c) ∈ s.log ∧ (c = .gc ∨ c = .finRetired) ∧ ∀ c', (o, c') ∈ s.log → c' = c) := by
  have h1 := h.ever o he
  have h2 := h.once o
  have h3 := h.bal o
  by_cases hr : o ∈ s.retired
  · have := count_mem hr
    refine Or.inl ⟨hr, by omega, fun hf => ?_⟩
    have := count_mem hf
    omega
  · have h0 := List.count_eq_zero_of_not_mem hr
    have hf : o ∈ s.freed := List.count_pos_iff.mp (by omega)
    obtain ⟨c, hc⟩ := cause_exists h hf
    exact Or.inr ⟨hr, by omega, c, hc, (h.cause o c hc).mpr he, fun c' hc' => cause_unique h hc' hc⟩

/-! ## freed is final -/

theorem step_freed_suffix {s s' : State} {e : Event} (hs : Step s e s') :
    s.freed <:+ s'.freed := by
  unfold Step at hs
  cases e <;> simp only [step?] at hs <;> split at hs <;> cases hs <;>
    simp only [State.recordFree, ← List.append_assoc] <;>
    first | exact List.suffix_refl _ | exact List.suffix_append _ _

theorem exec_freed_suffix : ∀ (es : List Event) {s s' : State}, exec s es = some s' →
    s.freed <:+ s'.freed
  | [], s, s', h => by cases h; exact List.suffix_refl _
  | e :: es, s, s', h => by
    simp only [exec] at h
    cases h1 : step? s e with
    | none => rw [h1] at h; cases h
    | some s1 =>
      rw [h1] at h
      exact List.IsSuffix.trans (step_freed_suffix h1) (exec_freed_suffix es h)

theorem freed_rejected {s : State} (h : LInv s) {o : Nat} (hf : o ∈ s.freed) :
    step? s (.publish o) = none ∧ step? s (.discard o) = none ∧
    step? s (.unlinkRetire o) = none ∧ step? s (.gcFree o) = none ∧
    step? s (.dropFree o) = none ∧ step? s (.closeCursor o) = none := by
  obtain ⟨_, h1, h2, h3, h4⟩ := freed_no_place h hf
  simp [step?, h1, h2, h3, h4]

/-! ## fin -/

theorem fin_enabled {s : State} (hup : s.up = true) (hspec : s.spec = []) :
    ∃ s', step? s .fin = some s' := by
  simp [step?, hup, hspec]

theorem fin_spec {s s' : State} (h : LInv s) (hs : Step s .fin s') :
    s'.live = s'.cursors ∧ s'.cursors = s.cursors ∧ s'.spec = [] ∧ s'.linked = [] ∧
    s'.retired = [] ∧ s'.up = false ∧ s'.next = s.next ∧
    s'.freed = s.retired ++ (s.linked ++ s.freed) := by
  have h' := linv_step h hs
  unfold Step at hs
  simp only [step?] at hs
  split at hs
  · next g =>
    cases hs
    refine ⟨?_, rfl, g.2, rfl, rfl, rfl, rfl, rfl⟩
    have hp := (live_perm h').length_eq
    have hsub := h'.cursub
    simp only [State.recordFree, g.2, List.nil_append] at hp hsub ⊢
    exact (hsub.eq_of_length hp.symm).symm
  · cases hs

theorem empty_cycle : exec boot emptyCycle =
    some { boot with up := false } := rfl

/-- the state after `closeCursor a` -/
def closeOne (s : State) (a : Nat) : State :=
  { s with cursors := s.cursors.erase a, live := s.live.erase a }.recordFree [a] .close

theorem close_all : ∀ (cs : List Nat) {s : State}, s.live = s.cursors → s.cursors = cs →
    s.up = false →
    ∃ s'', exec s (cs.map .closeCursor) = some s'' ∧ s''.live = [] ∧ s''.cursors = [] ∧
      s''.up = false
  | [], s, hl, hc, hu => ⟨s, rfl, by rw [hl, hc], hc, hu⟩
  | a :: cs, s, hl, hc, hu => by
    have hstep : step? s (.closeCursor a) = some (closeOne s a) := by
      simp [step?, hc, closeOne]
    obtain ⟨s'', he, r⟩ := close_all cs (s := closeOne s a)
      (by simp [closeOne, State.recordFree, hl]) (by simp [closeOne, State.recordFree, hc]) hu
    exact ⟨s'', by simp only [List.map_cons, exec, hstep]; exact he, r⟩

/-! ## failed speculation -/

theorem alloc_discard {s : State} (hup : s.up = true) :
    exec s [.alloc, .discard s.next] =
      some { s with next := s.next + 1, freed := s.next :: s.freed,
                    log := (s.next, .discard) :: s.log } := by
  simp [exec, step?, hup, State.recordFree]

/-- lost root CAS in `put`: the speculative border *and* the value it holds are both released -/
theorem alloc2_discard2 {s : State} (hup : s.up = true) :
    exec s [.alloc, .alloc, .discard (s.next + 1), .discard s.next] =
      some { s with next := s.next + 2, freed := s.next :: (s.next + 1) :: s.freed,
                    log := (s.next, .discard) :: (s.next + 1, .discard) :: s.log } := by
  simp [exec, step?, hup, State.recordFree]

/-! ## destroy / dropFree -/

theorem destroy_spec {s s' : State} (h : LInv s) (hs : Step s .destroy s') :
    s'.linked = [] ∧ (∀ o ∈ s.linked, o ∉ s'.live ∧ o ∈ s'.freed) ∧
    s'.spec = s.spec ∧ s'.retired = s.retired ∧ s'.cursors = s.cursors ∧ s'.up = s.up ∧
    (∀ o, o ∈ s'.live ↔ (o ∈ s.live ∧ o ∉ s.linked)) := by
  have h' := linv_step h hs
  unfold Step at hs
  simp only [step?] at hs
  split at hs
  · cases hs
    refine ⟨rfl, fun o ho => ?_, rfl, rfl, rfl, rfl, fun o => ?_⟩
    · simp [State.recordFree, ho]
    · simp [State.recordFree, List.mem_filter]
  · cases hs

/-- the state after `dropFree a` -/
def dropOne (s : State) (a : Nat) : State :=
  { s with linked := s.linked.erase a, live := s.live.erase a }.recordFree [a] .drop

theorem dropFree_tree : ∀ (T : List Nat) {s : State}, LInv s → s.up = true → T.Nodup →
    (∀ o ∈ T, o ∈ s.linked) →
    ∃ s', exec s (T.map .dropFree) = some s' ∧ LInv s' ∧ s'.up = true ∧
      (∀ o ∈ T, o ∉ s'.live ∧ o ∉ s'.linked ∧ o ∈ s'.freed) ∧
      (∀ o, o ∈ s'.linked ↔ (o ∈ s.linked ∧ o ∉ T)) ∧
      s'.spec = s.spec ∧ s'.retired = s.retired ∧ s'.cursors = s.cursors
  | [], s, h, hup, _, _ => ⟨s, rfl, h, hup, by simp, by simp, rfl, rfl, rfl⟩
  | a :: T, s, h, hup, hnd, hsub => by
    have ha : a ∈ s.linked := hsub a List.mem_cons_self
    have hnd' := List.nodup_cons.mp hnd
    have hstep : step? s (.dropFree a) = some (dropOne s a) := by
      simp [step?, hup, ha, dropOne]
    have h1 : LInv (dropOne s a) := linv_dropFree h hup ha
    have hlnd : s.linked.Nodup := List.nodup_iff_count.mpr (fun x => by
      have := h.once x; have := h.bal x; omega)
    have hsub' : ∀ o ∈ T, o ∈ (dropOne s a).linked := by
      intro o ho
      have hne : o ≠ a := by rintro rfl; exact hnd'.1 ho
      simp only [dropOne, State.recordFree]
      exact (List.mem_erase_of_ne hne).mpr (hsub o (List.mem_cons_of_mem _ ho))
    obtain ⟨s', he, hi, hu, hT, hl, e1, e2, e3⟩ :=
      dropFree_tree T h1 (show (dropOne s a).up = true from hup) hnd'.2 hsub'
    refine ⟨s', ?_, hi, hu, ?_, ?_, e1, e2, e3⟩
    · simp only [List.map_cons, exec, hstep]; exact he
    · intro o ho
      rcases List.mem_cons.mp ho with rfl | ho
      · have hfa : o ∈ (dropOne s o).freed := by simp [dropOne, State.recordFree]
        have hfa' : o ∈ s'.freed := (exec_freed_suffix _ he).subset hfa
        have := freed_no_place hi hfa'
        exact ⟨this.1, this.2.2.1, hfa'⟩
      · exact hT o ho
    · intro o
      rw [hl o]
      simp only [dropOne, State.recordFree, List.mem_cons, not_or]
      rw [hlnd.mem_erase_iff]
      constructor
      · rintro ⟨⟨hne, hm⟩, hnt⟩; exact ⟨hm, hne, hnt⟩
      · rintro ⟨hm, hne, hnt⟩; exact ⟨⟨hne, hm⟩, hnt⟩

end Yak.Proto.Ledger
