import YakModel.Value
/-!
# Proofs about the value block layout arithmetic and the pointer tagging (C15)
-/
namespace Yak.Value
open Yak.Const

private theorem k_cases (k : Nat) (hk : k ≤ 15) :
    k = 0 ∨ k = 1 ∨ k = 2 ∨ k = 3 ∨ k = 4 ∨ k = 5 ∨ k = 6 ∨ k = 7 ∨ k = 8 ∨ k = 9 ∨ k = 10 ∨
    k = 11 ∨ k = 12 ∨ k = 13 ∨ k = 14 ∨ k = 15 := by omega

theorem body_aligned (base len k : Nat) (hk : k ≤ 15) (hbase : base % effAlign (2^k) = 0) :
    bodyAddr base (mkHeader len (2^k)) % 2^k = 0 := by
  rcases k_cases k hk with h | h | h | h | h | h | h | h | h | h | h | h | h | h | h | h <;>
    subst h <;>
    simp [bodyAddr, mkHeader, effAlign, minAlign, valueAlignBits] at hbase ⊢ <;>
    omega

theorem regions (base len k : Nat) (hk : k ≤ 15) (hl : len < 2^32) :
    base + headerBytes ≤ bodyAddr base (mkHeader len (2^k)) ∧
    bodyAddr base (mkHeader len (2^k)) + getLen (mkHeader len (2^k)) ≤ base + totalLen len (2^k) := by
  rcases k_cases k hk with h | h | h | h | h | h | h | h | h | h | h | h | h | h | h | h <;>
    subst h <;>
    simp [bodyAddr, mkHeader, effAlign, minAlign, valueAlignBits, valueLenBits, headerBytes,
      getLen, totalLen] <;>
    omega

theorem gc_size_matches_alloc (len k : Nat) (hk : k ≤ 15) (hl : len < 2^32) :
    gcInfo (mkHeader len (2^k)) = (totalLen len (2^k), effAlign (2^k)) := by
  rcases k_cases k hk with h | h | h | h | h | h | h | h | h | h | h | h | h | h | h | h <;>
    subst h <;>
    simp [gcInfo, mkHeader, effAlign, minAlign, valueAlignBits, valueLenBits, totalLen] <;>
    omega

theorem len_roundtrip (len align : Nat) (hl : len < 2^32) : getLen (mkHeader len align) = len := by
  simp only [getLen, mkHeader, valueLenBits]
  exact Nat.mod_eq_of_lt hl

/-! ### tagged words -/

private theorem bit62 (a : W) (ha : a.toNat < 2^62) : a.getLsbD 62 = false := by
  rw [BitVec.getLsbD, Nat.testBit_lt_two_pow ha]
private theorem bit63 (a : W) (ha : a.toNat < 2^62) : a.getLsbD 63 = false := by
  rw [BitVec.getLsbD, Nat.testBit_lt_two_pow (by omega)]

private theorem vpf' : ∀ i : Fin 64, valPtrFlag.getLsbD i.val = decide (i.val = 62) := by decide
private theorem cf' : ∀ i : Fin 64, childFlag.getLsbD i.val = decide (i.val = 63) := by decide
private theorem vpf (i : Nat) (h : i < 64) : valPtrFlag.getLsbD i = decide (i = 62) := vpf' ⟨i, h⟩
private theorem cf (i : Nat)  (h : i < 64) : childFlag.getLsbD i = decide (i = 63) := cf' ⟨i, h⟩

private theorem untag_tag (a : W) (ha : a.toNat < 2^62) : untag (tagValue a) = a := by
  apply BitVec.eq_of_getLsbD_eq
  intro i hi
  simp only [untag, tagValue, BitVec.getLsbD_and, BitVec.getLsbD_or, BitVec.getLsbD_not, vpf i hi]
  by_cases h : i = 62
  · subst h; rw [bit62 a ha]; simp
  · simp [h, hi]

private theorem and_vpf (w : W) : (w &&& valPtrFlag) = 0#64 ↔ w.getLsbD 62 = false := by
  constructor
  · intro h
    have := congrArg (fun x => x.getLsbD 62) h
    simp only [BitVec.getLsbD_and, vpf 62 (by omega), BitVec.getLsbD_zero] at this
    simpa using this
  · intro h
    apply BitVec.eq_of_getLsbD_eq
    intro i hi
    simp only [BitVec.getLsbD_and, vpf i hi, BitVec.getLsbD_zero]
    by_cases h' : i = 62
    · subst h'; rw [h]; rfl
    · simp [h']

private theorem and_cf (w : W) : (w &&& childFlag) = 0#64 ↔ w.getLsbD 63 = false := by
  constructor
  · intro h
    have := congrArg (fun x => x.getLsbD 63) h
    simp only [BitVec.getLsbD_and, cf 63 (by omega), BitVec.getLsbD_zero] at this
    simpa using this
  · intro h
    apply BitVec.eq_of_getLsbD_eq
    intro i hi
    simp only [BitVec.getLsbD_and, cf i hi, BitVec.getLsbD_zero]
    by_cases h' : i = 63
    · subst h'; rw [h]; rfl
    · simp [h']

private theorem vpf_toNat : valPtrFlag.toNat = 2^62 := by decide

theorem tag_roundtrip (a : W) (ha : a.toNat < 2^62) :
    untag (tagValue a) = a ∧ isValuePtr (tagValue a) = true ∧
    (a ≠ 0#64 → classify (tagValue a) = .outOfLine a) := by
  have h1 := untag_tag a ha
  have h2 : isValuePtr (tagValue a) = true := by
    have : ¬ ((tagValue a &&& valPtrFlag) = 0#64) := by
      rw [and_vpf]; simp [tagValue, vpf 62 (by omega)]
    simp [isValuePtr, this]
  refine ⟨h1, h2, ?_⟩
  intro hne
  have h3 : (tagValue a &&& childFlag) = 0#64 := by
    rw [and_cf]; simp only [tagValue, BitVec.getLsbD_or, bit63 a ha]; rfl
  have h4 : tagValue a ≠ valPtrFlag := by
    intro h
    apply hne
    have := congrArg untag h
    rw [h1] at this
    rw [this]
    decide
  simp [classify, h3, h4, h2, h1]

theorem inline_by_value (v : W) (hv : v.toNat < 2^62) : classify v = .inlineVal v := by
  have h3 : (v &&& childFlag) = 0#64 := by rw [and_cf]; exact bit63 v hv
  have h2 : (v &&& valPtrFlag) = 0#64 := by rw [and_vpf]; exact bit62 v hv
  have h4 : v ≠ valPtrFlag := by
    intro h; rw [h, vpf_toNat] at hv; omega
  simp [classify, h3, h4, isValuePtr, h2]

theorem link_roundtrip (c : W) (hc : c.toNat < 2^62) : classify (setNextLayer c) = .link c := by
  have h3 : ¬ ((setNextLayer c &&& childFlag) = 0#64) := by
    rw [and_cf]; simp [setNextLayer, cf 63 (by omega)]
  have h1 : setNextLayer c &&& ~~~childFlag = c := by
    apply BitVec.eq_of_getLsbD_eq
    intro i hi
    simp only [setNextLayer, BitVec.getLsbD_and, BitVec.getLsbD_or, BitVec.getLsbD_not, cf i hi]
    by_cases h : i = 63
    · subst h; rw [bit63 c hc]; simp
    · simp [h, hi]
  simp [classify, h3, h1]

end Yak.Value
