import YakModel.Proofs.LeafBasics
/-!
# `Leaf`: list facts about `lookupIn`, `insertSorted`, the permutation shrink, and `abs`
-/
namespace Yak.Proto.Leaf

theorem span_loop_eq {α} (f : α → Bool) (l acc : List α) :
    List.span.loop f l acc = (acc.reverse ++ l.takeWhile f, l.dropWhile f) := by
  induction l generalizing acc with
  | nil => simp [List.span.loop]
  | cons a l ih =>
    simp only [List.span.loop, List.takeWhile_cons, List.dropWhile_cons]
    cases f a with
    | true => simp [ih]
    | false => simp

theorem span_eq {α} (f : α → Bool) (l : List α) : l.span f = (l.takeWhile f, l.dropWhile f) := by
  simp [List.span, span_loop_eq]

/-- `insertSorted` is the old permutation with the new slot put somewhere in the middle -/
theorem insertSorted_eq (keys : Slot → Option Key) (p : List Slot) (sl : Slot) (k : Key) :
    ∃ a b, p = a ++ b ∧ insertSorted keys p sl k = a ++ sl :: b := by
  simp only [insertSorted, span_eq]
  refine ⟨_, _, ?_, rfl⟩
  exact (List.takeWhile_append_dropWhile).symm

theorem mem_insertSorted {keys p sl k} (x : Slot) : x ∈ insertSorted keys p sl k ↔ x = sl ∨ x ∈ p := by
  obtain ⟨a, b, h1, h2⟩ := insertSorted_eq keys p sl k
  rw [h2, h1]
  simp only [List.mem_append, List.mem_cons]
  constructor
  · rintro (h | h | h) <;> simp [h]
  · rintro (h | h | h) <;> simp [h]

theorem lookupIn_some {keys p k sl} (h : lookupIn keys p k = some sl) : sl ∈ p ∧ keys sl = some k := by
  refine ⟨List.mem_of_find?_eq_some h, ?_⟩
  have := List.find?_some h
  simpa using this

theorem lookupIn_none {keys p k} : lookupIn keys p k = none ↔ ∀ a ∈ p, keys a ≠ some k := by
  simp [lookupIn, List.find?_eq_none]

theorem lookupIn_congr {keys keys' : Slot → Option Key} {p k} (h : ∀ a ∈ p, keys' a = keys a) :
    lookupIn keys' p k = lookupIn keys p k := by
  induction p with
  | nil => rfl
  | cons a p ih =>
    simp only [lookupIn, List.find?_cons, h a (List.mem_cons_self ..)]
    have := ih (fun x hx => h x (List.mem_cons_of_mem _ hx))
    simp only [lookupIn] at this
    rw [this]

theorem lookupIn_none_subset {keys p p' k} (h : lookupIn keys p k = none) (hs : ∀ a ∈ p', a ∈ p) :
    lookupIn keys p' k = none := by
  rw [lookupIn_none] at *
  exact fun a ha => h a (hs a ha)

theorem lookupIn_of_mem {keys p k sl} (hinj : ∀ a ∈ p, ∀ b ∈ p, keys a = keys b → a = b)
    (hm : sl ∈ p) (hk : keys sl = some k) : lookupIn keys p k = some sl := by
  cases h : lookupIn keys p k with
  | none => exact absurd hk (lookupIn_none.mp h sl hm)
  | some a =>
    obtain ⟨h1, h2⟩ := lookupIn_some h
    rw [hinj a h1 sl hm (h2.trans hk.symm)]

theorem lookupIn_insert_self {keys p sl k} (hk : keys sl = some k) (hn : lookupIn keys p k = none) :
    lookupIn keys (insertSorted keys p sl k) k = some sl := by
  obtain ⟨a, b, h1, h2⟩ := insertSorted_eq keys p sl k
  rw [h2]
  have ha : lookupIn keys a k = none :=
    lookupIn_none_subset hn (fun x hx => by rw [h1]; exact List.mem_append_left _ hx)
  simp only [lookupIn] at ha ⊢
  rw [List.find?_append, ha]
  simp [hk]

theorem lookupIn_insert_other {keys p sl k k'} (hk : keys sl = some k) (hne : k' ≠ k) :
    lookupIn keys (insertSorted keys p sl k) k' = lookupIn keys p k' := by
  obtain ⟨a, b, h1, h2⟩ := insertSorted_eq keys p sl k
  rw [h2, h1]
  simp only [lookupIn, List.find?_append, List.find?_cons, hk]
  have : (some k == some k') = false := by simp [Ne.symm hne]
  rw [this]

theorem lookupIn_filter_other {keys p sl k k'} (hk : keys sl = some k) (hne : k' ≠ k) :
    lookupIn keys (p.filter (· != sl)) k' = lookupIn keys p k' := by
  induction p with
  | nil => rfl
  | cons a p ih =>
    simp only [lookupIn] at ih ⊢
    by_cases ha : a = sl
    · subst ha
      simp only [List.filter_cons, bne_self_eq_false, Bool.false_eq_true, if_false, List.find?_cons, hk]
      have : (some k == some k') = false := by simp [Ne.symm hne]
      rw [this]; exact ih
    · have : (a != sl) = true := by simp [ha]
      simp only [List.filter_cons, this, if_true, List.find?_cons, ih]

theorem lookupIn_filter_self {keys} {p : List Slot} {sl k} (hinj : ∀ a ∈ p, ∀ b ∈ p, keys a = keys b → a = b)
    (hm : sl ∈ p) (hk : keys sl = some k) : lookupIn keys (p.filter (· != sl)) k = none := by
  rw [lookupIn_none]
  intro a ha hak
  rw [List.mem_filter] at ha
  have := hinj a ha.1 sl hm (hak.trans hk.symm)
  simp [this] at ha

theorem freeSlot_not_mem {s : State} {cap sl} (h : freeSlot s cap = some sl) : sl ∉ s.perm := by
  have := List.find?_some h
  simpa using this

/-! ### `abs` under the shared-memory writes -/

theorem abs_congr {s s' : State} (hp : s'.perm = s.perm) (hk : ∀ a ∈ s.perm, s'.keys a = s.keys a)
    (hv : ∀ a ∈ s.perm, s'.vals a = s.vals a) : abs s' = abs s := by
  funext k
  simp only [abs, hp, lookupIn_congr (k := k) hk]
  cases h : lookupIn s.keys s.perm k with
  | none => rfl
  | some sl => exact hv sl (lookupIn_some h).1

theorem abs_stKey {s s' : State} {sl x} (hp : s'.perm = s.perm) (hk : s'.keys = upd s.keys sl x)
    (hv : s'.vals = s.vals) (hsl : sl ∉ s.perm) : abs s' = abs s := by
  apply abs_congr hp
  · intro a ha
    have : a ≠ sl := fun h => hsl (h ▸ ha)
    rw [hk, upd_other _ _ _ _ this]
  · intro a _; rw [hv]

theorem abs_stValIns {s s' : State} {sl x} (hp : s'.perm = s.perm) (hk : s'.keys = s.keys)
    (hv : s'.vals = upd s.vals sl x) (hsl : sl ∉ s.perm) : abs s' = abs s := by
  apply abs_congr hp
  · intro a _; rw [hk]
  · intro a ha
    have : a ≠ sl := fun h => hsl (h ▸ ha)
    rw [hv, upd_other _ _ _ _ this]

/-- a store to the value cell of the slot that currently holds `k` (update: `x = some v`,
    clear: `x = none`) rebinds exactly `k` -/
theorem abs_stVal {s s' : State} {sl k x} (hp : s'.perm = s.perm) (hk : s'.keys = s.keys)
    (hv : s'.vals = upd s.vals sl x) (hl : lookupIn s.keys s.perm k = some sl) :
    abs s' = fun k' => if k' = k then x else abs s k' := by
  funext k'
  simp only [abs, hp, hk, hv]
  by_cases hkk : k' = k
  · subst hkk; simp [hl, upd_same]
  · simp only [hkk, if_false]
    cases h : lookupIn s.keys s.perm k' with
    | none => rfl
    | some a =>
      have h1 := (lookupIn_some h).2
      have h2 := (lookupIn_some hl).2
      have : a ≠ sl := by
        intro e; subst e; rw [h1] at h2; exact hkk (Option.some.inj h2)
      simp [upd_other _ _ _ _ this]

theorem abs_stPermIns {s s' : State} {sl k v} (hp : s'.perm = insertSorted s.keys s.perm sl k)
    (hk : s'.keys = s.keys) (hv : s'.vals = s.vals) (hks : s.keys sl = some k)
    (hn : lookupIn s.keys s.perm k = none) (hvs : s.vals sl = some v) :
    abs s' = fun k' => if k' = k then some v else abs s k' := by
  funext k'
  simp only [abs, hp, hk, hv]
  by_cases hkk : k' = k
  · subst hkk; simp [lookupIn_insert_self hks hn, hvs]
  · simp [hkk, lookupIn_insert_other hks hkk]

theorem abs_stPermRem {s s' : State} {sl k} (hp : s'.perm = s.perm.filter (· != sl))
    (hk : s'.keys = s.keys) (hv : s'.vals = s.vals)
    (hinj : ∀ a ∈ s.perm, ∀ b ∈ s.perm, s.keys a = s.keys b → a = b)
    (hm : sl ∈ s.perm) (hks : s.keys sl = some k) (hvs : s.vals sl = none) : abs s' = abs s := by
  funext k'
  simp only [abs, hp, hk, hv]
  by_cases hkk : k' = k
  · subst hkk
    rw [lookupIn_filter_self hinj hm hks, lookupIn_of_mem hinj hm hks]
    exact hvs.symm
  · rw [lookupIn_filter_other hks hkk]

end Yak.Proto.Leaf
