import YakModel.Proto.Collapse

/-!
# Proofs about `Yak.Proto.Collapse`

Everything here is about ONE FINITE INSTANCE: the tree `I(A ⇄ B)` of `Proto/Collapse.lean`, thread
`t0` emptying `A`, thread `t1` emptying `B`, every interleaving of their atomic lines (and every
subset of started threads). Nothing is claimed about other tree shapes or more removers.

Technique: exhaustive exploration checked by the kernel, through a certificate, with all set
operations done on numbers. `encode : State → Nat` is a mixed-radix code, `decode : Nat → State`
a total function with `decode (encode s) = s` for EVERY state (`decode_encode`, proved by case
analysis and `omega`, not by enumeration). `keys cfg` is a literal list of 173 numbers and
`litStates cfg = (keys cfg).map decode`.

* `Reach cfg s → s ∈ litStates cfg` (`reach_mem`): `encode init ∈ keys cfg`, and for every key `k`
  and thread `t`, the code of the successor of `decode k` is again in `keys cfg` (`closedK`); both
  evaluated by `decide +kernel`, then induction on `Reach`. Where the numbers come from is not
  trusted.
* `s ∈ litStates cfg → Reach cfg s` (`mem_reach`): `allKeys cfg` is a fuel-bounded worklist
  exploration from `encode init`; by induction on the exploration every key it returns decodes to
  a reachable state; `allKeys cfg = keys cfg` is one `decide +kernel` per `cfg`.

So `litStates cfg` is exactly the reachable set: 173 distinct states for either value of `cfg.fix`
(`reach_iff_mem`, `litStates_length`, `litStates_nodup`). Every property is then a decidable
predicate checked on the 173 states by `decide +kernel` (no `native_decide`).
-/
namespace Yak.Proto.Collapse

/-! ## the reachable set -/

def tids : List Tid := [.t0, .t1]
def leaves : List Leaf := [.A, .B]
def lockIds : List LockId := [.leaf .A, .leaf .B, .int, .root]

theorem mem_tids (t : Tid) : t ∈ tids := by cases t <;> simp [tids]
theorem mem_leaves (l : Leaf) : l ∈ leaves := by cases l <;> simp [leaves]
theorem mem_lockIds (l : LockId) : l ∈ lockIds := by
  cases l with
  | leaf l => cases l <;> simp [lockIds]
  | int => simp [lockIds]
  | root => simp [lockIds]

/-- the enabled successors of a state -/
def succs (cfg : Cfg) (s : State) : List State :=
  tids.filterMap (fun t => step? cfg s (.step t))

theorem mem_succs {cfg : Cfg} {s s' : State} {e : Event} (h : step? cfg s e = some s') :
    s' ∈ succs cfg s := by
  cases e with
  | step t => exact List.mem_filterMap.mpr ⟨t, mem_tids t, h⟩

theorem succs_step {cfg : Cfg} {s s' : State} (h : s' ∈ succs cfg s) :
    ∃ e, step? cfg s e = some s' := by
  obtain ⟨t, _, ht⟩ := List.mem_filterMap.mp h
  exact ⟨.step t, ht⟩

/-! ### states as numbers -/

def encOT : Option Tid → Nat
  | none => 0 | some .t0 => 1 | some .t1 => 2
def encOL : Option Leaf → Nat
  | none => 0 | some .A => 1 | some .B => 2
def encB : Bool → Nat
  | false => 0 | true => 1
def encNode : Node → Nat
  | .I => 0 | .A => 1 | .B => 2
def encPC : PC → Nat
  | .idle => 0 | .markDel => 1 | .readPrev => 2 | .lockPrev .A => 3 | .lockPrev .B => 4
  | .chkPrev .A => 5 | .chkPrev .B => 6 | .noPrev => 7 | .readParent => 8
  | .acqParent false => 9 | .acqParent true => 10 | .chkParent false => 11 | .chkParent true => 12
  | .stayRoot => 13 | .stayUnlock => 14 | .leave => 15 | .intDel => 16 | .intRootLock => 17
  | .promote => 18 | .done => 19
def encLeaf (l : LeafSt) : Nat :=
  encOT l.lock + 3 * (encB l.deleted + 2 * (encB l.root + 2 * (encOL l.next + 3 *
    (encOL l.prev + 3 * encB l.parent))))
def encInt (i : IntSt) : Nat := encOT i.lock + 3 * (encB i.deleted + 2 * encB i.root)

/-- mixed-radix code of a state -/
def encode (s : State) : Nat :=
  encLeaf s.a + 216 * (encLeaf s.b + 216 * (encInt s.i + 12 * (encNode s.rootPtr + 3 *
    (encOT s.rootLock + 3 * (encB s.retA + 2 * (encB s.retB + 2 * (encB s.retI + 2 *
      (encPC s.t0 + 20 * encPC s.t1))))))))

def decOT (n : Nat) : Option Tid := if n = 0 then none else if n = 1 then some .t0 else some .t1
def decOL (n : Nat) : Option Leaf := if n = 0 then none else if n = 1 then some .A else some .B
def decB (n : Nat) : Bool := n != 0
def decNode (n : Nat) : Node := if n = 0 then .I else if n = 1 then .A else .B
def decPC : Nat → PC
  | 0 => .idle | 1 => .markDel | 2 => .readPrev | 3 => .lockPrev .A | 4 => .lockPrev .B
  | 5 => .chkPrev .A | 6 => .chkPrev .B | 7 => .noPrev | 8 => .readParent
  | 9 => .acqParent false | 10 => .acqParent true | 11 => .chkParent false | 12 => .chkParent true
  | 13 => .stayRoot | 14 => .stayUnlock | 15 => .leave | 16 => .intDel | 17 => .intRootLock
  | 18 => .promote | _ => .done
def decLeaf (n : Nat) : LeafSt :=
  { lock := decOT (n % 3), deleted := decB (n / 3 % 2), root := decB (n / 6 % 2), next := decOL (n / 12 % 3), prev := decOL (n / 36 % 3), parent := decB (n / 108 % 2) }
def decInt (n : Nat) : IntSt :=
  { lock := decOT (n % 3), deleted := decB (n / 3 % 2), root := decB (n / 6 % 2) }

/-- total left inverse of `encode` (any number decodes to some state) -/
def decode (n : Nat) : State :=
  { a := decLeaf (n % 216), b := decLeaf (n / 216 % 216), i := decInt (n / 216 / 216 % 12), rootPtr := decNode (n / 216 / 216 / 12 % 3), rootLock := decOT (n / 216 / 216 / 12 / 3 % 3), retA := decB (n / 216 / 216 / 12 / 3 / 3 % 2), retB := decB (n / 216 / 216 / 12 / 3 / 3 / 2 % 2), retI := decB (n / 216 / 216 / 12 / 3 / 3 / 2 / 2 % 2), t0 := decPC (n / 216 / 216 / 12 / 3 / 3 / 2 / 2 / 2 % 20), t1 := decPC (n / 216 / 216 / 12 / 3 / 3 / 2 / 2 / 2 / 20 % 20) }

theorem encOT_lt (x : Option Tid) : encOT x < 3 := by
  cases x with
  | none => decide
  | some t => cases t <;> decide
theorem encOL_lt (x : Option Leaf) : encOL x < 3 := by
  cases x with
  | none => decide
  | some t => cases t <;> decide
theorem encB_lt (x : Bool) : encB x < 2 := by cases x <;> decide
theorem encNode_lt (x : Node) : encNode x < 3 := by cases x <;> decide
theorem encPC_lt (x : PC) : encPC x < 20 := by
  cases x with
  | lockPrev p => cases p <;> decide
  | chkPrev p => cases p <;> decide
  | acqParent q => cases q <;> decide
  | chkParent q => cases q <;> decide
  | _ => decide

theorem decOT_encOT (x : Option Tid) : decOT (encOT x) = x := by
  cases x with
  | none => rfl
  | some t => cases t <;> rfl
theorem decOL_encOL (x : Option Leaf) : decOL (encOL x) = x := by
  cases x with
  | none => rfl
  | some t => cases t <;> rfl
theorem decB_encB (x : Bool) : decB (encB x) = x := by cases x <;> rfl
theorem decNode_encNode (x : Node) : decNode (encNode x) = x := by cases x <;> rfl
theorem decPC_encPC (x : PC) : decPC (encPC x) = x := by
  cases x with
  | lockPrev p => cases p <;> rfl
  | chkPrev p => cases p <;> rfl
  | acqParent q => cases q <;> rfl
  | chkParent q => cases q <;> rfl
  | _ => rfl

theorem encLeaf_lt (l : LeafSt) : encLeaf l < 216 := by
  have h1 := encOT_lt l.lock
  have h2 := encB_lt l.deleted
  have h3 := encB_lt l.root
  have h4 := encOL_lt l.next
  have h5 := encOL_lt l.prev
  have h6 := encB_lt l.parent
  unfold encLeaf
  omega

theorem encInt_lt (i : IntSt) : encInt i < 12 := by
  have h1 := encOT_lt i.lock
  have h2 := encB_lt i.deleted
  have h3 := encB_lt i.root
  unfold encInt
  omega

theorem decLeaf_encLeaf (l : LeafSt) : decLeaf (encLeaf l) = l := by
  have h1 := encOT_lt l.lock
  have h2 := encB_lt l.deleted
  have h3 := encB_lt l.root
  have h4 := encOL_lt l.next
  have h5 := encOL_lt l.prev
  have h6 := encB_lt l.parent
  have e1 : encLeaf l % 3 = encOT l.lock := by unfold encLeaf; omega
  have e2 : encLeaf l / 3 % 2 = encB l.deleted := by unfold encLeaf; omega
  have e3 : encLeaf l / 6 % 2 = encB l.root := by unfold encLeaf; omega
  have e4 : encLeaf l / 12 % 3 = encOL l.next := by unfold encLeaf; omega
  have e5 : encLeaf l / 36 % 3 = encOL l.prev := by unfold encLeaf; omega
  have e6 : encLeaf l / 108 % 2 = encB l.parent := by unfold encLeaf; omega
  unfold decLeaf
  rw [e1, e2, e3, e4, e5, e6, decOT_encOT, decOL_encOL, decOL_encOL, decB_encB, decB_encB, decB_encB]

theorem decInt_encInt (i : IntSt) : decInt (encInt i) = i := by
  have h1 := encOT_lt i.lock
  have h2 := encB_lt i.deleted
  have h3 := encB_lt i.root
  have e1 : encInt i % 3 = encOT i.lock := by unfold encInt; omega
  have e2 : encInt i / 3 % 2 = encB i.deleted := by unfold encInt; omega
  have e3 : encInt i / 6 % 2 = encB i.root := by unfold encInt; omega
  unfold decInt
  rw [e1, e2, e3, decOT_encOT, decB_encB, decB_encB]

/-- the mixed-radix combination used by `encode` -/
def mix (A B I R L a b c T0 T1 : Nat) : Nat :=
  A + 216 * (B + 216 * (I + 12 * (R + 3 * (L + 3 * (a + 2 * (b + 2 * (c + 2 * (T0 + 20 * T1))))))))

theorem mix_digits {A B I R L a b c T0 T1 : Nat} (h1 : A < 216) (h2 : B < 216) (h3 : I < 12)
    (h4 : R < 3) (h5 : L < 3) (h6 : a < 2) (h7 : b < 2) (h8 : c < 2) (h9 : T0 < 20)
    (h10 : T1 < 20) :
    mix A B I R L a b c T0 T1 % 216 = A ∧
    mix A B I R L a b c T0 T1 / 216 % 216 = B ∧
    mix A B I R L a b c T0 T1 / 216 / 216 % 12 = I ∧
    mix A B I R L a b c T0 T1 / 216 / 216 / 12 % 3 = R ∧
    mix A B I R L a b c T0 T1 / 216 / 216 / 12 / 3 % 3 = L ∧
    mix A B I R L a b c T0 T1 / 216 / 216 / 12 / 3 / 3 % 2 = a ∧
    mix A B I R L a b c T0 T1 / 216 / 216 / 12 / 3 / 3 / 2 % 2 = b ∧
    mix A B I R L a b c T0 T1 / 216 / 216 / 12 / 3 / 3 / 2 / 2 % 2 = c ∧
    mix A B I R L a b c T0 T1 / 216 / 216 / 12 / 3 / 3 / 2 / 2 / 2 % 20 = T0 ∧
    mix A B I R L a b c T0 T1 / 216 / 216 / 12 / 3 / 3 / 2 / 2 / 2 / 20 % 20 = T1 := by
  unfold mix
  refine ⟨?_, ?_, ?_, ?_, ?_, ?_, ?_, ?_, ?_, ?_⟩ <;> omega

theorem encode_eq_mix (s : State) : encode s =
    mix (encLeaf s.a) (encLeaf s.b) (encInt s.i) (encNode s.rootPtr) (encOT s.rootLock)
      (encB s.retA) (encB s.retB) (encB s.retI) (encPC s.t0) (encPC s.t1) := rfl

/-- `decode` inverts `encode` on every state (so `encode` is injective) -/
theorem decode_encode (s : State) : decode (encode s) = s := by
  obtain ⟨e1, e2, e3, e4, e5, e6, e7, e8, e9, e10⟩ :=
    mix_digits (encLeaf_lt s.a) (encLeaf_lt s.b) (encInt_lt s.i) (encNode_lt s.rootPtr)
      (encOT_lt s.rootLock) (encB_lt s.retA) (encB_lt s.retB) (encB_lt s.retI) (encPC_lt s.t0)
      (encPC_lt s.t1)
  unfold decode
  rw [encode_eq_mix, e1, e2, e3, e4, e5, e6, e7, e8, e9, e10, decLeaf_encLeaf, decLeaf_encLeaf,
    decInt_encInt, decNode_encNode, decOT_encOT, decB_encB, decB_encB, decB_encB, decPC_encPC,
    decPC_encPC]

/-! ### the certificate -/

def keysFix : List Nat :=
  [15349062606, 14515786548, 13706211636, 12899855988, 12093640740, 9674993700, 8062469028,
   15389373391, 14556097333, 13746522421, 12940166773, 12133951525, 9715304485, 8102779813,
   15429684178, 14596408120, 13786833208, 12980477560, 12174262312, 9755615272, 8143090600,
   15631238098, 14797962040, 13988387128, 13182031480, 12375816232, 9957169192, 8344644520,
   15671548882, 14838272824, 14028697912, 13222342264, 12416127016, 9997479976, 8384955304,
   16114967505, 15913413586, 15874782418, 15794160850, 15711859666, 15832838674, 15752170450,
   14918894392, 14109319480, 13302963832, 12496748584, 10078101544, 8465576872, 8546245096,
   8667177448, 8707488231, 8747938983, 10467050583, 8854525911, 8789929383, 16110458823,
   12079380855, 11276532183, 9664100823, 8048310231, 7242094551, 7177498023, 7135507623,
   7095056871, 7054746088, 6933813736, 6853145512, 6772523944, 6732213160, 6530659240, 6490348453,
   6450037668, 4031390654, 2418959292, 1612743612, 806527284, 2459270077, 1653054397, 846838069,
   2499580864, 1693365184, 887148856, 4676402081, 4716852833, 4758843233, 4823439761, 3211008399,
   3146411871, 3104421471, 3063970719, 3023659936, 2902727584, 2822059360, 2741437792, 2701134784,
   1894919104, 1088702776, 15671541130, 14838265072, 14028690160, 13222334512, 12416119264,
   9997472224, 8384947552, 6772516192, 5966300512, 1935222112, 1129005784, 16114959729,
   15913405810, 15874774666, 15794153098, 15711851914, 15832830922, 15752162698, 14918886640,
   14109311728, 13302956080, 12496740832, 10078093792, 8465569120, 6853137760, 6046922080,
   2015843680, 1209627352, 8546237344, 6933805984, 6127590304, 2096511904, 1290295576, 8667169696,
   7054738336, 6248522656, 2217444256, 1411227928, 8707480479, 7095049119, 6288833439, 2257755039,
   1451538711, 8747931231, 7135499871, 6329284191, 2298205791, 1491989463, 10467042831, 8854518159,
   8789921631, 7177490271, 6371274591, 2340196191, 1533979863, 16110458847, 12079380879,
   11276524431, 9664093071, 8048302479, 7242086799, 6435871119, 2404792719, 1598576391, 792360279,
   727763751, 685773351, 645322599, 605011816, 484079464, 403411240, 322789672, 282486664,
   80932744, 40621957, 311172]

def keysNoFix : List Nat :=
  [15349062606, 14515786548, 13706211636, 12899855988, 12093640740, 9674993700, 8062469028,
   15389373391, 14556097333, 13746522421, 12940166773, 12133951525, 9715304485, 8102779813,
   15429684178, 14596408120, 13786833208, 12980477560, 12174262312, 9755615272, 8143090600,
   15631238098, 14797962040, 13988387128, 13182031480, 12375816232, 9957169192, 8344644520,
   15671548882, 14838272824, 14028697912, 13222342264, 12416127016, 9997479976, 8384955304,
   16114967505, 15913413586, 15874782418, 15794160850, 15711859666, 15832838674, 15752170450,
   14918894392, 14109319480, 13302963832, 12496748584, 10078101544, 8465576872, 8546245096,
   8667177448, 8707488231, 8747938983, 10467050583, 8854525911, 8789929383, 16110466599,
   12079388631, 11276532183, 9664100823, 8048310231, 7242094551, 7177498023, 7135507623,
   7095056871, 7054746088, 6933813736, 6853145512, 6772523944, 6732213160, 6530659240, 6490348453,
   6450037668, 4031390654, 2418959292, 1612743612, 806527284, 2459270077, 1653054397, 846838069,
   2499580864, 1693365184, 887148856, 4676402081, 4716852833, 4758843233, 4823439761, 3211008399,
   3146411871, 3104421471, 3063970719, 3023659936, 2902727584, 2822059360, 2741437792, 2701134784,
   1894919104, 1088702776, 15671541130, 14838265072, 14028690160, 13222334512, 12416119264,
   9997472224, 8384947552, 6772516192, 5966300512, 1935222112, 1129005784, 16114959753,
   15913405834, 15874774666, 15794153098, 15711851914, 15832830922, 15752162698, 14918886640,
   14109311728, 13302956080, 12496740832, 10078093792, 8465569120, 6853137760, 6046922080,
   2015843680, 1209627352, 8546237344, 6933805984, 6127590304, 2096511904, 1290295576, 8667169696,
   7054738336, 6248522656, 2217444256, 1411227928, 8707480479, 7095049119, 6288833439, 2257755039,
   1451538711, 8747931231, 7135499871, 6329284191, 2298205791, 1491989463, 10467042831, 8854518159,
   8789921631, 7177490271, 6371274591, 2340196191, 1533979863, 16110458847, 12079380879,
   11276524431, 9664093071, 8048302479, 7242086799, 6435871119, 2404792719, 1598576391, 792360279,
   727763751, 685773351, 645322599, 605011816, 484079464, 403411240, 322789672, 282486664,
   80932744, 40621957, 311172]

/-- codes of the reachable states (printed by `#eval allKeys cfg`; see `allKeys_eq_keys`) -/
def keys (cfg : Cfg) : List Nat := if cfg.fix then keysFix else keysNoFix

/-- the reachable states (see `reach_iff_mem`) -/
def litStates (cfg : Cfg) : List State := (keys cfg).map decode

/-- `ks` contains the code of every successor of every state it codes -/
def closedK (cfg : Cfg) (ks : List Nat) : Bool :=
  ks.all fun k => (succs cfg (decode k)).all fun s' => decide (encode s' ∈ ks)

theorem mem_lit_of_key {cfg : Cfg} {s : State} (h : encode s ∈ keys cfg) : s ∈ litStates cfg :=
  List.mem_map.mpr ⟨encode s, h, decode_encode s⟩

theorem init_mem (cfg : Cfg) : init ∈ litStates cfg := by
  have h : ∀ cfg : Cfg, encode init ∈ keys cfg := by
    intro cfg
    cases cfg with
    | mk f => cases f <;> decide +kernel
  exact mem_lit_of_key (h cfg)

theorem keys_closed (cfg : Cfg) : closedK cfg (keys cfg) = true := by
  cases cfg with
  | mk f => cases f <;> decide +kernel

theorem step_mem {cfg : Cfg} {s s' : State} {e : Event} (hs : s ∈ litStates cfg)
    (h : step? cfg s e = some s') : s' ∈ litStates cfg := by
  obtain ⟨k, hk, rfl⟩ := List.mem_map.mp hs
  have hc := keys_closed cfg
  unfold closedK at hc
  have h1 := List.all_eq_true.mp hc k hk
  have h2 := List.all_eq_true.mp h1 s' (mem_succs h)
  exact mem_lit_of_key (of_decide_eq_true h2)

/-- every reachable state is in the literal list -/
theorem reach_mem {cfg : Cfg} {s : State} (h : Reach cfg s) : s ∈ litStates cfg := by
  induction h with
  | init => exact init_mem cfg
  | step _ hstep ih => exact step_mem ih hstep

/-! ### the converse: the list contains nothing else -/

/-- worklist exploration on codes; `seen` accumulates the visited states -/
def exploreK (cfg : Cfg) : Nat → List Nat → List Nat → List Nat
  | 0, _, seen => seen
  | _ + 1, [], seen => seen
  | n + 1, k :: work, seen =>
    if k ∈ seen then exploreK cfg n work seen
    else exploreK cfg n ((succs cfg (decode k)).map encode ++ work) (k :: seen)

def allKeys (cfg : Cfg) : List Nat := exploreK cfg 1000 [encode init] []

theorem exploreK_reach (cfg : Cfg) : ∀ (n : Nat) (work seen : List Nat),
    (∀ k ∈ work, Reach cfg (decode k)) → (∀ k ∈ seen, Reach cfg (decode k)) →
    ∀ k ∈ exploreK cfg n work seen, Reach cfg (decode k)
  | 0, _, _, _, hs => by simpa [exploreK] using hs
  | _ + 1, [], _, _, hs => by simpa [exploreK] using hs
  | n + 1, k :: work, seen, hw, hs => by
    unfold exploreK
    split
    · exact exploreK_reach cfg n work seen (fun x hx => hw x (List.mem_cons_of_mem _ hx)) hs
    · apply exploreK_reach cfg n
      · intro x hx
        rcases List.mem_append.mp hx with h | h
        · obtain ⟨s', hs', rfl⟩ := List.mem_map.mp h
          obtain ⟨e, he⟩ := succs_step hs'
          rw [decode_encode]
          exact Reach.step (hw k List.mem_cons_self) he
        · exact hw x (List.mem_cons_of_mem _ h)
      · intro x hx
        rcases List.mem_cons.mp hx with h | h
        · subst h; exact hw _ List.mem_cons_self
        · exact hs x h

/-- the exploration, evaluated by the kernel, yields exactly the literal -/
theorem allKeys_eq_keys (cfg : Cfg) : allKeys cfg = keys cfg := by
  cases cfg with
  | mk f => cases f <;> decide +kernel

/-- every listed state is reachable -/
theorem mem_reach {cfg : Cfg} {s : State} (h : s ∈ litStates cfg) : Reach cfg s := by
  obtain ⟨k, hk, rfl⟩ := List.mem_map.mp h
  rw [← allKeys_eq_keys] at hk
  refine exploreK_reach cfg 1000 [encode init] [] ?_ ?_ k hk
  · intro x hx
    rcases List.mem_singleton.mp hx with rfl
    rw [decode_encode]
    exact Reach.init
  · intro x hx; cases hx

theorem reach_iff_mem {cfg : Cfg} {s : State} : Reach cfg s ↔ s ∈ litStates cfg :=
  ⟨reach_mem, mem_reach⟩

/-- the instance has exactly 173 reachable states, with or without the repair -/
theorem litStates_length (cfg : Cfg) : (litStates cfg).length = 173 := by
  cases cfg with
  | mk f => cases f <;> decide +kernel

theorem litStates_nodup (cfg : Cfg) : (litStates cfg).Nodup := by
  have hk : ∀ cfg : Cfg, (keys cfg).Nodup ∧ ∀ k ∈ keys cfg, encode (decode k) = k := by
    intro cfg
    cases cfg with
    | mk f => cases f <;> decide +kernel
  unfold litStates List.Nodup
  rw [List.pairwise_map]
  refine List.Pairwise.imp_of_mem ?_ (hk cfg).1
  intro a b ha hb hab hd
  apply hab
  rw [← (hk cfg).2 a ha, ← (hk cfg).2 b hb, hd]

/-- a property checked on the list holds in every reachable state -/
theorem of_all {cfg : Cfg} {P : State → Prop} (h : ∀ s ∈ litStates cfg, P s) {s : State}
    (hr : Reach cfg s) : P s := h s (reach_mem hr)

theorem exec_reach {cfg : Cfg} : ∀ (es : List Event) {s s' : State}, Reach cfg s →
    exec cfg s es = some s' → Reach cfg s'
  | [], s, s', hr, h => by
    simp only [exec, Option.some.injEq] at h
    subst h; exact hr
  | e :: es, s, s', hr, h => by
    simp only [exec] at h
    cases hst : step? cfg s e with
    | none => rw [hst] at h; simp at h
    | some s1 =>
      rw [hst] at h
      exact exec_reach es (Reach.step hr hst) h

/-! ## 1. no lock is left held -/

/-- In this instance, for all interleavings: once every thread is either not started or done, the
    version locks of `A`, `B`, `I` (retired or not) and the root lock are all free. -/
theorem no_lock_left_held {cfg : Cfg} {s : State} (hr : Reach cfg s) (hq : quiescent s) :
    s.a.lock = none ∧ s.b.lock = none ∧ s.i.lock = none ∧ s.rootLock = none := by
  have key : ∀ cfg : Cfg, ∀ s ∈ litStates cfg, quiescent s →
      s.a.lock = none ∧ s.b.lock = none ∧ s.i.lock = none ∧ s.rootLock = none := by
    intro cfg
    cases cfg with
    | mk f => cases f <;> decide +kernel
  exact of_all (key cfg) hr hq

/-! ## 2. no dangling sibling link, with the repair -/

/-- In this instance with the repair (`cfg.fix = true`), for all interleavings: in a quiescent
    state no leaf that is still in the tree (not retired) has a `next` or `prev` that points to a
    retired leaf. False without the repair: `D12_counterexample`. -/
theorem no_dangling_link_fixed {cfg : Cfg} {s : State} (hfix : cfg.fix = true)
    (hr : Reach cfg s) (hq : quiescent s) :
    ∀ L : Leaf, s.leafRetired L = false →
      (∀ M, (s.leaf L).next = some M → s.leafRetired M = false) ∧
      (∀ M, (s.leaf L).prev = some M → s.leafRetired M = false) := by
  have key : ∀ s ∈ litStates { fix := true }, quiescent s →
      ∀ L ∈ leaves, s.leafRetired L = false →
        (∀ M ∈ leaves, (s.leaf L).next = some M → s.leafRetired M = false) ∧
        (∀ M ∈ leaves, (s.leaf L).prev = some M → s.leafRetired M = false) := by
    decide +kernel
  cases cfg with
  | mk f =>
    simp only at hfix
    subst hfix
    intro L hL
    have h := of_all key hr hq L (mem_leaves L) hL
    exact ⟨fun M => h.1 M (mem_leaves M), fun M => h.2 M (mem_leaves M)⟩

/-- In this instance with the repair: when both removes have finished, `root_ptr` is a leaf with
    `next = prev = null`. -/
theorem root_leaf_isolated_fixed {cfg : Cfg} {s : State} (hfix : cfg.fix = true)
    (hr : Reach cfg s) (hd : bothDone s) :
    ∃ L : Leaf, s.rootPtr = L.node ∧ (s.leaf L).next = none ∧ (s.leaf L).prev = none := by
  have key : ∀ s ∈ litStates { fix := true }, bothDone s →
      ∃ L ∈ leaves, s.rootPtr = L.node ∧ (s.leaf L).next = none ∧ (s.leaf L).prev = none := by
    decide +kernel
  cases cfg with
  | mk f =>
    simp only at hfix
    subst hfix
    obtain ⟨L, _, h⟩ := of_all key hr hd
    exact ⟨L, h⟩

/-! ## 3. D12: the stale sibling link without the repair -/

/-- `t0` (on `A`) runs 1, 2, 3, 5' (clearing `B.prev`) and reads `q = I`; `t1` (on `B`) then runs to
    completion through `I` (9'..12'), promoting `A` to root and retiring `I` and `B`; `t0` locks the
    retired `I`, sees `A.parent = null`, takes the root lock and stays as the empty deleted root
    (9, 9b). `A.next` was never touched. -/
def d12SchedNext : List Event :=
  List.replicate 5 (.step .t0) ++ List.replicate 11 (.step .t1) ++ List.replicate 6 (.step .t0)

/-- `t1` (on `B`) runs 1..5 (locks `A`, sets `A.next := null`, unlocks `A`; `B.prev` stays `A`) and
    reads `q = I`; `t0` (on `A`) runs to completion through `I`, promoting `B` and retiring `I` and
    `A`; `t1` then stays as the empty deleted root with `B.prev = A`. -/
def d12SchedPrev : List Event :=
  List.replicate 6 (.step .t1) ++ List.replicate 11 (.step .t0) ++ List.replicate 6 (.step .t1)

/-- Without the repair: the surviving root `A` keeps `next = B` although `B` is retired. -/
theorem D12_counterexample_next :
    ∃ s, exec { fix := false } init d12SchedNext = some s ∧ quiescent s ∧ bothDone s ∧
      s.rootPtr = .A ∧ s.retA = false ∧ s.a.next = some .B ∧ s.retB = true := by
  decide +kernel

/-- Without the repair: the surviving root `B` keeps `prev = A` although `A` is retired. -/
theorem D12_counterexample_prev :
    ∃ s, exec { fix := false } init d12SchedPrev = some s ∧ quiescent s ∧ bothDone s ∧
      s.rootPtr = .B ∧ s.retB = false ∧ s.b.prev = some .A ∧ s.retA = true := by
  decide +kernel

/-- D12, both variants, as reachable states of the unrepaired protocol. -/
theorem D12_counterexample :
    (∃ s, Reach { fix := false } s ∧ quiescent s ∧
      s.rootPtr = .A ∧ s.retA = false ∧ s.a.next = some .B ∧ s.retB = true) ∧
    (∃ s, Reach { fix := false } s ∧ quiescent s ∧
      s.rootPtr = .B ∧ s.retB = false ∧ s.b.prev = some .A ∧ s.retA = true) := by
  obtain ⟨s, he, hq, _, h⟩ := D12_counterexample_next
  obtain ⟨s', he', hq', _, h'⟩ := D12_counterexample_prev
  exact ⟨⟨s, exec_reach _ Reach.init he, hq, h⟩, ⟨s', exec_reach _ Reach.init he', hq', h'⟩⟩

/-- The same two schedules with the repair end with the surviving root isolated. -/
theorem D12_schedules_fixed :
    (∃ s, exec { fix := true } init d12SchedNext = some s ∧ bothDone s ∧
      s.rootPtr = .A ∧ s.a.next = none ∧ s.a.prev = none) ∧
    (∃ s, exec { fix := true } init d12SchedPrev = some s ∧ bothDone s ∧
      s.rootPtr = .B ∧ s.b.next = none ∧ s.b.prev = none) := by
  decide +kernel

/-! ## 4. no deadlock -/

/-- The strong form. In this instance, for all interleavings: if some thread has started and is
    not done, then some STARTED, unfinished thread has an enabled step (no help is needed from a
    thread that has not started). -/
theorem no_deadlock_started {cfg : Cfg} {s : State} (hr : Reach cfg s)
    (ha : ∃ t, (s.pc t).active = true) :
    ∃ t, (s.pc t).active = true ∧ (step? cfg s (.step t)).isSome = true := by
  have key : ∀ cfg : Cfg, ∀ s ∈ litStates cfg, (∃ t ∈ tids, (s.pc t).active = true) →
      ∃ t ∈ tids, (s.pc t).active = true ∧ (step? cfg s (.step t)).isSome = true := by
    intro cfg
    cases cfg with
    | mk f => cases f <;> decide +kernel
  obtain ⟨t, ht⟩ := ha
  obtain ⟨t', _, h⟩ := of_all (key cfg) hr ⟨t, mem_tids t, ht⟩
  exact ⟨t', h⟩

/-- The form asked for (a corollary of `no_deadlock_started`): a reachable non-quiescent state
    has an enabled event. -/
theorem no_deadlock {cfg : Cfg} {s : State} (hr : Reach cfg s) (hq : ¬ quiescent s) :
    ∃ t, (step? cfg s (.step t)).isSome = true := by
  have ha : ∃ t, (s.pc t).active = true := by
    apply Classical.byContradiction
    intro hn
    apply hq
    constructor
    · cases h : s.t0.quiet with
      | true => rfl
      | false => exact absurd ⟨Tid.t0, by simp [State.pc, PC.active, h]⟩ hn
    · cases h : s.t1.quiet with
      | true => rfl
      | false => exact absurd ⟨Tid.t1, by simp [State.pc, PC.active, h]⟩ hn
  obtain ⟨t, _, h⟩ := no_deadlock_started hr ha
  exact ⟨t, h⟩

/-! ## 5. mutual exclusion -/

/-- In this instance, for all interleavings: the holder recorded in each lock word is exactly the
    thread whose program counter says it holds that lock (`PC.holds`). Since acquisitions are
    guarded by `= none` and releases are unguarded stores of `none`, this says that every release
    is performed by the holder and nobody proceeds past an acquisition without the lock. -/
theorem lock_owner_agrees {cfg : Cfg} {s : State} (hr : Reach cfg s) (t : Tid) (l : LockId) :
    l ∈ s.held t ↔ s.lockOf l = some t := by
  have key : ∀ cfg : Cfg, ∀ s ∈ litStates cfg, ∀ t ∈ tids, ∀ l ∈ lockIds,
      l ∈ s.held t ↔ s.lockOf l = some t := by
    intro cfg
    cases cfg with
    | mk f => cases f <;> decide +kernel
  exact of_all (key cfg) hr t (mem_tids t) l (mem_lockIds l)

/-- In this instance, for all interleavings: each node lock and the root lock has at most one
    holder. (For which fields a step writes and under which lock, see `writeSet_frame`,
    `writes_under_lock`, `no_write_to_retired` below.) -/
theorem mutual_exclusion {cfg : Cfg} {s : State} (hr : Reach cfg s) (l : LockId) (t t' : Tid)
    (h : l ∈ s.held t) (h' : l ∈ s.held t') : t = t' := by
  have e := (lock_owner_agrees hr t l).mp h
  have e' := (lock_owner_agrees hr t' l).mp h'
  rw [e] at e'
  exact Option.some.inj e'

/-! ## 6. the final shape -/

/-- In this instance, for all interleavings, with or without the repair: when both removes are
    done, exactly one leaf `L` is retired, `I` is retired (deleted, no longer root), and `root_ptr`
    is the other leaf, which is unlocked, marked deleted, flagged root and has no parent: the
    "remain empty deleted root node" outcome of `border_node.h:169-179`. -/
theorem both_done_shape {cfg : Cfg} {s : State} (hr : Reach cfg s) (hd : bothDone s) :
    s.retI = true ∧ s.i.deleted = true ∧ s.i.root = false ∧
    ∃ L : Leaf, s.leafRetired L = true ∧ s.leafRetired L.other = false ∧
      s.rootPtr = L.other.node ∧ (s.leaf L.other).deleted = true ∧
      (s.leaf L.other).root = true ∧ (s.leaf L.other).parent = false ∧
      (s.leaf L).root = false := by
  have key : ∀ cfg : Cfg, ∀ s ∈ litStates cfg, bothDone s →
      s.retI = true ∧ s.i.deleted = true ∧ s.i.root = false ∧
      ∃ L ∈ leaves, s.leafRetired L = true ∧ s.leafRetired L.other = false ∧
        s.rootPtr = L.other.node ∧ (s.leaf L.other).deleted = true ∧
        (s.leaf L.other).root = true ∧ (s.leaf L.other).parent = false ∧
        (s.leaf L).root = false := by
    intro cfg
    cases cfg with
    | mk f => cases f <;> decide +kernel
  obtain ⟨h1, h2, h3, L, _, h⟩ := of_all (key cfg) hr hd
  exact ⟨h1, h2, h3, L, h⟩

/-! ## extras -/

/-- The two retry branches of `lock_parent` on the root-lock path are dead in this instance: a
    thread that has taken the root lock at line 7 finds `root_ptr = X` at line 8, and the thread
    collapsing `I` finds `root_ptr = I` at line 12'. (The `else` branches are in `stepT` anyway.) -/
theorem root_retry_dead {cfg : Cfg} {s : State} (hr : Reach cfg s) (t : Tid) :
    (s.pc t = .chkParent false → s.rootPtr = t.own.node) ∧ (s.pc t = .promote → s.rootPtr = .I) := by
  have key : ∀ cfg : Cfg, ∀ s ∈ litStates cfg, ∀ t ∈ tids,
      (s.pc t = .chkParent false → s.rootPtr = t.own.node) ∧
      (s.pc t = .promote → s.rootPtr = .I) := by
    intro cfg
    cases cfg with
    | mk f => cases f <;> decide +kernel
  exact of_all (key cfg) hr t (mem_tids t)

/-- In this instance, for all interleavings: `I` is retired together with exactly one leaf (at most
    one of the two removes goes through lines 9'..12'). -/
theorem one_collapser {cfg : Cfg} {s : State} (hr : Reach cfg s) :
    s.retI = true → (s.retA = true ∧ s.retB = false) ∨ (s.retA = false ∧ s.retB = true) := by
  have key : ∀ cfg : Cfg, ∀ s ∈ litStates cfg,
      s.retI = true → (s.retA = true ∧ s.retB = false) ∨ (s.retA = false ∧ s.retB = true) := by
    intro cfg
    cases cfg with
    | mk f => cases f <;> decide +kernel
  exact of_all (key cfg) hr

/-! ### which nodes a step writes (second half of 5, as far as it is formal) -/

def State.retired (s : State) : Node → Bool
  | .I => s.retI
  | .A => s.retA
  | .B => s.retB

/-- the nodes whose fields OTHER THAN THE LOCK BIT the next line of thread `t` may store to
    (`stayRoot` stores only when `cfg.fix`); justified by `writeSet_frame` -/
def writeSet (s : State) (t : Tid) : List Node :=
  let X := t.own
  let x := s.leaf X
  match s.pc t with
  | .markDel | .stayRoot | .leave => [X.node]
  | .chkPrev p =>
    if (s.leaf p).deleted = true ∨ x.prev ≠ some p then []
    else p.node :: (match x.next with
      | some n => [n.node]
      | none => [])
  | .noPrev =>
    match x.next with
    | some n => [n.node]
    | none => []
  | .intDel => [.I]
  | .promote => if s.rootPtr = .I then [.I, X.other.node] else []
  | _ => []

/-- the fields of node `n`, lock bit excluded, are the same in `s` and `s'` -/
def sameData (s s' : State) : Node → Bool
  | .I => s.i.deleted == s'.i.deleted && s.i.root == s'.i.root
  | .A => decide ({ s.a with lock := none } = { s'.a with lock := none })
  | .B => decide ({ s.b with lock := none } = { s'.b with lock := none })

def nodes : List Node := [.I, .A, .B]

theorem mem_nodes (n : Node) : n ∈ nodes := by cases n <;> simp [nodes]

/-- In every reachable state of this instance, a step changes no field (lock bits aside) of a
    node outside `writeSet`. -/
theorem writeSet_frame {cfg : Cfg} {s s' : State} (hr : Reach cfg s) (t : Tid) (n : Node)
    (h : step? cfg s (.step t) = some s') (hn : n ∉ writeSet s t) : sameData s s' n = true := by
  have key : ∀ cfg : Cfg, ∀ s ∈ litStates cfg, ∀ t ∈ tids, ∀ n ∈ nodes, n ∉ writeSet s t →
      ∀ s' ∈ (step? cfg s (.step t)).toList, sameData s s' n = true := by
    intro cfg
    cases cfg with
    | mk f => cases f <;> decide +kernel
  exact of_all (key cfg) hr t (mem_tids t) n (mem_nodes n) hn s' (by simp [h])

/-- In this instance, for all interleavings: no step stores to a field of a retired node. The only
    accesses to retired nodes are lock / unlock of the version word (line 4 on a retired `prev`
    that then fails the `deleted` test of line 5, and line 7/8' on the retired `I` by the thread
    that read `q = I` before the collapse), which epoch-based reclamation keeps safe. -/
theorem no_write_to_retired {cfg : Cfg} {s : State} (hr : Reach cfg s) (t : Tid) (n : Node)
    (hn : n ∈ writeSet s t) : s.retired n = false := by
  have key : ∀ cfg : Cfg, ∀ s ∈ litStates cfg, ∀ t ∈ tids, ∀ n ∈ writeSet s t,
      s.retired n = false := by
    intro cfg
    cases cfg with
    | mk f => cases f <;> decide +kernel
  exact of_all (key cfg) hr t (mem_tids t) n hn

/-- In this instance, for all interleavings: a step stores to a leaf's fields only while holding
    that leaf's lock, with two exceptions, both in the code: the `prev` of `X.next` at lines 5/5'
    (`border_node.h:158,163`, guarded by the lock of `X` and of `X.prev` only) and the promoted
    sibling at line 12' (`interior_helper.h:197,199`, guarded by the root lock); and it stores to
    `I` only while holding `I`'s lock. -/
theorem writes_under_lock {cfg : Cfg} {s : State} (hr : Reach cfg s) (t : Tid) :
    (∀ L : Leaf, L.node ∈ writeSet s t → (s.leaf L).lock = some t ∨
      (some L = (s.leaf t.own).next ∧ (s.pc t = .noPrev ∨ ∃ p, s.pc t = .chkPrev p)) ∨
      (L = t.own.other ∧ s.pc t = .promote ∧ s.rootLock = some t)) ∧
    (Node.I ∈ writeSet s t → s.i.lock = some t) := by
  have key : ∀ cfg : Cfg, ∀ s ∈ litStates cfg, ∀ t ∈ tids,
      (∀ L ∈ leaves, L.node ∈ writeSet s t → (s.leaf L).lock = some t ∨
        (some L = (s.leaf t.own).next ∧ (s.pc t = .noPrev ∨ ∃ p ∈ leaves, s.pc t = .chkPrev p)) ∨
        (L = t.own.other ∧ s.pc t = .promote ∧ s.rootLock = some t)) ∧
      (Node.I ∈ writeSet s t → s.i.lock = some t) := by
    intro cfg
    cases cfg with
    | mk f => cases f <;> decide +kernel
  have h := of_all (key cfg) hr t (mem_tids t)
  refine ⟨fun L hL => ?_, h.2⟩
  rcases h.1 L (mem_leaves L) hL with h1 | ⟨h2, h3⟩ | h4
  · exact Or.inl h1
  · refine Or.inr (Or.inl ⟨h2, ?_⟩)
    rcases h3 with h3 | ⟨p, _, hp⟩
    · exact Or.inl h3
    · exact Or.inr ⟨p, hp⟩
  · exact Or.inr (Or.inr h4)

/-! ## 7. liveness-flavoured facts: no trap, solo termination, retries need interference

Still the same finite instance, all interleavings. None of this is a fairness result: the
theorems say that a finishing continuation EXISTS from every reachable state, that a thread
running undisturbed leaves its loops, and in which states a retry edge can be taken at all. -/

/-- a claimed upper bound, for the state coded by the key at the same position of `keys cfg`, on
    the number of steps needed to reach a state with both threads done (the same list serves both
    values of `cfg.fix`). Printed by a backward breadth-first search; not trusted: `finChk`. -/
def distTable : List Nat :=
  [9, 10, 11, 12, 13, 14, 15, 8, 9, 10, 11, 12, 13, 14, 7, 8, 9, 10, 11, 12, 13, 6, 7, 8, 9, 10,
   11, 12, 5, 6, 7, 8, 9, 10, 11, 0, 1, 2, 3, 4, 5, 6, 7, 8, 9, 10, 11, 12, 11, 10, 9, 8, 5, 6, 7,
   0, 1, 2, 3, 4, 5, 6, 7, 8, 9, 10, 11, 12, 13, 14, 15, 16, 17, 18, 18, 19, 19, 17, 18, 18, 16,
   17, 11, 10, 9, 8, 9, 10, 11, 12, 13, 14, 15, 16, 17, 15, 16, 5, 6, 7, 8, 9, 10, 11, 12, 13, 14,
   15, 0, 1, 2, 3, 4, 5, 6, 7, 8, 9, 10, 11, 12, 11, 12, 13, 14, 11, 10, 11, 12, 13, 10, 9, 10, 11,
   12, 9, 8, 9, 10, 11, 8, 7, 8, 9, 10, 5, 6, 7, 6, 7, 8, 9, 0, 1, 2, 3, 4, 5, 6, 7, 8, 9, 10, 11,
   12, 13, 14, 15, 16, 17, 18, 19, 20]

/-- `(key, claimed distance)` -/
def ranked (cfg : Cfg) : List (Nat × Nat) := (keys cfg).zip distTable

/-- every entry is either a both-done state or has a successor with a strictly smaller entry -/
def finChk (cfg : Cfg) (tbl : List (Nat × Nat)) : Bool :=
  tbl.all fun kr => decide (bothDone (decode kr.1)) ||
    (succs cfg (decode kr.1)).any fun s' =>
      tbl.any fun kr' => decide (kr'.1 = encode s') && decide (kr'.2 < kr.2)

theorem fin_path {cfg : Cfg} {tbl : List (Nat × Nat)} (h : finChk cfg tbl = true) :
    ∀ (n : Nat), ∀ kr ∈ tbl, kr.2 < n →
      ∃ es s', exec cfg (decode kr.1) es = some s' ∧ bothDone s' ∧ es.length ≤ kr.2
  | 0, _, _, hlt => absurd hlt (Nat.not_lt_zero _)
  | n + 1, kr, hkr, hlt => by
    have h0 := List.all_eq_true.mp h kr hkr
    rcases Bool.or_eq_true_iff.mp h0 with hd | hs
    · exact ⟨[], decode kr.1, rfl, of_decide_eq_true hd, Nat.zero_le _⟩
    · obtain ⟨s1, hs1, h2⟩ := List.any_eq_true.mp hs
      obtain ⟨kr', hkr', h3⟩ := List.any_eq_true.mp h2
      have h4 := Bool.and_eq_true_iff.mp h3
      have hk : kr'.1 = encode s1 := of_decide_eq_true h4.1
      have hr : kr'.2 < kr.2 := of_decide_eq_true h4.2
      obtain ⟨es, s', hex, hd, hlen⟩ := fin_path h n kr' hkr' (by omega)
      rw [hk, decode_encode] at hex
      obtain ⟨e, he⟩ := succs_step hs1
      refine ⟨e :: es, s', ?_, hd, ?_⟩
      · show (step? cfg (decode kr.1) e).bind (fun s' => exec cfg s' es) = some s'
        rw [he]
        exact hex
      · simp only [List.length_cons]
        omega

theorem ranked_ok (cfg : Cfg) : finChk cfg (ranked cfg) = true ∧
    (ranked cfg).map (·.1) = keys cfg ∧ ∀ kr ∈ ranked cfg, kr.2 ≤ 20 := by
  cases cfg with
  | mk f => cases f <;> decide +kernel

/-- In this instance: from EVERY reachable state some continuation of at most 20 steps ends with
    both removes done. No reachable state is a trap; in particular each of the retry loops (lines
    3-5, 7-8, 7-8') can be left from every state in which a thread is inside it. This is an
    existence statement (no scheduler assumption, no fairness claim). -/
theorem can_finish_both {cfg : Cfg} {s : State} (hr : Reach cfg s) :
    ∃ es s', exec cfg s es = some s' ∧ bothDone s' ∧ es.length ≤ 20 := by
  obtain ⟨k, hk, rfl⟩ := List.mem_map.mp (reach_mem hr)
  obtain ⟨hchk, hkeys, hbound⟩ := ranked_ok cfg
  rw [← hkeys] at hk
  obtain ⟨kr, hkr, rfl⟩ := List.mem_map.mp hk
  have hb := hbound kr hkr
  obtain ⟨es, s', hex, hd, hlen⟩ := fin_path hchk 21 kr hkr (by omega)
  exact ⟨es, s', hex, hd, by omega⟩

/-- The form asked for, a corollary of `can_finish_both` (both done is a quiescent state): from
    every reachable state some continuation reaches a quiescent state. -/
theorem can_always_finish {cfg : Cfg} {s : State} (hr : Reach cfg s) :
    ∃ es s', exec cfg s es = some s' ∧ quiescent s' := by
  obtain ⟨es, s', hex, hd, _⟩ := can_finish_both hr
  refine ⟨es, s', hex, ?_, ?_⟩
  · rw [hd.1]; rfl
  · rw [hd.2]; rfl

/-! ### a thread running alone -/

def Tid.other : Tid → Tid
  | .t0 => .t1
  | .t1 => .t0

/-- the lock a thread owning leaf `X` tries to take at program point `pc` (lines 1, 4, 7, 11') -/
def PC.wants (X : Leaf) : PC → Option LockId
  | .idle => some (.leaf X)
  | .lockPrev p => some (.leaf p)
  | .acqParent true => some .int
  | .acqParent false => some .root
  | .intRootLock => some .root
  | _ => none

/-- run only thread `t` until it has no enabled step; `none` = still enabled after `fuel + 1`
    steps. Returns the number of steps taken and the state reached. -/
def solo (cfg : Cfg) (t : Tid) : Nat → State → Option (Nat × State)
  | 0, s =>
    match step? cfg s (.step t) with
    | none => some (0, s)
    | some _ => none
  | n + 1, s =>
    match step? cfg s (.step t) with
    | none => some (0, s)
    | some s1 =>
      match solo cfg t n s1 with
      | some r => some (r.1 + 1, r.2)
      | none => none

theorem solo_spec (cfg : Cfg) (t : Tid) : ∀ (n : Nat) (s : State) (m : Nat) (s' : State),
    solo cfg t n s = some (m, s') →
    m ≤ n ∧ exec cfg s (List.replicate m (.step t)) = some s' ∧ step? cfg s' (.step t) = none
  | 0, s, m, s', h => by
    unfold solo at h
    split at h
    · next hn =>
      simp only [Option.some.injEq, Prod.mk.injEq] at h
      obtain ⟨rfl, rfl⟩ := h
      exact ⟨Nat.le_refl _, rfl, hn⟩
    · cases h
  | n + 1, s, m, s', h => by
    unfold solo at h
    split at h
    · next hn =>
      simp only [Option.some.injEq, Prod.mk.injEq] at h
      obtain ⟨rfl, rfl⟩ := h
      exact ⟨Nat.zero_le _, rfl, hn⟩
    · next s1 hs1 =>
      split at h
      · next r hr =>
        simp only [Option.some.injEq, Prod.mk.injEq] at h
        obtain ⟨rfl, rfl⟩ := h
        obtain ⟨h1, h2, h3⟩ := solo_spec cfg t n s1 r.1 r.2 hr
        refine ⟨Nat.succ_le_succ h1, ?_, h3⟩
        show (step? cfg s (.step t)).bind (fun s' => exec cfg s' (List.replicate r.1 (.step t))) = _
        rw [hs1]
        exact h2
      · cases h

theorem solo_key (cfg : Cfg) : ∀ s ∈ litStates cfg, ∀ t ∈ tids, ∃ r ∈ (solo cfg t 12 s).toList,
    (r.2.pc t = .done ∨
      ∃ l ∈ lockIds, (r.2.pc t).wants t.own = some l ∧ r.2.lockOf l = some t.other) ∧
    ((s.pc t.other).quiet = true → r.2.pc t = .done) := by
  cases cfg with
  | mk f => cases f <;> decide +kernel

/-- In this instance: from every reachable state, for either thread `t`, running ONLY `t` stops
    after at most 12 steps, and it stops either because `t` is done or because `t` waits for a lock
    that the OTHER thread holds (never for a lock it holds itself). So no loop of the protocol
    (3-5, 7-8, 7-8', 11'-12') can spin when the thread runs undisturbed. -/
theorem solo_run_halts {cfg : Cfg} {s : State} (hr : Reach cfg s) (t : Tid) :
    ∃ n s', n ≤ 12 ∧ exec cfg s (List.replicate n (.step t)) = some s' ∧
      step? cfg s' (.step t) = none ∧
      (s'.pc t = .done ∨
        ∃ l, (s'.pc t).wants t.own = some l ∧ s'.lockOf l = some t.other) := by
  obtain ⟨r, hmem, hA, _⟩ := solo_key cfg s (reach_mem hr) t (mem_tids t)
  have hsolo : solo cfg t 12 s = some (r.1, r.2) := by simpa using hmem
  obtain ⟨h1, h2, h3⟩ := solo_spec cfg t 12 s r.1 r.2 hsolo
  refine ⟨r.1, r.2, h1, h2, h3, ?_⟩
  rcases hA with hd | ⟨l, _, hl⟩
  · exact Or.inl hd
  · exact Or.inr ⟨l, hl⟩

/-- In this instance: from every reachable state in which the other thread is not started or
    done, running ONLY `t` brings `t` to `done` within 12 steps (this includes starting from
    `idle`). This is the true form of "every thread can finish alone": when the other thread is
    in the middle of its remove, `t` running alone may instead stop at a lock the other thread
    holds (`solo_run_halts`). -/
theorem every_thread_can_finish_alone {cfg : Cfg} {s : State} (hr : Reach cfg s) (t : Tid)
    (hq : (s.pc t.other).quiet = true) :
    ∃ n s', n ≤ 12 ∧ exec cfg s (List.replicate n (.step t)) = some s' ∧ s'.pc t = .done := by
  obtain ⟨r, hmem, _, hB⟩ := solo_key cfg s (reach_mem hr) t (mem_tids t)
  have hsolo : solo cfg t 12 s = some (r.1, r.2) := by simpa using hmem
  obtain ⟨h1, h2, _⟩ := solo_spec cfg t 12 s r.1 r.2 hsolo
  exact ⟨r.1, r.2, h1, h2, hB hq⟩

/-! ### retry edges and a progress measure -/

/-- the backward edges of the listing: 5 → 3 (`goto retry_prev_lock`), 8 → 7 and 8' → 7 (the
    `continue` / loop of `lock_parent`), 12' → 11' (the same loop inside `lock_parent(I)`) -/
def retryEdge : PC → PC → Bool
  | .chkPrev _, .readPrev => true
  | .chkParent _, .acqParent _ => true
  | .promote, .intRootLock => true
  | _, _ => false

theorem retry_key (cfg : Cfg) : ∀ s ∈ litStates cfg, ∀ t ∈ tids,
    ∀ s' ∈ (step? cfg s (.step t)).toList, retryEdge (s.pc t) (s'.pc t) = true →
      s.pc t.other = .intDel ∨ s.pc t.other = .intRootLock ∨ s.pc t.other = .promote ∨
      s.pc t.other = .done := by
  cases cfg with
  | mk f => cases f <;> decide +kernel

/-- In this instance: a retry edge is taken only when the other thread has already executed line
    9' (it is collapsing `I`, or has finished). -/
theorem retry_only_after_leave {cfg : Cfg} {s s' : State} (hr : Reach cfg s) (t : Tid)
    (h : step? cfg s (.step t) = some s') (he : retryEdge (s.pc t) (s'.pc t) = true) :
    s.pc t.other = .intDel ∨ s.pc t.other = .intRootLock ∨ s.pc t.other = .promote ∨
    s.pc t.other = .done :=
  retry_key cfg s (reach_mem hr) t (mem_tids t) s' (by simp [h]) he

/-- In this instance: a thread takes a retry edge only in a state where the other thread has
    started; a thread running while the other one is idle never retries. -/
theorem retry_needs_interference {cfg : Cfg} {s s' : State} (hr : Reach cfg s) (t : Tid)
    (h : step? cfg s (.step t) = some s') (he : retryEdge (s.pc t) (s'.pc t) = true) :
    s.pc t.other ≠ .idle := by
  intro hi
  rcases retry_only_after_leave hr t h he with h1 | h1 | h1 | h1 <;> rw [hi] at h1 <;> cases h1

/-- position in the program text, counted from the end -/
def pcRank : PC → Nat
  | .idle => 15 | .markDel => 14 | .readPrev => 13 | .lockPrev _ => 12 | .chkPrev _ => 11
  | .noPrev => 11 | .readParent => 10 | .acqParent true => 9 | .chkParent true => 8 | .leave => 7
  | .acqParent false => 7 | .intDel => 6 | .chkParent false => 6 | .intRootLock => 5
  | .stayRoot => 5 | .promote => 4 | .stayUnlock => 4 | .done => 0

def rank (s : State) : Nat := pcRank s.t0 + pcRank s.t1

/-- In this instance: every step from a reachable state either is a retry edge or strictly
    decreases `rank` (which is at most 30). Hence an execution is infinite only if it takes retry
    edges infinitely often, and by `retry_only_after_leave` those need the other thread to be past
    line 9'. (This does not bound the number of retries; `can_finish_both` and `solo_run_halts` are
    the statements about leaving the loops.) -/
theorem progress_measure {cfg : Cfg} {s s' : State} (hr : Reach cfg s) (t : Tid)
    (h : step? cfg s (.step t) = some s') :
    retryEdge (s.pc t) (s'.pc t) = true ∨ rank s' < rank s := by
  have key : ∀ cfg : Cfg, ∀ s ∈ litStates cfg, ∀ t ∈ tids,
      ∀ s' ∈ (step? cfg s (.step t)).toList,
        retryEdge (s.pc t) (s'.pc t) = true ∨ rank s' < rank s := by
    intro cfg
    cases cfg with
    | mk f => cases f <;> decide +kernel
  exact of_all (key cfg) hr t (mem_tids t) s' (by simp [h])

end Yak.Proto.Collapse
