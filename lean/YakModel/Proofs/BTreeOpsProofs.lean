import YakModel.BTreeOps
import YakModel.Proofs.RouteProofs
import YakModel.Proofs.LayerLemmas
/-!
# The structural insert / remove of `BTreeOps` against the flattened leaf chain

`BTreeOps.insertB` / `removeB` mirror what the C++ does to one layer's B+-tree, interior nodes
included, and are tied to the implementation by the differential check `stepCheck` on every dump of
the sequential transcripts. This file connects them with the interior-free proof model, which works
on the flattened chain `chainOf t none`:

1. `insertB_chain`        — the chain of `insertB t e` is the chain of `t` with `e` placed at its rank
                            in the leaf the fence rule picks, or with that (full) leaf split in two
                            (`Tree.insertInto`'s leaf split);
2. `insertB_keeps_check`  — `checkInteriors`, `Route.fencesSorted` and all order facts of `checkChain`
                            (`ChainOrd`) survive;
3. `removeB_chain`        — the chain of `removeB t kt` is the chain of `t` without the tuple; an emptied
                            non-root leaf disappears, and its right neighbour takes over its fence
                            exactly when it was child 0 of its parent (`leafIdx t kt = some 0`);
4. `removeB_keeps_check`;
5. `Example`              — closed instances: root split (both sides), interior split (both sides),
                            unlink of child 0 / middle / last, collapse at the root and below it.

Hypotheses: `IntOK t` (⇔ `checkInteriors t = true`) and `ChainOrd (chainOf t none) none` (the order
part of `checkChain`); both follow from `checkLayer pfx t = true` (`chainOrd_of_checkLayer`), and the
`…_checked` variants are stated with `checkLayer`.

Structure of the proofs: `ins_spec` / `rem_spec` are inductions on the node count with explicit
bounds `lo`, `hi` of the subtree; the child taken by `routeIdx` is isolated with
`routeIdx_decomp` + `chainCh_focus`, `interiorAdd_spec` does `interior_node::insert` /
`interior_split` on lists, `leafIns_spec` does `border_split`.
-/
namespace Yak.BTreeOps
open Yak Yak.Shape Yak.Route
open Yak.Tree (lt_asymm lt_ne le_lt_trans lt_le_trans len_ne_zero_of_lt)

/-! ### lists -/

theorem insAt_length {α} (l : List α) (i : Nat) (x : α) : (insAt l i x).length = l.length + 1 := by
  unfold insAt
  simp only [List.length_append, List.length_cons, List.length_take, List.length_drop]
  omega

theorem insAt_append_length {α} (a b : List α) (x : α) : insAt (a ++ b) a.length x = a ++ x :: b := by
  simp [insAt]

theorem insAt_append_length' {α} (a b : List α) (x : α) (n : Nat) (h : n = a.length) :
    insAt (a ++ b) n x = a ++ x :: b := by
  subst h; exact insAt_append_length a b x

theorem insAt_append_succ {α} (a b : List α) (y x : α) (n : Nat) (h : n = a.length + 1) :
    insAt (a ++ y :: b) n x = a ++ y :: x :: b := by
  have : a ++ y :: b = (a ++ [y]) ++ b := by simp
  rw [this, insAt_append_length' (a ++ [y]) b x n (by simp [h])]
  simp

theorem eraseIdx_append_length {α} (a b : List α) (x : α) (n : Nat) (h : n = a.length) :
    (a ++ x :: b).eraseIdx n = a ++ b := by
  subst h
  induction a with
  | nil => rfl
  | cons y ys ih => simp [ih]

/-- a list split at a position -/
theorem exists_split_at {α} (l : List α) (i : Nat) (h : i < l.length) :
    ∃ a c b, l = a ++ c :: b ∧ a.length = i := by
  refine ⟨l.take i, l[i], l.drop (i + 1), ?_, ?_⟩
  · rw [List.getElem_cons_drop, List.take_append_drop]
  · rw [List.length_take]; omega

/-! ### the chain of a child list, decomposed -/

/-- the lower bound of the child that follows the separators `ka` -/
def lastOr (lo : Option KT) (ka : List KT) : Option KT :=
  match ka.getLast? with
  | some k => some k
  | none => lo

theorem lastOr_nil (lo : Option KT) : lastOr lo [] = lo := rfl

theorem lastOr_cons (lo : Option KT) (k : KT) (ka : List KT) : lastOr lo (k :: ka) = lastOr (some k) ka := by
  cases ka with
  | nil => rfl
  | cons x xs =>
    unfold lastOr
    rw [List.getLast?_cons_cons]
    cases h : (x :: xs).getLast? with
    | none => simp at h
    | some y => rfl

theorem lastOr_append_singleton (lo : Option KT) (ka : List KT) (k : KT) :
    lastOr lo (ka ++ [k]) = some k := by
  simp [lastOr]

theorem chainCh_nil (ks : List KT) (lo : Option KT) : chainOfChildren [] ks lo = [] := by
  simp [chainOfChildren]

theorem chainCh_cons (c : BTree) (cs : List BTree) (ks : List KT) (lo : Option KT) :
    chainOfChildren (c :: cs) ks lo = chainOf c lo ++ chainOfChildren cs ks.tail ks.head? := by
  simp [chainOfChildren]

theorem chainCh_append : ∀ (ca : List BTree) (ka : List KT) (cb : List BTree) (kb : List KT)
    (lo : Option KT), ca.length = ka.length →
    chainOfChildren (ca ++ cb) (ka ++ kb) lo =
      chainOfChildren ca ka lo ++ chainOfChildren cb kb (lastOr lo ka)
  | [], [], cb, kb, lo, _ => by simp [chainCh_nil, lastOr_nil]
  | [], _ :: _, _, _, _, h => by simp at h
  | _ :: _, [], _, _, _, h => by simp at h
  | c :: ca, k :: ka, cb, kb, lo, h => by
    have h' : ca.length = ka.length := by simpa using h
    simp only [List.cons_append, chainCh_cons, List.tail_cons, List.head?_cons]
    rw [chainCh_append ca ka cb kb (some k) h', lastOr_cons, List.append_assoc]

/-- separators beyond the last child are not looked at -/
theorem chainCh_extra : ∀ (cs : List BTree) (ks extra : List KT) (lo : Option KT),
    cs.length ≤ ks.length + 1 → chainOfChildren cs (ks ++ extra) lo = chainOfChildren cs ks lo
  | [], _, _, _, _ => by simp [chainCh_nil]
  | c :: cs, [], extra, lo, h => by
    have : cs = [] := by
      cases cs with
      | nil => rfl
      | cons _ _ => simp at h
    subst this
    simp [chainCh_cons, chainCh_nil]
  | c :: cs, k :: ks, extra, lo, h => by
    have h' : cs.length ≤ ks.length + 1 := by simpa using h
    simp only [List.cons_append, chainCh_cons, List.tail_cons, List.head?_cons]
    rw [chainCh_extra cs ks extra (some k) h']

/-- the chain of a child list around the child at position `ka.length` -/
theorem chainCh_focus (ca : List BTree) (c : BTree) (cb : List BTree) (ka kb : List KT)
    (lo : Option KT) (h : ca.length = ka.length) :
    chainOfChildren (ca ++ c :: cb) (ka ++ kb) lo =
      chainOfChildren ca ka lo ++ (chainOf c (lastOr lo ka) ++ chainOfChildren cb kb.tail kb.head?) := by
  rw [chainCh_append ca ka (c :: cb) kb lo h, chainCh_cons]

/-- splitting an interior node: left part, pivot, right part -/
theorem chainCh_split (c1 c2 : List BTree) (k1 k2 : List KT) (p : KT) (lo : Option KT)
    (h : c1.length = k1.length + 1) :
    chainOfChildren (c1 ++ c2) (k1 ++ p :: k2) lo =
      chainOfChildren c1 k1 lo ++ chainOfChildren c2 k2 (some p) := by
  have e : k1 ++ p :: k2 = (k1 ++ [p]) ++ k2 := by simp
  rw [e, chainCh_append c1 (k1 ++ [p]) c2 k2 lo (by simp [h]), lastOr_append_singleton,
    chainCh_extra c1 k1 [p] lo (by omega)]

/-- the lower bound only shows in the first leaf's fence -/
def setHeadFence (f : Option KT) : List DLeaf → List DLeaf
  | [] => []
  | l :: rest => { l with fence := f } :: rest

theorem chainOf_ne_nil (t : BTree) (lo : Option KT) (h : RouteWF t) : chainOf t lo ≠ [] := by
  obtain ⟨v, e, rest, hc, _⟩ := chainOf_shape t lo h
  rw [hc]; simp

mutual
theorem chainOf_lo : ∀ (t : BTree) (lo lo' : Option KT), RouteWF t →
    chainOf t lo' = setHeadFence lo' (chainOf t lo)
  | .border v ents, lo, lo', _ => by simp [chainOf, setHeadFence]
  | .interior v ks cs, lo, lo', h => by
    simp only [RouteWF] at h
    simp only [chainOf]
    exact chainCh_lo cs ks lo lo' h.2.2.2
theorem chainCh_lo : ∀ (cs : List BTree) (ks : List KT) (lo lo' : Option KT), RouteWFList cs →
    chainOfChildren cs ks lo' = setHeadFence lo' (chainOfChildren cs ks lo)
  | [], ks, lo, lo', _ => by simp [chainCh_nil, setHeadFence]
  | c :: cs, ks, lo, lo', h => by
    simp only [RouteWFList] at h
    rw [chainCh_cons, chainCh_cons, chainOf_lo c lo lo' h.1]
    cases hc : chainOf c lo with
    | nil => exact absurd hc (chainOf_ne_nil c lo h.1)
    | cons l rest => simp [setHeadFence]
end

/-! ### order on tuples, bounds -/

/-- `lo ≤ k` (no bound = −∞) -/
def geLo (lo : Option KT) (k : KT) : Prop := ∀ f, lo = some f → KT.ltSpec k f = false
/-- `lo < k` -/
def gtLo (lo : Option KT) (k : KT) : Prop := ∀ f, lo = some f → KT.ltSpec f k = true
/-- `k < hi` (no bound = +∞) -/
def ltHi (k : KT) (hi : Option KT) : Prop := ∀ h, hi = some h → KT.ltSpec k h = true

theorem lt_trans' {a b c : KT} (h1 : KT.ltSpec a b = true) (h2 : KT.ltSpec b c = true) :
    KT.ltSpec a c = true := KT.ltSpec_trans a b c h1 h2

/-- in a strictly increasing list every element is the last one or below it -/
theorem le_last_of_sorted : ∀ (ks : List KT) (z : KT), ks.Pairwise (fun a b => KT.ltSpec a b = true) →
    ks.getLast? = some z → ∀ x ∈ ks, x = z ∨ KT.ltSpec x z = true
  | [], _, _, h, _, _ => by simp at h
  | [a], z, _, h, x, hx => by
    simp at h hx; subst h; exact Or.inl hx
  | a :: b :: rest, z, hs, h, x, hx => by
    rw [List.getLast?_cons_cons] at h
    rw [List.pairwise_cons] at hs
    have hz : z ∈ b :: rest := List.mem_of_getLast? h
    rcases List.mem_cons.mp hx with e | e
    · subst e; exact Or.inr (hs.1 z hz)
    · exact le_last_of_sorted (b :: rest) z hs.2 h x e

/-- in a strictly increasing list every element is the first one or above it -/
theorem ge_head_of_sorted (h : KT) (ks : List KT) (hs : (h :: ks).Pairwise (fun a b => KT.ltSpec a b = true)) :
    ∀ x ∈ h :: ks, x = h ∨ KT.ltSpec h x = true := by
  intro x hx
  rcases List.mem_cons.mp hx with e | e
  · exact Or.inl e
  · exact Or.inr ((List.pairwise_cons.mp hs).1 x e)

/-- `sortedKTs` (neighbours, `key_tuple::operator<`) on well-formed tuples = pairwise `ltSpec` -/
theorem pairwise_of_sortedKTs : ∀ (ks : List KT), (∀ k ∈ ks, k.WF) → sortedKTs ks = true →
    ks.Pairwise (fun a b => KT.ltSpec a b = true)
  | [], _, _ => List.Pairwise.nil
  | [a], _, _ => by simp
  | a :: b :: rest, hw, h => by
    simp only [sortedKTs, Bool.and_eq_true, ktLt] at h
    have ih := pairwise_of_sortedKTs (b :: rest) (fun k hk => hw k (by simp [hk])) h.2
    have hab : KT.ltSpec a b = true := by
      rw [← KT.lt_eq_ltSpec a b (hw a (by simp)) (hw b (by simp))]; exact h.1
    rw [List.pairwise_cons]
    refine ⟨?_, ih⟩
    intro x hx
    rcases ge_head_of_sorted b rest ih x hx with e | e
    · rw [e]; exact hab
    · exact lt_trans' hab e

theorem sortedKTs_of_pairwise : ∀ (ks : List KT), (∀ k ∈ ks, k.WF) →
    ks.Pairwise (fun a b => KT.ltSpec a b = true) → sortedKTs ks = true
  | [], _, _ => rfl
  | [a], _, _ => rfl
  | a :: b :: rest, hw, h => by
    rw [List.pairwise_cons] at h
    simp only [sortedKTs, Bool.and_eq_true, ktLt]
    refine ⟨?_, sortedKTs_of_pairwise (b :: rest) (fun k hk => hw k (by simp [hk])) h.2⟩
    rw [KT.lt_eq_ltSpec a b (hw a (by simp)) (hw b (by simp))]
    exact h.1 b (by simp)

/-! ### well-formed interior structure as a proposition -/

mutual
/-- what `checkInteriors` evaluates, with the order stated pairwise -/
def IntOK : BTree → Prop
  | .border _ ents => ents.length ≤ 15
  | .interior v keys children =>
    1 ≤ keys.length ∧ keys.length ≤ 15 ∧ children.length = keys.length + 1 ∧
    keys.Pairwise (fun a b => KT.ltSpec a b = true) ∧ (∀ k ∈ keys, k.WF ∧ k.len ≠ 0) ∧
    v.flags % 16 = 0 ∧ IntOKList children
def IntOKList : List BTree → Prop
  | [] => True
  | c :: cs => IntOK c ∧ IntOKList cs
end

theorem intOKList_iff (cs : List BTree) : IntOKList cs ↔ ∀ c ∈ cs, IntOK c := by
  induction cs with
  | nil => simp [IntOKList]
  | cons c cs ih => simp [IntOKList, ih]

mutual
theorem intOK_iff_check : ∀ (t : BTree), IntOK t ↔ checkInteriors t = true
  | .border _ ents => by simp [IntOK, checkInteriors]
  | .interior v ks cs => by
    simp only [IntOK, checkInteriors, Bool.and_eq_true, decide_eq_true_eq, beq_iff_eq,
      List.all_eq_true, bne_iff_ne, ne_eq]
    rw [intOKList_iff_check cs]
    constructor
    · rintro ⟨h1, h2, h3, h4, h5, h6, h7⟩
      exact ⟨⟨⟨⟨⟨⟨h1, h2⟩, h3⟩, sortedKTs_of_pairwise ks (fun k hk => (h5 k hk).1) h4⟩, h5⟩, h6⟩, h7⟩
    · rintro ⟨⟨⟨⟨⟨⟨h1, h2⟩, h3⟩, h4⟩, h5⟩, h6⟩, h7⟩
      exact ⟨h1, h2, h3, pairwise_of_sortedKTs ks (fun k hk => (h5 k hk).1) h4, h5, h6, h7⟩
theorem intOKList_iff_check : ∀ (cs : List BTree), IntOKList cs ↔ checkInteriorsList cs = true
  | [] => by simp [IntOKList, checkInteriorsList]
  | c :: cs => by
    simp only [IntOKList, checkInteriorsList, Bool.and_eq_true]
    rw [intOK_iff_check c, intOKList_iff_check cs]
end

theorem IntOK.routeWF {t : BTree} (h : IntOK t) : RouteWF t :=
  routeWF_of_check t ((intOK_iff_check t).mp h)

theorem IntOKList.routeWF {cs : List BTree} (h : IntOKList cs) : RouteWFList cs :=
  routeWFList_of_check cs ((intOKList_iff_check cs).mp h)

/-! ### size -/

theorem nodeCount_le_list : ∀ (cs : List BTree) (c : BTree), c ∈ cs → nodeCount c ≤ nodeCountList cs
  | [], _, h => by simp at h
  | d :: ds, c, h => by
    simp only [nodeCountList]
    rcases List.mem_cons.mp h with e | e
    · subst e; omega
    · have := nodeCount_le_list ds c e; omega

theorem nodeCount_child_lt (v : DVer) (ks : List KT) (cs : List BTree) (c : BTree) (h : c ∈ cs) :
    nodeCount c < nodeCount (.interior v ks cs) := by
  have := nodeCount_le_list cs c h
  simp only [nodeCount]; omega

/-! ### descending into the child at a position -/

theorem insChild_at : ∀ (ca : List BTree) (c : BTree) (cb : List BTree) (e : DEnt),
    insChild (ca ++ c :: cb) ca.length e =
      match ins c e with
      | .one c' => (ca ++ c' :: cb, none)
      | .split l sep r => (ca ++ l :: cb, some (sep, r))
  | [], c, cb, e => by
    simp only [List.nil_append, List.length_nil, insChild]
    cases ins c e <;> rfl
  | a :: ca, c, cb, e => by
    simp only [List.cons_append, List.length_cons, insChild]
    rw [insChild_at ca c cb e]
    cases ins c e <;> rfl

theorem remChild_at : ∀ (ca : List BTree) (c : BTree) (cb : List BTree) (kt : KT),
    remChild (ca ++ c :: cb) ca.length kt =
      match rem c kt with
      | .kept c' => (ca ++ c' :: cb, false)
      | .gone => (ca ++ c :: cb, true)
  | [], c, cb, kt => by
    simp only [List.nil_append, List.length_nil, remChild]
    cases rem c kt <;> rfl
  | a :: ca, c, cb, kt => by
    simp only [List.cons_append, List.length_cons, remChild]
    rw [remChild_at ca c cb kt]
    cases rem c kt <;> rfl

/-- `get_child_of`: the separators left of the chosen child are `≤ k`, the next one is `> k` -/
theorem routeIdx_decomp (k : KT) : ∀ (ks : List KT), ∃ ka kb, ks = ka ++ kb ∧
    routeIdx k ks = ka.length ∧ (∀ x ∈ ka, routeLeft k x = false) ∧
    (∀ h, kb.head? = some h → routeLeft k h = true)
  | [] => ⟨[], [], rfl, rfl, by simp, by simp⟩
  | t :: ts => by
    by_cases h : routeLeft k t = true
    · exact ⟨[], t :: ts, rfl, by simp [routeIdx, h], by simp, by simp [h]⟩
    · obtain ⟨ka, kb, h1, h2, h3, h4⟩ := routeIdx_decomp k ts
      have h' : routeLeft k t = false := by simpa using h
      refine ⟨t :: ka, kb, by rw [h1]; rfl, by simp [routeIdx, h', h2], ?_, h4⟩
      intro x hx
      rcases List.mem_cons.mp hx with e | e
      · rw [e]; exact h'
      · exact h3 x e

/-- `interior_node::insert`: the position of a separator that lies between `ka` and `kb` -/
theorem interiorInsertPos_decomp (sep : KT) : ∀ (ka kb : List KT),
    (∀ x ∈ ka, interiorLess sep x = false) → (∀ h, kb.head? = some h → interiorLess sep h = true) →
    interiorInsertPos sep (ka ++ kb) = ka.length
  | [], [], _, _ => rfl
  | [], h :: kb, _, hb => by simp [interiorInsertPos, hb h rfl]
  | a :: ka, kb, ha, hb => by
    simp only [List.cons_append, interiorInsertPos, ha a (by simp), Bool.false_eq_true, if_false,
      List.length_cons]
    rw [interiorInsertPos_decomp sep ka kb (fun x hx => ha x (by simp [hx])) hb]

/-! ### the order facts of a chain, in a form that splits over `++` -/

structure ChainOrd (ch : List DLeaf) (hi : Option KT) : Prop where
  fwf : ∀ l ∈ ch, ∀ f, l.fence = some f → f.WF
  ewf : ∀ l ∈ ch, ∀ e ∈ l.ents, e.kt.WF
  fsorted : ch.Pairwise (fun a b => ∃ g, b.fence = some g ∧ gtLo a.fence g)
  esorted : ∀ l ∈ ch, l.ents.Pairwise (fun a b => KT.ltSpec a.kt b.kt = true)
  ege : ∀ l ∈ ch, ∀ e ∈ l.ents, geLo l.fence e.kt
  elt : ch.Pairwise (fun a b => ∀ e ∈ a.ents, ltHi e.kt b.fence)
  fhi : ∀ l ∈ ch, (∀ f, l.fence = some f → ltHi f hi) ∧ ∀ e ∈ l.ents, ltHi e.kt hi

theorem ChainOrd.right {X Y : List DLeaf} {hi : Option KT} (h : ChainOrd (X ++ Y) hi) :
    ChainOrd Y hi where
  fwf := fun l hl => h.fwf l (List.mem_append_right X hl)
  ewf := fun l hl => h.ewf l (List.mem_append_right X hl)
  fsorted := (List.pairwise_append.mp h.fsorted).2.1
  esorted := fun l hl => h.esorted l (List.mem_append_right X hl)
  ege := fun l hl => h.ege l (List.mem_append_right X hl)
  elt := (List.pairwise_append.mp h.elt).2.1
  fhi := fun l hl => h.fhi l (List.mem_append_right X hl)

theorem ChainOrd.left {X Y : List DLeaf} {y : DLeaf} {hi : Option KT}
    (h : ChainOrd (X ++ y :: Y) hi) : ChainOrd X y.fence where
  fwf := fun l hl => h.fwf l (List.mem_append_left _ hl)
  ewf := fun l hl => h.ewf l (List.mem_append_left _ hl)
  fsorted := (List.pairwise_append.mp h.fsorted).1
  esorted := fun l hl => h.esorted l (List.mem_append_left _ hl)
  ege := fun l hl => h.ege l (List.mem_append_left _ hl)
  elt := (List.pairwise_append.mp h.elt).1
  fhi := by
    intro l hl
    have h1 := (List.pairwise_append.mp h.fsorted).2.2 l hl y (by simp)
    have h2 := (List.pairwise_append.mp h.elt).2.2 l hl y (by simp)
    obtain ⟨g, hg, hgt⟩ := h1
    refine ⟨?_, h2⟩
    intro f hf x hx
    rw [hg] at hx; cases hx
    exact hgt f hf

theorem ChainOrd.leftAll {X Y : List DLeaf} {hi : Option KT} (h : ChainOrd (X ++ Y) hi) :
    ChainOrd X hi where
  fwf := fun l hl => h.fwf l (List.mem_append_left _ hl)
  ewf := fun l hl => h.ewf l (List.mem_append_left _ hl)
  fsorted := (List.pairwise_append.mp h.fsorted).1
  esorted := fun l hl => h.esorted l (List.mem_append_left _ hl)
  ege := fun l hl => h.ege l (List.mem_append_left _ hl)
  elt := (List.pairwise_append.mp h.elt).1
  fhi := fun l hl => h.fhi l (List.mem_append_left _ hl)

/-! ### inserting into one border node -/

/-- where a new tuple goes in a sorted entry list -/
theorem sorted_decomp {k : KT} (hk : k.WF) : ∀ (ents : List DEnt), (∀ x ∈ ents, x.kt.WF) →
    ents.Pairwise (fun a b => KT.ltSpec a.kt b.kt = true) → (∀ x ∈ ents, x.kt ≠ k) →
    ∃ a b, ents = a ++ b ∧ (∀ x ∈ a, KT.ltSpec x.kt k = true) ∧ (∀ x ∈ b, KT.ltSpec k x.kt = true)
  | [], _, _, _ => ⟨[], [], rfl, by simp, by simp⟩
  | x :: xs, hw, hs, hn => by
    rw [List.pairwise_cons] at hs
    rcases KT.ltSpec_total x.kt k (hw x (by simp)) hk with h | h | h
    · obtain ⟨a, b, h1, h2, h3⟩ := sorted_decomp hk xs (fun y hy => hw y (by simp [hy])) hs.2
        (fun y hy => hn y (by simp [hy]))
      refine ⟨x :: a, b, by rw [h1]; rfl, ?_, h3⟩
      intro y hy
      rcases List.mem_cons.mp hy with e | e
      · rw [e]; exact h
      · exact h2 y e
    · exact absurd h (hn x (by simp))
    · refine ⟨[], x :: xs, rfl, by simp, ?_⟩
      intro y hy
      rcases List.mem_cons.mp hy with e | e
      · rw [e]; exact h
      · exact lt_trans' h (hs.1 y e)

theorem rank_decomp {k : KT} (hk : k.WF) (a b : List DEnt) (hw : ∀ x ∈ a ++ b, x.kt.WF)
    (hs : (a ++ b).Pairwise (fun x y => KT.ltSpec x.kt y.kt = true))
    (ha : ∀ x ∈ a, KT.ltSpec x.kt k = true) (hb : ∀ x ∈ b, KT.ltSpec k x.kt = true) :
    rankIfInsert k ((a ++ b).map (·.kt)) = a.length := by
  have hn : k ∉ (a ++ b).map (·.kt) := by
    intro hm
    obtain ⟨x, hx, hxk⟩ := List.mem_map.mp hm
    rcases List.mem_append.mp hx with h | h
    · exact lt_ne (ha x h) hxk
    · exact lt_ne (hb x h) hxk.symm
  rw [rankIfInsert_eq k _ hk (by
      intro t ht; obtain ⟨x, hx, rfl⟩ := List.mem_map.mp ht; exact hw x hx)
    (by rw [List.pairwise_map]; exact hs) hn]
  rw [List.map_append, List.filter_append]
  have e1 : (a.map (·.kt)).filter (fun t => KT.ltSpec t k) = a.map (·.kt) := by
    rw [List.filter_eq_self]
    intro t ht; obtain ⟨x, hx, rfl⟩ := List.mem_map.mp ht; exact ha x hx
  have e2 : (b.map (·.kt)).filter (fun t => KT.ltSpec t k) = [] := by
    rw [List.filter_eq_nil_iff]
    intro t ht; obtain ⟨x, hx, rfl⟩ := List.mem_map.mp ht
    rw [lt_asymm (hb x hx)]; simp
  rw [e1, e2]; simp

theorem sorted_insert {a b : List DEnt} {e : DEnt}
    (hs : (a ++ b).Pairwise (fun x y => KT.ltSpec x.kt y.kt = true))
    (ha : ∀ x ∈ a, KT.ltSpec x.kt e.kt = true) (hb : ∀ x ∈ b, KT.ltSpec e.kt x.kt = true) :
    (a ++ e :: b).Pairwise (fun x y => KT.ltSpec x.kt y.kt = true) := by
  rw [List.pairwise_append] at hs ⊢
  rw [List.pairwise_cons]
  refine ⟨hs.1, ⟨hb, hs.2.1⟩, ?_⟩
  intro x hx y hy
  rcases List.mem_cons.mp hy with h | h
  · subst h; exact ha x hx
  · exact hs.2.2 x hx y h

/-- the leaf-level effect of `insert_lv` (the leaf split of the interior-free model,
    `Tree.insertInto`): one leaf with the entry placed at its rank, or two leaves. -/
def leafIns (l : DLeaf) (e : DEnt) : List DLeaf :=
  let rank := rankIfInsert e.kt (l.ents.map (·.kt))
  if l.ents.length = 15 then
    let first := ((l.ents.drop 8).headD default).kt
    if borderSplitLower e.kt first rank 8 = true then
      [⟨l.fence, l.v, insAt (l.ents.take 8) rank e⟩, ⟨some first, l.v, l.ents.drop 8⟩]
    else [⟨l.fence, l.v, l.ents.take 8⟩, ⟨some first, l.v, insAt (l.ents.drop 8) (rank - 8) e⟩]
  else [⟨l.fence, l.v, insAt l.ents rank e⟩]

/-- `insBorder` with the constants of the source written out -/
theorem insBorder_eq (v : DVer) (ents : List DEnt) (e : DEnt) : insBorder v ents e =
    if (ents.length == 15) = true then
      (if borderSplitLower e.kt ((ents.drop 8).headD default).kt
          (rankIfInsert e.kt (ents.map (·.kt))) 8 = true then
        InsRes.split (.border v (insAt (ents.take 8) (rankIfInsert e.kt (ents.map (·.kt))) e))
          ((ents.drop 8).headD default).kt (.border v (ents.drop 8))
      else
        InsRes.split (.border v (ents.take 8)) ((ents.drop 8).headD default).kt
          (.border v (insAt (ents.drop 8) (rankIfInsert e.kt (ents.map (·.kt)) - 8) e)))
    else InsRes.one (.border v (insAt ents (rankIfInsert e.kt (ents.map (·.kt))) e)) := rfl

/-- `insBorder` is `leafIns` on the node's chain -/
theorem insBorder_chain (v : DVer) (ents : List DEnt) (e : DEnt) (lo : Option KT) :
    match insBorder v ents e with
    | .one t' => chainOf t' lo = leafIns ⟨lo, v, ents⟩ e ∧ ∃ ents', t' = .border v ents'
    | .split L sep R => chainOf L lo ++ chainOf R (some sep) = leafIns ⟨lo, v, ents⟩ e ∧
        ∃ e1 e2, L = .border v e1 ∧ R = .border v e2 := by
  rw [insBorder_eq]
  unfold leafIns
  dsimp only
  by_cases h15 : ents.length = 15
  · have hb : (ents.length == 15) = true := by simp [h15]
    rw [if_pos hb, if_pos h15]
    generalize borderSplitLower e.kt ((ents.drop 8).headD default).kt
        (rankIfInsert e.kt (ents.map (·.kt))) 8 = bl
    cases bl <;> simp [chainOf]
  · have hb : ¬ (ents.length == 15) = true := by simp [h15]
    rw [if_neg hb, if_neg h15]
    simp [chainOf]

theorem take_drop_of_append {α} (x y : List α) (n : Nat) (h : x.length = n) :
    (x ++ y).take n = x ∧ (x ++ y).drop n = y := by
  subst h; simp

/-- what `leafIns` produces on a sorted leaf, in plain list terms -/
theorem leafIns_spec (l : DLeaf) (e : DEnt) (a b : List DEnt) (hk : e.kt.WF)
    (h0 : l.ents = a ++ b) (hw : ∀ x ∈ l.ents, x.kt.WF)
    (hs : l.ents.Pairwise (fun x y => KT.ltSpec x.kt y.kt = true))
    (ha : ∀ x ∈ a, KT.ltSpec x.kt e.kt = true) (hb : ∀ x ∈ b, KT.ltSpec e.kt x.kt = true) :
    insAt l.ents (rankIfInsert e.kt (l.ents.map (·.kt))) e = a ++ e :: b ∧
    (l.ents.length ≠ 15 → leafIns l e = [⟨l.fence, l.v, a ++ e :: b⟩]) ∧
    (l.ents.length = 15 → ∃ L r R, L ≠ [] ∧ L ++ r :: R = a ++ e :: b ∧
      (L.length = 8 ∨ L.length = 9) ∧
      leafIns l e = [⟨l.fence, l.v, L⟩, ⟨some r.kt, l.v, r :: R⟩]) := by
  have hrank : rankIfInsert e.kt (l.ents.map (·.kt)) = a.length := by
    rw [h0]; exact rank_decomp hk a b (h0 ▸ hw) (h0 ▸ hs) ha hb
  have hins : insAt l.ents (rankIfInsert e.kt (l.ents.map (·.kt))) e = a ++ e :: b := by
    rw [hrank, h0]; exact insAt_append_length a b e
  refine ⟨hins, ?_, ?_⟩
  · intro h15
    unfold leafIns
    simp only [h15, if_false, hins]
  · intro h15
    have hlen : a.length + b.length = 15 := by rw [h0, List.length_append] at h15; exact h15
    unfold leafIns
    simp only [h15, if_true, hrank]
    by_cases hle : a.length ≤ 8
    · -- the new key is left of the first moved entry
      obtain ⟨b1, r, R, hb1, hb1l⟩ := exists_split_at b (8 - a.length) (by omega)
      have hents : l.ents = (a ++ b1) ++ r :: R := by rw [h0, hb1]; simp
      obtain ⟨ht, hd⟩ := take_drop_of_append (a ++ b1) (r :: R) 8 (by simp [hb1l]; omega)
      rw [hents, ht, hd]
      have hrb : r ∈ b := by rw [hb1]; simp
      have hlow : borderSplitLower e.kt r.kt a.length 8 = true := by
        rw [borderSplitLower_eq e.kt r.kt a.length 8 hk (hw r (by rw [h0]; simp [hrb]))
          (lt_ne (hb r hrb)) (fun _ => hb r hrb)]
        exact hb r hrb
      simp only [List.headD_cons, hlow, if_true]
      refine ⟨a ++ e :: b1, r, R, by simp, by rw [hb1]; simp, Or.inr (by simp [hb1l]; omega), ?_⟩
      rw [insAt_append_length a b1 e]
    · -- the new key is right of it
      have hge : 9 ≤ a.length := by omega
      obtain ⟨a1, r, a2, ha1, ha1l⟩ := exists_split_at a 8 (by omega)
      have hents : l.ents = a1 ++ (r :: (a2 ++ b)) := by rw [h0, ha1]; simp
      obtain ⟨ht, hd⟩ := take_drop_of_append a1 (r :: (a2 ++ b)) 8 ha1l
      rw [hents, ht, hd]
      have hra : r ∈ a := by rw [ha1]; simp
      have hup : borderSplitLower e.kt r.kt a.length 8 = false := by
        rw [borderSplitLower_eq e.kt r.kt a.length 8 hk (hw r (by rw [h0]; simp [hra]))
          (fun h => lt_ne (ha r hra) h.symm) (fun h => by omega)]
        exact lt_asymm (ha r hra)
      simp only [List.headD_cons, hup, Bool.false_eq_true, if_false]
      have hal : a.length - 8 = (r :: a2).length := by
        rw [ha1]; simp; omega
      refine ⟨a1, r, a2 ++ e :: b, ?_, by rw [ha1]; simp, Or.inl ha1l, ?_⟩
      · intro h; rw [h] at ha1l; simp at ha1l
      · have : r :: (a2 ++ b) = (r :: a2) ++ b := rfl
        rw [this, insAt_append_length' (r :: a2) b e _ hal]
        rfl

/-! ### an interior node receives a separator and a child -/

theorem interiorAdd_eq (v : DVer) (keys : List KT) (cs : List BTree) (sep : KT) (r : BTree) :
    interiorAdd v keys cs sep r =
    if (keys.length == 15) = true then
      (if interiorLess sep ((keys.drop 7).headD default) = true then
        InsRes.split
          (.interior v (interiorInsert (keys.take 7) (cs.take 8) sep r).1
            (interiorInsert (keys.take 7) (cs.take 8) sep r).2)
          ((keys.drop 7).headD default) (.interior v (keys.drop 8) (cs.drop 8))
      else
        InsRes.split (.interior v (keys.take 7) (cs.take 8)) ((keys.drop 7).headD default)
          (.interior v (interiorInsert (keys.drop 8) (cs.drop 8) sep r).1
            (interiorInsert (keys.drop 8) (cs.drop 8) sep r).2))
    else InsRes.one (.interior v (interiorInsert keys cs sep r).1 (interiorInsert keys cs sep r).2) := rfl

theorem interiorInsert_at (ka kb : List KT) (ca cb : List BTree) (L R : BTree) (sep : KT)
    (hlen : ca.length = ka.length) (hw : ∀ x ∈ ka ++ kb, x.WF) (hsw : sep.WF)
    (ha : ∀ x ∈ ka, KT.ltSpec x sep = true) (hb : ∀ x ∈ kb, KT.ltSpec sep x = true) :
    interiorInsert (ka ++ kb) (ca ++ L :: cb) sep R = (ka ++ sep :: kb, ca ++ L :: R :: cb) := by
  have hp : interiorInsertPos sep (ka ++ kb) = ka.length := by
    apply interiorInsertPos_decomp
    · intro x hx
      rw [interiorLess_eq sep x hsw (hw x (by simp [hx]))]
      exact lt_asymm (ha x hx)
    · intro h hh
      have hm : h ∈ kb := List.mem_of_head? hh
      rw [interiorLess_eq sep h hsw (hw h (by simp [hm]))]
      exact hb h hm
  unfold interiorInsert
  simp only [hp]
  rw [insAt_append_length ka kb sep, insAt_append_succ ca cb L R _ (by rw [hlen])]

theorem sorted_insert_kt {a b : List KT} {k : KT}
    (hs : (a ++ b).Pairwise (fun x y => KT.ltSpec x y = true))
    (ha : ∀ x ∈ a, KT.ltSpec x k = true) (hb : ∀ x ∈ b, KT.ltSpec k x = true) :
    (a ++ k :: b).Pairwise (fun x y => KT.ltSpec x y = true) := by
  rw [List.pairwise_append] at hs ⊢
  rw [List.pairwise_cons]
  refine ⟨hs.1, ⟨hb, hs.2.1⟩, ?_⟩
  intro x hx y hy
  rcases List.mem_cons.mp hy with h | h
  · subst h; exact ha x hx
  · exact hs.2.2 x hx y h

/-- two interior nodes made of the two parts of a (separator, child) sequence around a pivot -/
theorem split_ok (v : DVer) (nk k1 k2 : List KT) (p : KT) (nc c1 c2 : List BTree)
    (hk : nk = k1 ++ p :: k2) (hc : nc = c1 ++ c2) (hl1 : c1.length = k1.length + 1)
    (hl : nc.length = nk.length + 1) (h1 : 1 ≤ k1.length) (h2 : 1 ≤ k2.length)
    (h15 : nk.length ≤ 16)
    (hs : nk.Pairwise (fun x y => KT.ltSpec x y = true)) (hw : ∀ x ∈ nk, x.WF ∧ x.len ≠ 0)
    (hv : v.flags % 16 = 0) (hok : IntOKList nc) :
    IntOK (.interior v k1 c1) ∧ IntOK (.interior v k2 c2) ∧
    ∀ lo, chainOf (.interior v k1 c1) lo ++ chainOf (.interior v k2 c2) (some p) =
      chainOfChildren nc nk lo := by
  subst hk hc
  rw [intOKList_iff] at hok
  rw [List.pairwise_append, List.pairwise_cons] at hs
  simp only [List.length_append, List.length_cons] at hl h15
  refine ⟨?_, ?_, ?_⟩
  · simp only [IntOK]
    refine ⟨h1, by omega, hl1, hs.1, fun x hx => hw x (by simp [hx]), hv, ?_⟩
    rw [intOKList_iff]; intro c hc; exact hok c (by simp [hc])
  · simp only [IntOK]
    refine ⟨h2, by omega, by omega, hs.2.1.2, fun x hx => hw x (by simp [hx]), hv, ?_⟩
    rw [intOKList_iff]; intro c hc; exact hok c (by simp [hc])
  · intro lo
    simp only [chainOf]
    rw [chainCh_split c1 c2 k1 k2 p lo hl1]

theorem interiorAdd_spec (v : DVer) (ka kb : List KT) (ca cb : List BTree) (L R : BTree) (sep : KT)
    (hlen : ca.length = ka.length) (hlenb : cb.length = kb.length)
    (hs : (ka ++ kb).Pairwise (fun x y => KT.ltSpec x y = true))
    (hw : ∀ x ∈ ka ++ kb, x.WF ∧ x.len ≠ 0) (hsw : sep.WF) (hs0 : sep.len ≠ 0)
    (ha : ∀ x ∈ ka, KT.ltSpec x sep = true) (hb : ∀ x ∈ kb, KT.ltSpec sep x = true)
    (h15 : (ka ++ kb).length ≤ 15) (hv : v.flags % 16 = 0)
    (hok : IntOKList (ca ++ L :: R :: cb)) :
    match interiorAdd v (ka ++ kb) (ca ++ L :: cb) sep R with
    | .one t' => IntOK t' ∧
        ∀ lo, chainOf t' lo = chainOfChildren (ca ++ L :: R :: cb) (ka ++ sep :: kb) lo
    | .split Li p Ri => IntOK Li ∧ IntOK Ri ∧ p ∈ ka ++ kb ∧
        ∀ lo, chainOf Li lo ++ chainOf Ri (some p) =
          chainOfChildren (ca ++ L :: R :: cb) (ka ++ sep :: kb) lo := by
  have hwf : ∀ x ∈ ka ++ kb, x.WF := fun x hx => (hw x hx).1
  have hnk : (ka ++ sep :: kb).Pairwise (fun x y => KT.ltSpec x y = true) := sorted_insert_kt hs ha hb
  have hnw : ∀ x ∈ ka ++ sep :: kb, x.WF ∧ x.len ≠ 0 := by
    intro x hx
    rcases List.mem_append.mp hx with h | h
    · exact hw x (by simp [h])
    · rcases List.mem_cons.mp h with h | h
      · rw [h]; exact ⟨hsw, hs0⟩
      · exact hw x (by simp [h])
  have hnl : (ca ++ L :: R :: cb).length = (ka ++ sep :: kb).length + 1 := by
    simp only [List.length_append, List.length_cons]; omega
  simp only [List.length_append] at h15
  rw [interiorAdd_eq]
  by_cases hfull : (ka ++ kb).length = 15
  · have hbq : ((ka ++ kb).length == 15) = true := by simp [hfull]
    rw [if_pos hbq]
    simp only [List.length_append] at hfull
    by_cases hle : ka.length ≤ 7
    · -- the pending pair goes to the left node
      obtain ⟨b1, r, b2, hb1, hb1l⟩ := exists_split_at kb (7 - ka.length) (by omega)
      have hrb : r ∈ kb := by rw [hb1]; simp
      have hks : ka ++ kb = (ka ++ b1) ++ r :: b2 := by rw [hb1]; simp
      have hks' : ka ++ kb = (ka ++ b1 ++ [r]) ++ b2 := by rw [hb1]; simp
      obtain ⟨ht7, hd7⟩ := take_drop_of_append (ka ++ b1) (r :: b2) 7 (by simp [hb1l]; omega)
      obtain ⟨_, hd8⟩ := take_drop_of_append (ka ++ b1 ++ [r]) b2 8 (by simp [hb1l]; omega)
      have hcs : ca ++ L :: cb = (ca ++ L :: cb.take (7 - ka.length)) ++ cb.drop (7 - ka.length) := by
        simp
      obtain ⟨htc, hdc⟩ := take_drop_of_append (ca ++ L :: cb.take (7 - ka.length))
        (cb.drop (7 - ka.length)) 8 (by simp [List.length_take]; omega)
      have hpiv : ((ka ++ kb).drop 7).headD default = r := by rw [hks, hd7]; rfl
      have hless : interiorLess sep r = true := by
        rw [interiorLess_eq sep r hsw (hwf r (by simp [hrb]))]; exact hb r hrb
      rw [hpiv, if_pos hless]
      have e1 : (ka ++ kb).take 7 = ka ++ b1 := by rw [hks, ht7]
      have e2 : (ka ++ kb).drop 8 = b2 := by rw [hks', hd8]
      have e3 : (ca ++ L :: cb).take 8 = ca ++ L :: cb.take (7 - ka.length) := by rw [hcs, htc]
      have e4 : (ca ++ L :: cb).drop 8 = cb.drop (7 - ka.length) := by rw [hcs, hdc]
      rw [e1, e2, e3, e4]
      rw [interiorInsert_at ka b1 ca (cb.take (7 - ka.length)) L R sep hlen
        (fun x hx => hwf x (by rw [hb1]; simp at hx ⊢; rcases hx with h | h <;> simp [h])) hsw ha
        (fun x hx => hb x (by rw [hb1]; simp [hx]))]
      have := split_ok v (ka ++ sep :: kb) (ka ++ sep :: b1) b2 r (ca ++ L :: R :: cb)
        (ca ++ L :: R :: cb.take (7 - ka.length)) (cb.drop (7 - ka.length))
        (by rw [hb1]; simp) (by simp)
        (by simp [List.length_take]; omega) hnl (by simp only [List.length_append, List.length_cons]; omega) (by
          have : kb.length = b1.length + 1 + b2.length := by rw [hb1]; simp; omega
          omega)
        (by simp; omega) hnk hnw hv hok
      exact ⟨this.1, this.2.1, by simp [hrb], this.2.2⟩
    · -- the pending pair goes to the new right node
      obtain ⟨a1, r, a2, ha1, ha1l⟩ := exists_split_at ka 7 (by omega)
      have hra : r ∈ ka := by rw [ha1]; simp
      have hks : ka ++ kb = a1 ++ r :: (a2 ++ kb) := by rw [ha1]; simp
      have hks' : ka ++ kb = (a1 ++ [r]) ++ (a2 ++ kb) := by rw [ha1]; simp
      obtain ⟨ht7, hd7⟩ := take_drop_of_append a1 (r :: (a2 ++ kb)) 7 ha1l
      obtain ⟨_, hd8⟩ := take_drop_of_append (a1 ++ [r]) (a2 ++ kb) 8 (by simp [ha1l])
      have hcs : ca ++ L :: cb = ca.take 8 ++ (ca.drop 8 ++ L :: cb) := by
        rw [← List.append_assoc, List.take_append_drop]
      obtain ⟨htc, hdc⟩ := take_drop_of_append (ca.take 8) (ca.drop 8 ++ L :: cb) 8
        (by rw [List.length_take]; omega)
      have hpiv : ((ka ++ kb).drop 7).headD default = r := by rw [hks, hd7]; rfl
      have hless : ¬ interiorLess sep r = true := by
        rw [interiorLess_eq sep r hsw (hwf r (by simp [hra])), lt_asymm (ha r hra)]; simp
      rw [hpiv, if_neg hless]
      have e1 : (ka ++ kb).take 7 = a1 := by rw [hks, ht7]
      have e2 : (ka ++ kb).drop 8 = a2 ++ kb := by rw [hks', hd8]
      have e3 : (ca ++ L :: cb).take 8 = ca.take 8 := by rw [hcs, htc]
      have e4 : (ca ++ L :: cb).drop 8 = ca.drop 8 ++ L :: cb := by rw [hcs, hdc]
      rw [e1, e2, e3, e4]
      have hal : ka.length = a1.length + 1 + a2.length := by rw [ha1]; simp; omega
      rw [interiorInsert_at a2 kb (ca.drop 8) cb L R sep (by rw [List.length_drop]; omega)
        (fun x hx => hwf x (by rw [ha1]; simp at hx ⊢; rcases hx with h | h <;> simp [h])) hsw
        (fun x hx => ha x (by rw [ha1]; simp [hx])) hb]
      have := split_ok v (ka ++ sep :: kb) a1 (a2 ++ sep :: kb) r (ca ++ L :: R :: cb)
        (ca.take 8) (ca.drop 8 ++ L :: R :: cb)
        (by rw [ha1]; simp) (by rw [← List.append_assoc, List.take_append_drop])
        (by rw [List.length_take]; omega) hnl (by omega) (by simp only [List.length_append, List.length_cons]; omega) (by simp; omega) hnk hnw hv hok
      exact ⟨this.1, this.2.1, by simp [hra], this.2.2⟩
  · have hbq : ¬ ((ka ++ kb).length == 15) = true := by simpa using hfull
    rw [if_neg hbq]
    simp only [List.length_append] at hfull
    rw [interiorInsert_at ka kb ca cb L R sep hlen hwf hsw ha hb]
    refine ⟨?_, fun lo => by simp only [chainOf]⟩
    simp only [IntOK]
    refine ⟨by simp only [List.length_append, List.length_cons]; omega, by simp only [List.length_append, List.length_cons]; omega, hnl, hnk, hnw, hv, hok⟩

/-! ### separators are fences of the chain -/

theorem chainCh_head (cs : List BTree) (ks : List KT) (lo : Option KT) (hok : IntOKList cs)
    (hl : cs.length = ks.length + 1) :
    ∃ v e rest, chainOfChildren cs ks lo = ⟨lo, v, e⟩ :: rest ∧ ∀ l ∈ rest, l.fence.isSome = true :=
  chainOfChildren_shape cs ks lo hok.routeWF hl

theorem IntOKList.append_left {a b : List BTree} (h : IntOKList (a ++ b)) : IntOKList a := by
  rw [intOKList_iff] at h ⊢; intro c hc; exact h c (by simp [hc])

theorem IntOKList.append_right {a b : List BTree} (h : IntOKList (a ++ b)) : IntOKList b := by
  rw [intOKList_iff] at h ⊢; intro c hc; exact h c (by simp [hc])

/-- every separator of an interior node is the fence of a (non-first) leaf of its chain, hence
    strictly between the node's bounds -/
theorem key_bounds (cs : List BTree) (ks : List KT) (lo hi : Option KT) (hok : IntOKList cs)
    (hl : cs.length = ks.length + 1) (hord : ChainOrd (chainOfChildren cs ks lo) hi) :
    ∀ p ∈ ks, gtLo lo p ∧ ltHi p hi := by
  intro p hp
  obtain ⟨k1, k2, hk⟩ := List.append_of_mem hp
  subst hk
  have hsplit : cs = cs.take (k1.length + 1) ++ cs.drop (k1.length + 1) := (List.take_append_drop _ _).symm
  have hl1 : (cs.take (k1.length + 1)).length = k1.length + 1 := by
    rw [List.length_take]; simp at hl; omega
  have hl2 : (cs.drop (k1.length + 1)).length = k2.length + 1 := by
    rw [List.length_drop]; simp at hl; omega
  rw [hsplit] at hok hord
  rw [chainCh_split _ _ k1 k2 p lo hl1] at hord
  obtain ⟨v1, e1, r1, hc1, _⟩ := chainCh_head _ k1 lo hok.append_left hl1
  obtain ⟨v2, e2, r2, hc2, _⟩ := chainCh_head _ k2 (some p) hok.append_right hl2
  rw [hc1, hc2] at hord
  constructor
  · have := (List.pairwise_append.mp hord.fsorted).2.2 ⟨lo, v1, e1⟩ (by simp) ⟨some p, v2, e2⟩ (by simp)
    obtain ⟨g, hg, hgt⟩ := this
    simp only [Option.some.injEq] at hg
    subst hg
    exact hgt
  · exact (hord.fhi ⟨some p, v2, e2⟩ (by simp)).1 p rfl

/-! ### insert: the chain and the interior structure -/

/-- what `ins` hands upwards, against the expected chain `ch` of the subtree (bounds `lo`, `hi`) -/
def InsOK (lo hi : Option KT) (ch : List DLeaf) : InsRes → Prop
  | .one t' => IntOK t' ∧ chainOf t' lo = ch
  | .split L sep R => IntOK L ∧ IntOK R ∧ sep.WF ∧ sep.len ≠ 0 ∧ gtLo lo sep ∧ ltHi sep hi ∧
      chainOf L lo ++ chainOf R (some sep) = ch

theorem ins_border_spec (v : DVer) (ents : List DEnt) (lo hi : Option KT) (e : DEnt)
    (hok : IntOK (.border v ents)) (hord : ChainOrd (chainOf (.border v ents) lo) hi)
    (hk : e.kt.WF) (hge : geLo lo e.kt) (hlt : ltHi e.kt hi)
    (habs : ∀ x ∈ ents, x.kt ≠ e.kt) :
    InsOK lo hi (leafIns ⟨lo, v, ents⟩ e) (insBorder v ents e) := by
  simp only [chainOf] at hord
  simp only [IntOK] at hok
  have hw : ∀ x ∈ ents, x.kt.WF := hord.ewf ⟨lo, v, ents⟩ (by simp)
  have hs := hord.esorted ⟨lo, v, ents⟩ (by simp)
  obtain ⟨a, b, h0, ha, hb⟩ := sorted_decomp hk ents hw hs habs
  obtain ⟨_, hne, hfull⟩ := leafIns_spec ⟨lo, v, ents⟩ e a b hk h0 hw hs ha hb
  have hsorted : (a ++ e :: b).Pairwise (fun x y => KT.ltSpec x.kt y.kt = true) :=
    sorted_insert (h0 ▸ hs) ha hb
  have hmem : ∀ x ∈ a ++ e :: b, x.kt.WF ∧ geLo lo x.kt ∧ ltHi x.kt hi := by
    intro x hx
    have : x = e ∨ x ∈ ents := by
      rw [h0]; simp only [List.mem_append, List.mem_cons] at hx ⊢
      rcases hx with h | h | h
      · exact Or.inr (Or.inl h)
      · exact Or.inl h
      · exact Or.inr (Or.inr h)
    rcases this with h | h
    · rw [h]; exact ⟨hk, hge, hlt⟩
    · exact ⟨hw x h, hord.ege ⟨lo, v, ents⟩ (by simp) x h, (hord.fhi ⟨lo, v, ents⟩ (by simp)).2 x h⟩
  have hc := insBorder_chain v ents e lo
  dsimp only at hne hfull
  by_cases h15 : ents.length = 15
  · obtain ⟨L, r, R, hLne, hLR, hLlen, hleaf⟩ := hfull h15
    cases hr : insBorder v ents e with
    | one t' =>
      rw [hr] at hc
      obtain ⟨hch, ents', ht'⟩ := hc
      subst ht'
      rw [hleaf] at hch
      simp [chainOf] at hch
    | split Lt sep Rt =>
      rw [hr] at hc
      obtain ⟨hch, e1, e2, hL, hR⟩ := hc
      subst hL hR
      rw [hleaf] at hch ⊢
      have hE : e1 = L ∧ sep = r.kt ∧ e2 = r :: R := by
        simpa [chainOf] using hch
      obtain ⟨he1, hsep, he2⟩ := hE
      rw [he1, hsep, he2]
      have hlen16 : L.length + (R.length + 1) = 16 := by
        have := congrArg List.length hLR
        simp only [List.length_append, List.length_cons] at this
        have h0l := congrArg List.length h0
        simp only [List.length_append] at h0l
        omega
      obtain ⟨y, hy⟩ := List.exists_mem_of_ne_nil L hLne
      have hyr : KT.ltSpec y.kt r.kt = true := by
        rw [← hLR] at hsorted
        exact (List.pairwise_append.mp hsorted).2.2 y hy r (by simp)
      have hym := hmem y (by rw [← hLR]; simp [hy])
      have hrm := hmem r (by rw [← hLR]; simp)
      refine ⟨by simp only [IntOK]; omega, by simp only [IntOK, List.length_cons]; omega, hrm.1,
        len_ne_zero_of_lt hyr, ?_, hrm.2.2, by simp [chainOf]⟩
      intro f hf
      have hfw : f.WF := hord.fwf ⟨lo, v, ents⟩ (by simp) f hf
      exact le_lt_trans hfw hrm.1 (hym.2.1 f hf) hyr
  · have hleaf := hne h15
    cases hr : insBorder v ents e with
    | one t' =>
      rw [hr] at hc
      obtain ⟨hch, ents', ht'⟩ := hc
      subst ht'
      rw [hleaf] at hch ⊢
      have hE : ents' = a ++ e :: b := by simpa [chainOf] using hch
      rw [hE]
      refine ⟨?_, by simp [chainOf]⟩
      simp only [IntOK]
      have h0l := congrArg List.length h0
      simp only [List.length_append, List.length_cons] at h0l ⊢
      omega
    | split Lt sep Rt =>
      rw [hr] at hc
      obtain ⟨hch, e1, e2, hL, hR⟩ := hc
      subst hL hR
      rw [hleaf] at hch
      simp [chainOf] at hch

theorem ins_spec : ∀ (n : Nat) (t : BTree) (lo hi : Option KT) (e : DEnt), nodeCount t ≤ n →
    IntOK t → ChainOrd (chainOf t lo) hi → e.kt.WF → geLo lo e.kt → ltHi e.kt hi →
    (∀ l ∈ chainOf t lo, ∀ x ∈ l.ents, x.kt ≠ e.kt) →
    ∃ A l B, chainOf t lo = A ++ l :: B ∧ geLo l.fence e.kt ∧
      (∀ x ∈ B, ∃ f, x.fence = some f ∧ KT.ltSpec e.kt f = true) ∧
      InsOK lo hi (A ++ leafIns l e ++ B) (ins t e)
  | 0, t, _, _, _, hn, _, _, _, _, _, _ => by
    cases t <;> simp [nodeCount] at hn
  | n + 1, .border v ents, lo, hi, e, _, hok, hord, hk, hge, hlt, habs => by
    refine ⟨[], ⟨lo, v, ents⟩, [], by simp [chainOf], hge, by simp, ?_⟩
    simp only [List.nil_append, List.append_nil, ins]
    exact ins_border_spec v ents lo hi e hok hord hk hge hlt
      (fun x hx => habs ⟨lo, v, ents⟩ (by simp [chainOf]) x hx)
  | n + 1, .interior v ks cs, lo, hi, e, hn, hok, hord, hk, hge, hlt, habs => by
    have hok' := hok
    simp only [IntOK] at hok
    obtain ⟨hk1, hk15, hlen, hsorted, hkw, hv, hcs⟩ := hok
    simp only [chainOf] at hord habs ⊢
    obtain ⟨ka, kb, hks, hri, hka, hkb⟩ := routeIdx_decomp e.kt ks
    subst hks
    have hlt' : ka.length < cs.length := by simp at hlen; omega
    obtain ⟨ca, c, cb, hcsd, hcal⟩ := exists_split_at cs ka.length hlt'
    subst hcsd
    have hcbl : cb.length = kb.length := by simp at hlen; omega
    have hfocus := chainCh_focus ca c cb ka kb lo hcal
    rw [hfocus] at hord habs
    have hcok : IntOK c := (intOKList_iff _).mp hcs c (by simp)
    have hcbok : IntOKList cb := by
      have := hcs.append_right; simp only [IntOKList] at this; exact this.2
    have hkwf : ∀ x ∈ ka ++ kb, x.WF := fun x hx => (hkw x hx).1
    -- the upper bound of the child
    obtain ⟨hi', u1, u2, u3, u4⟩ : ∃ hi', ChainOrd (chainOf c (lastOr lo ka)) hi' ∧ ltHi e.kt hi' ∧
        (∀ s, ltHi s hi' → ∀ x ∈ kb, KT.ltSpec s x = true) ∧
        (∀ x ∈ chainOfChildren cb kb.tail kb.head?, ∃ f, x.fence = some f ∧ KT.ltSpec e.kt f = true) := by
      cases kb with
      | nil =>
        have : cb = [] := by cases cb with | nil => rfl | cons _ _ => simp at hcbl
        subst this
        refine ⟨hi, ?_, hlt, by simp, by simp [chainCh_nil]⟩
        have := hord.right
        rw [chainCh_nil, List.append_nil] at this
        exact this
      | cons h kb' =>
        have hcbl' : cb.length = kb'.length + 1 := by simpa using hcbl
        obtain ⟨v', e', rest', hcb, _⟩ := chainCh_head cb kb' (some h) hcbok hcbl'
        simp only [List.tail_cons, List.head?_cons] at hord ⊢
        rw [hcb] at hord ⊢
        have hhw : h.WF := hkwf h (by simp)
        have hkh : KT.ltSpec e.kt h = true := by
          rw [← routeLeft_eq e.kt h hk hhw]; exact hkb h rfl
        have hsk : (h :: kb').Pairwise (fun a b => KT.ltSpec a b = true) :=
          (List.pairwise_append.mp hsorted).2.1
        refine ⟨some h, hord.right.left, fun x hx => by cases hx; exact hkh, ?_, ?_⟩
        · intro s hs x hx
          rcases ge_head_of_sorted h kb' hsk x hx with e | e
          · rw [e]; exact hs h rfl
          · exact lt_trans' (hs h rfl) e
        · intro x hx
          rcases List.mem_cons.mp hx with e | e
          · rw [e]; exact ⟨h, rfl, hkh⟩
          · have := (List.pairwise_cons.mp hord.right.right.fsorted).1 x e
            obtain ⟨g, hg, hgt⟩ := this
            exact ⟨g, hg, lt_trans' hkh (hgt h rfl)⟩
    -- the lower bound of the child
    have l1 : geLo (lastOr lo ka) e.kt := by
      unfold lastOr
      cases hz : ka.getLast? with
      | none => exact hge
      | some z =>
        intro f hf
        simp only [Option.some.injEq] at hf; subst hf
        have hzm : z ∈ ka := List.mem_of_getLast? hz
        rw [← routeLeft_eq e.kt z hk (hkwf z (by simp [hzm]))]
        exact hka z hzm
    have l2 : ∀ s, gtLo (lastOr lo ka) s → ∀ x ∈ ka, KT.ltSpec x s = true := by
      intro s hs x hx
      unfold lastOr at hs
      cases hz : ka.getLast? with
      | none =>
        have : ka = [] := List.getLast?_eq_none_iff.mp hz
        subst this; simp at hx
      | some z =>
        rw [hz] at hs
        have hzs := hs z rfl
        rcases le_last_of_sorted ka z (List.pairwise_append.mp hsorted).1 hz x hx with e | e
        · rw [e]; exact hzs
        · exact lt_trans' e hzs
    have hcn : nodeCount c ≤ n := by
      have := nodeCount_child_lt v (ka ++ kb) (ca ++ c :: cb) c (by simp)
      omega
    obtain ⟨A, l, B, hcc, hlge, hB, hins⟩ := ins_spec n c (lastOr lo ka) hi' e hcn hcok u1 hk l1 u2
      (fun l hl x hx => habs l (by simp [hl]) x hx)
    refine ⟨chainOfChildren ca ka lo ++ A, l, B ++ chainOfChildren cb kb.tail kb.head?, ?_, hlge, ?_, ?_⟩
    · rw [hfocus, hcc]; simp
    · intro x hx
      rcases List.mem_append.mp hx with h | h
      · exact hB x h
      · exact u4 x h
    · have hexp : chainOfChildren ca ka lo ++ A ++ leafIns l e ++ (B ++ chainOfChildren cb kb.tail kb.head?) =
          chainOfChildren ca ka lo ++ ((A ++ leafIns l e ++ B) ++ chainOfChildren cb kb.tail kb.head?) := by
        simp
      rw [hexp]
      simp only [ins]
      rw [hri, ← hcal, insChild_at]
      cases hr : ins c e with
      | one c' =>
        rw [hr] at hins
        simp only [InsOK] at hins ⊢
        obtain ⟨hc'ok, hc'ch⟩ := hins
        refine ⟨?_, ?_⟩
        · simp only [IntOK]
          refine ⟨hk1, hk15, by simp at hlen ⊢; omega, hsorted, hkw, hv, ?_⟩
          rw [intOKList_iff] at hcs ⊢
          intro d hd
          simp only [List.mem_append, List.mem_cons] at hd
          rcases hd with h | h | h
          · exact hcs d (by simp [h])
          · rw [h]; exact hc'ok
          · exact hcs d (by simp [h])
        · simp only [chainOf]
          rw [chainCh_focus ca c' cb ka kb lo hcal, hc'ch]
      | split L sep R =>
        rw [hr] at hins
        simp only [InsOK] at hins
        obtain ⟨hLok, hRok, hsw, hs0, hslo, hshi, hLR⟩ := hins
        have hnok : IntOKList (ca ++ L :: R :: cb) := by
          rw [intOKList_iff] at hcs ⊢
          intro d hd
          simp only [List.mem_append, List.mem_cons] at hd
          rcases hd with h | h | h | h
          · exact hcs d (by simp [h])
          · rw [h]; exact hLok
          · rw [h]; exact hRok
          · exact hcs d (by simp [h])
        have hadd := interiorAdd_spec v ka kb ca cb L R sep hcal hcbl hsorted hkw hsw hs0
          (l2 sep hslo) (u3 sep hshi) hk15 hv hnok
        have hnew : ∀ lo', chainOfChildren (ca ++ L :: R :: cb) (ka ++ sep :: kb) lo' =
            chainOfChildren ca ka lo' ++ ((chainOf L (lastOr lo' ka) ++ chainOf R (some sep)) ++
              chainOfChildren cb kb.tail kb.head?) := by
          intro lo'
          rw [chainCh_focus ca L (R :: cb) ka (sep :: kb) lo' hcal, chainCh_cons]
          simp
        simp only
        cases ha : interiorAdd v (ka ++ kb) (ca ++ L :: cb) sep R with
        | one t' =>
          rw [ha] at hadd
          simp only [InsOK]
          refine ⟨hadd.1, ?_⟩
          rw [hadd.2 lo, hnew lo, hLR]
        | split Li p Ri =>
          rw [ha] at hadd
          obtain ⟨hLi, hRi, hpm, hch⟩ := hadd
          simp only [InsOK]
          have hpb := key_bounds (ca ++ c :: cb) (ka ++ kb) lo hi hcs hlen (by rw [hfocus]; exact hord) p hpm
          refine ⟨hLi, hRi, (hkw p hpm).1, (hkw p hpm).2, hpb.1, hpb.2, ?_⟩
          rw [hch lo, hnew lo, hLR]

/-- the root: a split creates a new interior root over the two halves -/
theorem insertB_spec (t : BTree) (e : DEnt) (hok : IntOK t)
    (hord : ChainOrd (chainOf t none) none) (hk : e.kt.WF)
    (habs : ∀ l ∈ chainOf t none, ∀ x ∈ l.ents, x.kt ≠ e.kt) :
    ∃ A l B, chainOf t none = A ++ l :: B ∧ geLo l.fence e.kt ∧
      (∀ x ∈ B, ∃ f, x.fence = some f ∧ KT.ltSpec e.kt f = true) ∧
      IntOK (insertB t e) ∧ chainOf (insertB t e) none = A ++ leafIns l e ++ B := by
  obtain ⟨A, l, B, hch, hge, hB, hins⟩ := ins_spec (nodeCount t) t none none e (Nat.le_refl _) hok hord hk
    (fun f hf => by cases hf) (fun h hh => by cases hh) habs
  refine ⟨A, l, B, hch, hge, hB, ?_⟩
  unfold insertB
  cases hr : ins t e with
  | one t' =>
    rw [hr] at hins
    exact hins
  | split L sep R =>
    rw [hr] at hins
    simp only [InsOK] at hins
    obtain ⟨hL, hR, hsw, hs0, _, _, hLR⟩ := hins
    refine ⟨?_, ?_⟩
    · simp only [IntOK, newRootVer]
      refine ⟨by simp, by simp, by simp, by simp, ?_, by decide, hL, hR, trivial⟩
      intro k hk'
      simp only [List.mem_singleton] at hk'
      rw [hk']; exact ⟨hsw, hs0⟩
    · simp only [chainOf, chainCh_cons, chainCh_nil, List.tail_cons, List.head?_cons, List.append_nil]
      exact hLR

/-! ### remove -/

/-- `border_node::delete_of`'s per-entry test is equality on well-formed tuples -/
theorem delMatch_iff (k t : KT) (hk : k.WF) (ht : t.WF) : delMatch k t = true ↔ k = t := by
  rw [← (leafProbe_eq k t hk ht).1]
  unfold delMatch leafProbe
  have hk9 := hk.2.1
  have ht9 := ht.2.1
  by_cases h0 : (k.len == 0 && t.len == 0) = true
  · simp [h0]
  · have h0' : (k.len == 0 && t.len == 0) = false := by simpa using h0
    rw [h0']
    simp only [Bool.false_or, Bool.false_eq_true, if_false]
    generalize memcmp k.slice t.slice 8 = r
    by_cases hr : r = 0
    · subst hr
      by_cases hl : k.len = t.len
      · simp [hl]
      · have : ¬ (8 < k.len ∧ 8 < t.len) := by omega
        simp [hl, this]
        split <;> simp
    · simp [hr]
      split <;> simp

theorem delEnt_sublist (kt : KT) : ∀ (ents : List DEnt), (delEnt kt ents).Sublist ents
  | [] => by simp [delEnt]
  | e :: es => by
    simp only [delEnt]
    split
    · exact List.sublist_cons_self e es
    · exact (delEnt_sublist kt es).cons_cons e

theorem delEnt_length (kt : KT) : ∀ (ents : List DEnt),
    ents.any (fun x => delMatch kt x.kt) = true → (delEnt kt ents).length + 1 = ents.length
  | [], h => by simp at h
  | e :: es, h => by
    simp only [delEnt]
    by_cases hm : delMatch kt e.kt = true
    · simp [hm]
    · have hm' : delMatch kt e.kt = false := by simpa using hm
      simp only [List.any_cons, hm', Bool.false_or] at h
      simp only [hm', Bool.false_eq_true, if_false, List.length_cons]
      rw [delEnt_length kt es h]

theorem delEnt_none (kt : KT) : ∀ (ents : List DEnt),
    ents.any (fun x => delMatch kt x.kt) = false → delEnt kt ents = ents
  | [], _ => rfl
  | e :: es, h => by
    simp only [List.any_cons, Bool.or_eq_false_iff] at h
    simp only [delEnt, h.1, Bool.false_eq_true, if_false]
    rw [delEnt_none kt es h.2]

/-- on a sorted leaf `delEnt` removes exactly the entry with that tuple -/
theorem delEnt_eq_filter (kt : KT) (hk : kt.WF) : ∀ (ents : List DEnt), (∀ x ∈ ents, x.kt.WF) →
    ents.Pairwise (fun a b => KT.ltSpec a.kt b.kt = true) →
    delEnt kt ents = ents.filter (fun x => decide (x.kt ≠ kt))
  | [], _, _ => rfl
  | e :: es, hw, hs => by
    rw [List.pairwise_cons] at hs
    simp only [delEnt]
    by_cases hm : delMatch kt e.kt = true
    · have he : kt = e.kt := (delMatch_iff kt e.kt hk (hw e (by simp))).mp hm
      rw [if_pos hm, List.filter_cons_of_neg (by simp [he])]
      symm
      rw [List.filter_eq_self]
      intro x hx
      have := lt_ne (hs.1 x hx)
      simp only [decide_eq_true_eq]
      rw [he]; exact fun h => this h.symm
    · have hne : e.kt ≠ kt := fun h => hm ((delMatch_iff kt e.kt hk (hw e (by simp))).mpr h.symm)
      rw [if_neg hm, List.filter_cons_of_pos (by simp [hne])]
      rw [delEnt_eq_filter kt hk es (fun x hx => hw x (by simp [hx])) hs.2]

mutual
/-- the position, in its parent, of the border node `find_border` reaches (`none` for a root
    border): the child index taken at the deepest interior node of the descent -/
def leafIdx : BTree → KT → Option Nat
  | .border _ _, _ => none
  | .interior _ keys children, k => leafIdxAt children (routeIdx k keys) (routeIdx k keys) k
def leafIdxAt : List BTree → Nat → Nat → KT → Option Nat
  | [], _, i, _ => some i
  | c :: _, 0, i, k => match leafIdx c k with | none => some i | some j => some j
  | _ :: cs, n + 1, i, k => leafIdxAt cs n i k
end

theorem leafIdxAt_at : ∀ (ca : List BTree) (c : BTree) (cb : List BTree) (i : Nat) (k : KT),
    leafIdxAt (ca ++ c :: cb) ca.length i k =
      match leafIdx c k with | none => some i | some j => some j
  | [], c, cb, i, k => by simp [leafIdxAt]
  | a :: ca, c, cb, i, k => by
    simp only [List.cons_append, List.length_cons, leafIdxAt]
    exact leafIdxAt_at ca c cb i k

theorem leafIdx_interior_ne_none (v : DVer) (ks : List KT) (cs : List BTree) (k : KT) :
    leafIdx (.interior v ks cs) k ≠ none := by
  simp only [leafIdx]
  generalize routeIdx k ks = i
  have : ∀ (cs : List BTree) (n : Nat), leafIdxAt cs n i k ≠ none := by
    intro cs
    induction cs with
    | nil => intro n; simp [leafIdxAt]
    | cons c cs ih =>
      intro n
      cases n with
      | zero => simp only [leafIdxAt]; cases leafIdx c k <;> simp
      | succ m => simp only [leafIdxAt]; exact ih m
  exact this cs i

/-- the leaf with the tuple deleted -/
def leafDel (l : DLeaf) (kt : KT) : DLeaf := ⟨l.fence, l.v, delEnt kt l.ents⟩

/-- the expected chain of a subtree that stays after `rem`: `A ++ l :: B` is its old chain, `l` the
    leaf owning `kt`. If the last entry of `l` goes, the leaf disappears; `first` says that it was
    child 0 of its parent, in which case the next leaf inherits its fence. -/
def remChain (first : Bool) (A : List DLeaf) (l : DLeaf) (B : List DLeaf) (kt : KT) : List DLeaf :=
  if l.ents.any (fun x => delMatch kt x.kt) = true then
    if l.ents.length = 1 then (if first = true then A ++ setHeadFence l.fence B else A ++ B)
    else A ++ leafDel l kt :: B
  else A ++ l :: B

theorem setHeadFence_append (f : Option KT) (B C : List DLeaf) (h : B ≠ []) :
    setHeadFence f (B ++ C) = setHeadFence f B ++ C := by
  cases B with
  | nil => exact absurd rfl h
  | cons b bs => rfl

/-- what `rem` hands upwards -/
def RemOK (t : BTree) (lo : Option KT) (A : List DLeaf) (l : DLeaf) (B : List DLeaf) (kt : KT) :
    RemRes → Prop
  | .kept t' => IntOK t' ∧ chainOf t' lo = remChain (leafIdx t kt == some 0) A l B kt ∧
      ((∃ v ents, t = .border v ents) →
        ¬ (l.ents.any (fun x => delMatch kt x.kt) = true ∧ l.ents.length = 1))
  | .gone => (∃ v ents, t = .border v ents) ∧ l.ents.length = 1 ∧
      l.ents.any (fun x => delMatch kt x.kt) = true

theorem rem_border_spec (v : DVer) (ents : List DEnt) (lo : Option KT) (kt : KT)
    (hok : IntOK (.border v ents)) :
    RemOK (.border v ents) lo [] ⟨lo, v, ents⟩ [] kt (remBorder v ents kt) := by
  simp only [IntOK] at hok
  unfold remBorder
  by_cases hany : ents.any (fun e => delMatch kt e.kt) = true
  · rw [if_pos hany]
    by_cases h1 : ents.length = 1
    · have : (ents.length == 1) = true := by simp [h1]
      rw [if_pos this]
      exact ⟨⟨v, ents, rfl⟩, h1, hany⟩
    · have : ¬ (ents.length == 1) = true := by simpa using h1
      rw [if_neg this]
      simp only [RemOK]
      refine ⟨?_, ?_, fun _ h => h1 h.2⟩
      · simp only [IntOK]
        have := (delEnt_sublist kt ents).length_le
        omega
      · simp [chainOf, remChain, hany, h1, leafDel]
  · rw [if_neg hany]
    simp only [RemOK]
    refine ⟨hok, ?_, fun _ h => hany h.1⟩
    simp [chainOf, remChain, hany]

theorem exists_snoc {α} (l : List α) (h : l ≠ []) : ∃ a x, l = a ++ [x] := by
  have hl : 0 < l.length := List.length_pos_iff.mpr h
  obtain ⟨a, c, b, hab, hal⟩ := exists_split_at l (l.length - 1) (by omega)
  have : b = [] := by
    have := congrArg List.length hab
    simp only [List.length_append, List.length_cons] at this
    cases b with
    | nil => rfl
    | cons _ _ => simp at this; omega
  subst this
  exact ⟨a, c, hab⟩

/-- the child `get_child_of` picks, with its bounds: everything the descent into it needs -/
theorem child_bounds (v : DVer) (ks : List KT) (cs : List BTree) (lo hi : Option KT) (k : KT)
    (hok : IntOK (.interior v ks cs)) (hord : ChainOrd (chainOfChildren cs ks lo) hi)
    (hk : k.WF) (hge : geLo lo k) (hlt : ltHi k hi) :
    ∃ ka kb ca c cb hi', ks = ka ++ kb ∧ cs = ca ++ c :: cb ∧ routeIdx k ks = ka.length ∧
      ca.length = ka.length ∧ cb.length = kb.length ∧
      ChainOrd (chainOf c (lastOr lo ka)) hi' ∧ ltHi k hi' ∧ geLo (lastOr lo ka) k ∧
      (∀ x ∈ chainOfChildren cb kb.tail kb.head?, ∃ f, x.fence = some f ∧ KT.ltSpec k f = true) ∧
      (cb ≠ [] → chainOfChildren cb kb.tail kb.head? ≠ []) := by
  simp only [IntOK] at hok
  obtain ⟨hk1, hk15, hlen, hsorted, hkw, hv, hcs⟩ := hok
  obtain ⟨ka, kb, hks, hri, hka, hkb⟩ := routeIdx_decomp k ks
  subst hks
  have hlt' : ka.length < cs.length := by simp at hlen; omega
  obtain ⟨ca, c, cb, hcsd, hcal⟩ := exists_split_at cs ka.length hlt'
  subst hcsd
  have hcbl : cb.length = kb.length := by simp at hlen; omega
  rw [chainCh_focus ca c cb ka kb lo hcal] at hord
  have hcbok : IntOKList cb := by
    have := hcs.append_right; simp only [IntOKList] at this; exact this.2
  have hkwf : ∀ x ∈ ka ++ kb, x.WF := fun x hx => (hkw x hx).1
  have l1 : geLo (lastOr lo ka) k := by
    unfold lastOr
    cases hz : ka.getLast? with
    | none => exact hge
    | some z =>
      intro f hf
      simp only [Option.some.injEq] at hf; subst hf
      have hzm : z ∈ ka := List.mem_of_getLast? hz
      rw [← routeLeft_eq k z hk (hkwf z (by simp [hzm]))]
      exact hka z hzm
  cases kb with
  | nil =>
    have : cb = [] := by cases cb with | nil => rfl | cons _ _ => simp at hcbl
    subst this
    refine ⟨ka, [], ca, c, [], hi, rfl, rfl, hri, hcal, rfl, ?_, hlt, l1, by simp [chainCh_nil],
      fun h => absurd rfl h⟩
    have := hord.right
    rw [chainCh_nil, List.append_nil] at this
    exact this
  | cons h kb' =>
    have hcbl' : cb.length = kb'.length + 1 := by simpa using hcbl
    obtain ⟨v', e', rest', hcb, _⟩ := chainCh_head cb kb' (some h) hcbok hcbl'
    simp only [List.tail_cons, List.head?_cons] at hord
    rw [hcb] at hord
    have hhw : h.WF := hkwf h (by simp)
    have hkh : KT.ltSpec k h = true := by
      rw [← routeLeft_eq k h hk hhw]; exact hkb h rfl
    refine ⟨ka, h :: kb', ca, c, cb, some h, rfl, rfl, hri, hcal, hcbl, hord.right.left,
      fun x hx => by cases hx; exact hkh, l1, ?_, fun _ => by
        simp only [List.tail_cons, List.head?_cons]; rw [hcb]; simp⟩
    intro x hx
    simp only [List.tail_cons, List.head?_cons] at hx
    rw [hcb] at hx
    rcases List.mem_cons.mp hx with e | e
    · rw [e]; exact ⟨h, rfl, hkh⟩
    · have := (List.pairwise_cons.mp hord.right.right.fsorted).1 x e
      obtain ⟨g, hg, hgt⟩ := this
      exact ⟨g, hg, lt_trans' hkh (hgt h rfl)⟩

theorem rem_spec : ∀ (n : Nat) (t : BTree) (lo hi : Option KT) (kt : KT), nodeCount t ≤ n →
    IntOK t → ChainOrd (chainOf t lo) hi → kt.WF → geLo lo kt → ltHi kt hi →
    ∃ A l B, chainOf t lo = A ++ l :: B ∧ geLo l.fence kt ∧
      (∀ x ∈ B, ∃ f, x.fence = some f ∧ KT.ltSpec kt f = true) ∧
      (leafIdx t kt = some 0 → B ≠ []) ∧
      RemOK t lo A l B kt (rem t kt)
  | 0, t, _, _, _, hn, _, _, _, _, _ => by
    cases t <;> simp [nodeCount] at hn
  | n + 1, .border v ents, lo, hi, kt, _, hok, _, _, hge, _ => by
    refine ⟨[], ⟨lo, v, ents⟩, [], by simp [chainOf], hge, by simp, by simp [leafIdx], ?_⟩
    simp only [rem]
    exact rem_border_spec v ents lo kt hok
  | n + 1, .interior v ks cs, lo, hi, kt, hn, hok, hord, hk, hge, hlt => by
    simp only [chainOf] at hord ⊢
    obtain ⟨ka, kb, ca, c, cb, hi', hks, hcsd, hri, hcal, hcbl, u1, u2, l1, u4, u5⟩ :=
      child_bounds v ks cs lo hi kt hok hord hk hge hlt
    subst hks hcsd
    have hok' := hok
    simp only [IntOK] at hok
    obtain ⟨hk1, hk15, hlen, hsorted, hkw, hv, hcs⟩ := hok
    have hfocus := chainCh_focus ca c cb ka kb lo hcal
    have hcok : IntOK c := (intOKList_iff _).mp hcs c (by simp)
    have hcaok : IntOKList ca := hcs.append_left
    have hcbok : IntOKList cb := by
      have := hcs.append_right; simp only [IntOKList] at this; exact this.2
    have hcn : nodeCount c ≤ n := by
      have := nodeCount_child_lt v (ka ++ kb) (ca ++ c :: cb) c (by simp)
      omega
    obtain ⟨A, l, B, hcc, hlge, hB, hfirst, hrem⟩ := rem_spec n c (lastOr lo ka) hi' kt hcn hcok u1 hk l1 u2
    have hli : leafIdx (.interior v (ka ++ kb) (ca ++ c :: cb)) kt =
        match leafIdx c kt with | none => some ca.length | some j => some j := by
      simp only [leafIdx]
      rw [hri, ← hcal, leafIdxAt_at]
    refine ⟨chainOfChildren ca ka lo ++ A, l, B ++ chainOfChildren cb kb.tail kb.head?, ?_, hlge, ?_, ?_, ?_⟩
    · rw [hfocus, hcc]; simp
    · intro x hx
      rcases List.mem_append.mp hx with h | h
      · exact hB x h
      · exact u4 x h
    · rw [hli]
      intro h0
      cases hlc : leafIdx c kt with
      | none =>
        rw [hlc] at h0
        simp only [Option.some.injEq] at h0
        have hka0 : ka = [] := List.eq_nil_of_length_eq_zero (by omega)
        have hcb : cb ≠ [] := by
          intro h; subst h; subst hka0
          have hkb0 : kb = [] := List.eq_nil_of_length_eq_zero (by simpa using hcbl.symm)
          subst hkb0; simp at hk1
        have := u5 hcb
        intro h
        exact this (List.append_eq_nil_iff.mp h).2
      | some j =>
        rw [hlc] at h0
        simp only [Option.some.injEq] at h0
        subst h0
        have := hfirst hlc
        intro h
        exact this (List.append_eq_nil_iff.mp h).1
    · simp only [rem]
      rw [hri, ← hcal, remChild_at]
      cases hr : rem c kt with
      | kept c' =>
        rw [hr] at hrem
        simp only [RemOK] at hrem ⊢
        obtain ⟨hc'ok, hc'ch, hc'b⟩ := hrem
        refine ⟨?_, ?_, fun ⟨_, _, h⟩ => by cases h⟩
        · simp only [IntOK]
          refine ⟨hk1, hk15, by simp at hlen ⊢; omega, hsorted, hkw, hv, ?_⟩
          rw [intOKList_iff] at hcs ⊢
          intro d hd
          simp only [List.mem_append, List.mem_cons] at hd
          rcases hd with h | h | h
          · exact hcs d (by simp [h])
          · rw [h]; exact hc'ok
          · exact hcs d (by simp [h])
        · simp only [chainOf]
          rw [chainCh_focus ca c' cb ka kb lo hcal, hc'ch, hli]
          unfold remChain
          by_cases hany : l.ents.any (fun x => delMatch kt x.kt) = true
          · rw [if_pos hany, if_pos hany]
            by_cases h1 : l.ents.length = 1
            · rw [if_pos h1, if_pos h1]
              -- the child is an interior node: a border child would have asked to be unlinked
              cases c with
              | border v' ents' => exact absurd ⟨hany, h1⟩ (hc'b ⟨v', ents', rfl⟩)
              | interior v' ks' cs' =>
                cases hlc : leafIdx (.interior v' ks' cs') kt with
                | none => exact absurd hlc (leafIdx_interior_ne_none v' ks' cs' kt)
                | some j =>
                  simp only
                  by_cases hj : j = 0
                  · subst hj
                    have hBne : B ≠ [] := hfirst hlc
                    simp only [BEq.rfl, if_true]
                    rw [setHeadFence_append _ B _ hBne]
                    simp
                  · have : (some j == some 0) = false := by simp [hj]
                    simp only [this, Bool.false_eq_true, if_false]
                    simp
            · rw [if_neg h1, if_neg h1]; simp
          · rw [if_neg hany, if_neg hany]; simp
      | gone =>
        rw [hr] at hrem
        simp only [RemOK] at hrem ⊢
        obtain ⟨⟨v', ents', hcb⟩, h1, hany⟩ := hrem
        subst hcb
        -- the child's chain is the single leaf
        simp only [chainOf] at hcc
        have hAB : A = [] ∧ l = ⟨lastOr lo ka, v', ents'⟩ ∧ B = [] := by
          cases A with
          | nil => simp at hcc; exact ⟨rfl, hcc.1.symm, hcc.2⟩
          | cons a as => simp at hcc
        obtain ⟨hA, hl, hB'⟩ := hAB
        subst hA hB'
        have hlf : l.fence = lastOr lo ka := by rw [hl]
        rw [hli]
        simp only [leafIdx, List.append_nil, List.nil_append]
        refine ⟨?_, ?_, fun ⟨_, _, h⟩ => by cases h⟩
        · -- the interior structure after `interior_node::delete_of`
          unfold interiorDel
          by_cases hone : (ka ++ kb).length = 1
          · have : ((ka ++ kb).length == 1) = true := by simp [hone]
            rw [if_pos this]
            simp only [List.length_append] at hone
            rw [intOKList_iff] at hcs
            by_cases hz : ca.length = 0
            · have hca : ca = [] := List.eq_nil_of_length_eq_zero hz
              subst hca
              cases cb with
              | nil => simp at hcbl; omega
              | cons c1 cb' => simp; exact hcs c1 (by simp)
            · cases ca with
              | nil => simp at hz
              | cons c0 ca' =>
                have : ca' = [] := List.eq_nil_of_length_eq_zero (by simp at hcal; omega)
                subst this
                simp; exact hcs c0 (by simp)
          · have : ¬ ((ka ++ kb).length == 1) = true := by simpa using hone
            rw [if_neg this]
            simp only [List.length_append] at hone
            by_cases hz : ca.length = 0
            · have hca : ca = [] := List.eq_nil_of_length_eq_zero hz
              subst hca
              have hka0 : ka = [] := List.eq_nil_of_length_eq_zero (by omega)
              subst hka0
              simp only [List.length_nil, BEq.rfl, if_true, List.nil_append]
              cases kb with
              | nil => simp at hk1
              | cons h kb' =>
                simp only [List.drop_succ_cons, List.drop_zero, IntOK]
                simp only [List.nil_append, List.length_cons] at hone hk15 hlen hcbl hsorted
                rw [List.pairwise_cons] at hsorted
                refine ⟨by omega, by omega, by simpa using hcbl, hsorted.2,
                  fun x hx => hkw x (by simp [hx]), hv, hcbok⟩
            · have hz' : ¬ (ca.length == 0) = true := by simpa using hz
              rw [if_neg hz']
              have hkane : ka ≠ [] := by intro h; rw [h] at hcal; exact hz hcal
              obtain ⟨ka', s, hka'⟩ := exists_snoc ka hkane
              subst hka'
              have e1 : (ka' ++ [s] ++ kb).eraseIdx (ca.length - 1) = ka' ++ kb := by
                have : ka' ++ [s] ++ kb = ka' ++ s :: kb := by simp
                rw [this, eraseIdx_append_length ka' kb s _ (by simp at hcal; omega)]
              have e2 : (ca ++ .border v' ents' :: cb).eraseIdx ca.length = ca ++ cb :=
                eraseIdx_append_length ca cb _ _ rfl
              rw [e1, e2]
              simp only [IntOK]
              simp only [List.length_append, List.length_cons, List.length_nil] at hone hk15 hlen hcal hk1 ⊢
              refine ⟨by omega, by omega, by omega, ?_, fun x hx => hkw x (by
                  simp only [List.mem_append] at hx ⊢
                  rcases hx with h | h
                  · exact Or.inl (Or.inl h)
                  · exact Or.inr h), hv, ?_⟩
              · have hsub : (ka' ++ kb).Sublist (ka' ++ [s] ++ kb) := by
                  rw [List.append_assoc]
                  exact List.Sublist.append (List.Sublist.refl ka') (List.sublist_append_right [s] kb)
                exact hsorted.sublist hsub
              · rw [intOKList_iff] at hcs ⊢
                intro d hd
                rcases List.mem_append.mp hd with h | h
                · exact hcs d (by simp [h])
                · exact hcs d (by simp [h])
        · -- the chain after `interior_node::delete_of`
          unfold remChain
          rw [if_pos hany, if_pos h1, hlf]
          unfold interiorDel
          by_cases hone : (ka ++ kb).length = 1
          · have : ((ka ++ kb).length == 1) = true := by simp [hone]
            rw [if_pos this]
            simp only [List.length_append] at hone
            by_cases hz : ca.length = 0
            · have hca : ca = [] := List.eq_nil_of_length_eq_zero hz
              subst hca
              have hka0 : ka = [] := List.eq_nil_of_length_eq_zero (by omega)
              subst hka0
              cases cb with
              | nil => simp at hcbl; omega
              | cons c1 cb' =>
                have : cb' = [] := List.eq_nil_of_length_eq_zero (by simp at hcbl hone; omega)
                subst this
                cases kb with
                | nil => simp at hone
                | cons h kb' =>
                  have hc1 : IntOK c1 := (intOKList_iff _).mp hcs c1 (by simp)
                  simp [chainCh_nil, chainCh_cons, lastOr_nil]
                  exact chainOf_lo c1 (some h) lo hc1.routeWF
            · cases ca with
              | nil => simp at hz
              | cons c0 ca' =>
                have : ca' = [] := List.eq_nil_of_length_eq_zero (by simp at hcal; omega)
                subst this
                have hkb0 : kb = [] := List.eq_nil_of_length_eq_zero (by simp at hcal; omega)
                subst hkb0
                have hcb0 : cb = [] := List.eq_nil_of_length_eq_zero (by simpa using hcbl)
                subst hcb0
                simp [chainCh_nil, chainCh_cons]
          · have : ¬ ((ka ++ kb).length == 1) = true := by simpa using hone
            rw [if_neg this]
            simp only [List.length_append] at hone
            by_cases hz : ca.length = 0
            · have hca : ca = [] := List.eq_nil_of_length_eq_zero hz
              subst hca
              have hka0 : ka = [] := List.eq_nil_of_length_eq_zero (by omega)
              subst hka0
              cases kb with
              | nil => simp at hk1
              | cons h kb' =>
                simp [chainCh_nil, chainOf, lastOr_nil]
                exact chainCh_lo cb kb' (some h) lo hcbok.routeWF
            · have hz' : ¬ (ca.length == 0) = true := by simpa using hz
              rw [if_neg hz']
              have hz2 : (some ca.length == some 0) = false := by simp [hz]
              simp only [hz2, Bool.false_eq_true, if_false]
              have hkane : ka ≠ [] := by intro h; rw [h] at hcal; exact hz hcal
              obtain ⟨ka', s, hka'⟩ := exists_snoc ka hkane
              subst hka'
              have hcane : ca ≠ [] := by intro h; subst h; simp at hz
              obtain ⟨ca', cl, hca'⟩ := exists_snoc ca hcane
              subst hca'
              have hl' : ca'.length = ka'.length := by simpa using hcal
              have e1 : (ka' ++ [s] ++ kb).eraseIdx ((ca' ++ [cl]).length - 1) = ka' ++ kb := by
                have : ka' ++ [s] ++ kb = ka' ++ s :: kb := by simp
                rw [this, eraseIdx_append_length ka' kb s _ (by simp; omega)]
              have e2 : (ca' ++ [cl] ++ .border v' ents' :: cb).eraseIdx (ca' ++ [cl]).length =
                  ca' ++ [cl] ++ cb := eraseIdx_append_length (ca' ++ [cl]) cb _ _ rfl
              rw [e1, e2]
              simp only [chainOf]
              have e3 : ca' ++ [cl] ++ cb = ca' ++ cl :: cb := by simp
              rw [e3, chainCh_focus ca' cl cb ka' kb lo hl',
                chainCh_focus ca' cl [] ka' [s] lo hl']
              simp [chainCh_nil]

/-! ### the order facts survive -/

theorem ChainOrd.sublist {ch ch' : List DLeaf} {hi : Option KT} (h : ChainOrd ch hi)
    (hs : ch'.Sublist ch) : ChainOrd ch' hi where
  fwf := fun l hl => h.fwf l (hs.subset hl)
  ewf := fun l hl => h.ewf l (hs.subset hl)
  fsorted := h.fsorted.sublist hs
  esorted := fun l hl => h.esorted l (hs.subset hl)
  ege := fun l hl => h.ege l (hs.subset hl)
  elt := h.elt.sublist hs
  fhi := fun l hl => h.fhi l (hs.subset hl)

/-- a new first leaf in front of `B` -/
theorem ChainOrd.replaceHead {l h' : DLeaf} {B : List DLeaf} {hi : Option KT}
    (h : ChainOrd (l :: B) hi)
    (hf : ∀ f, h'.fence = some f → f.WF ∧ ltHi f hi)
    (he : ∀ x ∈ h'.ents, x.kt.WF ∧ geLo h'.fence x.kt ∧ ltHi x.kt hi ∧ ∀ b ∈ B, ltHi x.kt b.fence)
    (hs : h'.ents.Pairwise (fun a b => KT.ltSpec a.kt b.kt = true))
    (hb : ∀ b ∈ B, ∃ g, b.fence = some g ∧ gtLo h'.fence g) : ChainOrd (h' :: B) hi := by
  have hB : ChainOrd B hi := ChainOrd.right (X := [l]) h
  refine ⟨?_, ?_, ?_, ?_, ?_, ?_, ?_⟩
  · intro x hx f hxf
    rcases List.mem_cons.mp hx with e | e
    · rw [e] at hxf; exact (hf f hxf).1
    · exact hB.fwf x e f hxf
  · intro x hx y hy
    rcases List.mem_cons.mp hx with e | e
    · rw [e] at hy; exact (he y hy).1
    · exact hB.ewf x e y hy
  · rw [List.pairwise_cons]; exact ⟨hb, hB.fsorted⟩
  · intro x hx
    rcases List.mem_cons.mp hx with e | e
    · rw [e]; exact hs
    · exact hB.esorted x e
  · intro x hx y hy
    rcases List.mem_cons.mp hx with e | e
    · rw [e] at hy ⊢; exact (he y hy).2.1
    · exact hB.ege x e y hy
  · rw [List.pairwise_cons]
    exact ⟨fun b hb' y hy => (he y hy).2.2.2 b hb', hB.elt⟩
  · intro x hx
    rcases List.mem_cons.mp hx with e | e
    · rw [e]; exact ⟨fun f hxf => (hf f hxf).2, fun y hy => (he y hy).2.2.1⟩
    · exact hB.fhi x e

/-- a chain below the first fence of another chain, in front of it -/
theorem ChainOrd.append {X Y : List DLeaf} {y0 : DLeaf} {hi : Option KT}
    (hX : ChainOrd X y0.fence) (hY : ChainOrd (y0 :: Y) hi)
    (hy : X = [] ∨ ∃ g, y0.fence = some g) : ChainOrd (X ++ y0 :: Y) hi := by
  rcases hy with hy | ⟨g0, hg0⟩
  · subst hy; exact hY
  have hg0hi : ltHi g0 hi := (hY.fhi y0 (by simp)).1 g0 hg0
  -- everything in `X` is below `g0`, which is below or equal to every fence of `y0 :: Y`
  have hbelow : ∀ y ∈ y0 :: Y, ∃ g, y.fence = some g ∧ (g = g0 ∨ KT.ltSpec g0 g = true) := by
    intro y hy
    rcases List.mem_cons.mp hy with e | e
    · rw [e]; exact ⟨g0, hg0, Or.inl rfl⟩
    · obtain ⟨g, hg, hgt⟩ := (List.pairwise_cons.mp hY.fsorted).1 y e
      exact ⟨g, hg, Or.inr (hgt g0 hg0)⟩
  refine ⟨?_, ?_, ?_, ?_, ?_, ?_, ?_⟩
  · intro x hx
    rcases List.mem_append.mp hx with e | e
    · exact hX.fwf x e
    · exact hY.fwf x e
  · intro x hx
    rcases List.mem_append.mp hx with e | e
    · exact hX.ewf x e
    · exact hY.ewf x e
  · rw [List.pairwise_append]
    refine ⟨hX.fsorted, hY.fsorted, ?_⟩
    intro x hx y hy
    obtain ⟨g, hg, hgg⟩ := hbelow y hy
    refine ⟨g, hg, ?_⟩
    intro f hf
    have := (hX.fhi x hx).1 f hf g0 hg0
    rcases hgg with e | e
    · rw [e]; exact this
    · exact lt_trans' this e
  · intro x hx
    rcases List.mem_append.mp hx with e | e
    · exact hX.esorted x e
    · exact hY.esorted x e
  · intro x hx
    rcases List.mem_append.mp hx with e | e
    · exact hX.ege x e
    · exact hY.ege x e
  · rw [List.pairwise_append]
    refine ⟨hX.elt, hY.elt, ?_⟩
    intro x hx y hy z hz g hg
    obtain ⟨g', hg', hgg⟩ := hbelow y hy
    rw [hg] at hg'; simp only [Option.some.injEq] at hg'; subst hg'
    have := (hX.fhi x hx).2 z hz g0 hg0
    rcases hgg with e | e
    · rw [e]; exact this
    · exact lt_trans' this e
  · intro x hx
    rcases List.mem_append.mp hx with e | e
    · refine ⟨?_, ?_⟩
      · intro f hf h hh
        exact lt_trans' ((hX.fhi x e).1 f hf g0 hg0) (hg0hi h hh)
      · intro z hz h hh
        exact lt_trans' ((hX.fhi x e).2 z hz g0 hg0) (hg0hi h hh)
    · exact hY.fhi x e

/-- the fence of the leaf after `A` exists as soon as `A` is not empty -/
theorem ChainOrd.mid_fence {A B : List DLeaf} {l : DLeaf} {hi : Option KT}
    (h : ChainOrd (A ++ l :: B) hi) : A = [] ∨ ∃ g, l.fence = some g := by
  cases A with
  | nil => exact Or.inl rfl
  | cons a as =>
    obtain ⟨g, hg, _⟩ := (List.pairwise_append.mp h.fsorted).2.2 a (by simp) l (by simp)
    exact Or.inr ⟨g, hg⟩

/-- `leafIns` keeps the order facts of the chain -/
theorem leafIns_chainOrd (A : List DLeaf) (l : DLeaf) (B : List DLeaf) (hi : Option KT) (e : DEnt)
    (hord : ChainOrd (A ++ l :: B) hi) (hk : e.kt.WF) (hge : geLo l.fence e.kt)
    (hlt : ltHi e.kt hi) (hB : ∀ x ∈ B, ∃ f, x.fence = some f ∧ KT.ltSpec e.kt f = true)
    (habs : ∀ x ∈ l.ents, x.kt ≠ e.kt) : ChainOrd (A ++ leafIns l e ++ B) hi := by
  have hlB : ChainOrd (l :: B) hi := hord.right
  have hlm : l ∈ l :: B := by simp
  have hw : ∀ x ∈ l.ents, x.kt.WF := hlB.ewf l hlm
  have hs := hlB.esorted l hlm
  obtain ⟨a, b, h0, ha, hb⟩ := sorted_decomp hk l.ents hw hs habs
  obtain ⟨_, hne, hfull⟩ := leafIns_spec l e a b hk h0 hw hs ha hb
  have hsorted : (a ++ e :: b).Pairwise (fun x y => KT.ltSpec x.kt y.kt = true) :=
    sorted_insert (h0 ▸ hs) ha hb
  -- every entry of the new leaf/leaves is `e` or an old entry
  have hmem : ∀ x ∈ a ++ e :: b, x.kt.WF ∧ geLo l.fence x.kt ∧ ltHi x.kt hi ∧
      ∀ b' ∈ B, ltHi x.kt b'.fence := by
    intro x hx
    have : x = e ∨ x ∈ l.ents := by
      rw [h0]; simp only [List.mem_append, List.mem_cons] at hx ⊢
      rcases hx with h | h | h
      · exact Or.inr (Or.inl h)
      · exact Or.inl h
      · exact Or.inr (Or.inr h)
    rcases this with h | h
    · rw [h]
      refine ⟨hk, hge, hlt, ?_⟩
      intro b' hb' g hg
      obtain ⟨f, hf, hef⟩ := hB b' hb'
      rw [hg] at hf; simp only [Option.some.injEq] at hf; rw [hf]; exact hef
    · exact ⟨hw x h, hlB.ege l hlm x h, (hlB.fhi l hlm).2 x h,
        fun b' hb' => (List.pairwise_cons.mp hlB.elt).1 b' hb' x h⟩
  have hfl : ∀ f, l.fence = some f → f.WF ∧ ltHi f hi :=
    fun f hf => ⟨hlB.fwf l hlm f hf, (hlB.fhi l hlm).1 f hf⟩
  have hbl : ∀ b' ∈ B, ∃ g, b'.fence = some g ∧ gtLo l.fence g :=
    (List.pairwise_cons.mp hlB.fsorted).1
  by_cases h15 : l.ents.length = 15
  · obtain ⟨L, r, R, hLne, hLR, _, hleaf⟩ := hfull h15
    rw [hleaf]
    rw [← hLR] at hsorted hmem
    obtain ⟨y, hy⟩ := List.exists_mem_of_ne_nil L hLne
    have hsL := List.pairwise_append.mp hsorted
    have hyr : KT.ltSpec y.kt r.kt = true := hsL.2.2 y hy r (by simp)
    have hrm := hmem r (by simp)
    have hym := hmem y (by simp [hy])
    have hlr : gtLo l.fence r.kt := by
      intro f hf
      exact le_lt_trans (hfl f hf).1 hrm.1 (hym.2.1 f hf) hyr
    -- the right half in front of `B`
    have h2 : ChainOrd (⟨some r.kt, l.v, r :: R⟩ :: B) hi := by
      apply hlB.replaceHead
      · intro f hf
        simp only [Option.some.injEq] at hf; subst hf
        exact ⟨hrm.1, hrm.2.2.1⟩
      · intro x hx
        have hxm := hmem x (by simp only [List.mem_append]; exact Or.inr hx)
        refine ⟨hxm.1, ?_, hxm.2.2.1, hxm.2.2.2⟩
        intro f hf
        simp only [Option.some.injEq] at hf; subst hf
        rcases List.mem_cons.mp hx with e' | e'
        · rw [e']; exact KT.ltSpec_irrefl _
        · exact lt_asymm ((List.pairwise_cons.mp hsL.2.1).1 x e')
      · exact hsL.2.1
      · intro b' hb'
        obtain ⟨g, hg, _⟩ := hbl b' hb'
        refine ⟨g, hg, ?_⟩
        intro f hf
        simp only [Option.some.injEq] at hf; subst hf
        exact hrm.2.2.2 b' hb' g hg
    -- the left half below the separator
    have h1 : ChainOrd [⟨l.fence, l.v, L⟩] (some r.kt) := by
      refine ⟨?_, ?_, by simp, ?_, ?_, by simp, ?_⟩
      · intro x hx f hf
        simp only [List.mem_singleton] at hx; subst hx
        exact (hfl f hf).1
      · intro x hx z hz
        simp only [List.mem_singleton] at hx; subst hx
        exact (hmem z (by simp [hz])).1
      · intro x hx
        simp only [List.mem_singleton] at hx; subst hx
        exact hsL.1
      · intro x hx z hz
        simp only [List.mem_singleton] at hx; subst hx
        exact (hmem z (by simp [hz])).2.1
      · intro x hx
        simp only [List.mem_singleton] at hx; subst hx
        refine ⟨?_, ?_⟩
        · intro f hf h hh
          simp only [Option.some.injEq] at hh; subst hh
          exact hlr f hf
        · intro z hz h hh
          simp only [Option.some.injEq] at hh; subst hh
          exact hsL.2.2 z hz r (by simp)
    have h12 : ChainOrd (⟨l.fence, l.v, L⟩ :: ⟨some r.kt, l.v, r :: R⟩ :: B) hi :=
      ChainOrd.append (X := [⟨l.fence, l.v, L⟩]) h1 h2 (Or.inr ⟨r.kt, rfl⟩)
    have := ChainOrd.append (y0 := ⟨l.fence, l.v, L⟩) hord.left h12 hord.mid_fence
    simpa using this
  · rw [hne h15]
    have h1 : ChainOrd (⟨l.fence, l.v, a ++ e :: b⟩ :: B) hi := by
      apply hlB.replaceHead
      · exact hfl
      · exact hmem
      · exact hsorted
      · exact hbl
    have := ChainOrd.append (y0 := ⟨l.fence, l.v, a ++ e :: b⟩) hord.left h1 hord.mid_fence
    simpa using this

/-- the chain `rem` leaves behind keeps the order facts -/
theorem remChain_chainOrd (first : Bool) (A : List DLeaf) (l : DLeaf) (B : List DLeaf)
    (hi : Option KT) (kt : KT) (hord : ChainOrd (A ++ l :: B) hi) :
    ChainOrd (remChain first A l B kt) hi := by
  have hlB : ChainOrd (l :: B) hi := hord.right
  have hlm : l ∈ l :: B := by simp
  have hfl : ∀ f, l.fence = some f → f.WF ∧ ltHi f hi :=
    fun f hf => ⟨hlB.fwf l hlm f hf, (hlB.fhi l hlm).1 f hf⟩
  have hbl : ∀ b' ∈ B, ∃ g, b'.fence = some g ∧ gtLo l.fence g :=
    (List.pairwise_cons.mp hlB.fsorted).1
  unfold remChain
  by_cases hany : l.ents.any (fun x => delMatch kt x.kt) = true
  · rw [if_pos hany]
    by_cases h1 : l.ents.length = 1
    · rw [if_pos h1]
      by_cases hf : first = true
      · rw [if_pos hf]
        cases B with
        | nil => simpa [setHeadFence] using hord.leftAll
        | cons b0 B' =>
          have hbB : ChainOrd (b0 :: B') hi := ChainOrd.right (X := [l]) hlB
          have hb0m : b0 ∈ b0 :: B' := by simp
          obtain ⟨g0, hg0, hlg0⟩ := hbl b0 (by simp)
          have h1' : ChainOrd ({ b0 with fence := l.fence } :: B') hi := by
            apply hbB.replaceHead
            · exact hfl
            · intro x hx
              refine ⟨hbB.ewf b0 hb0m x hx, ?_, (hbB.fhi b0 hb0m).2 x hx,
                fun b' hb' => (List.pairwise_cons.mp hbB.elt).1 b' hb' x hx⟩
              intro f hf'
              have hxg : KT.ltSpec x.kt g0 = false := hbB.ege b0 hb0m x hx g0 hg0
              cases hxf : KT.ltSpec x.kt f with
              | false => rfl
              | true =>
                have := lt_trans' hxf (hlg0 f hf')
                rw [this] at hxg; cases hxg
            · exact hbB.esorted b0 hb0m
            · intro b' hb'
              exact hbl b' (by simp [hb'])
          have := ChainOrd.append (y0 := { b0 with fence := l.fence }) hord.left h1' hord.mid_fence
          simpa [setHeadFence] using this
      · rw [if_neg hf]
        apply hord.sublist
        exact List.Sublist.append (List.Sublist.refl A) (List.sublist_cons_self l B)
    · rw [if_neg h1]
      have hsub := delEnt_sublist kt l.ents
      have h1' : ChainOrd (leafDel l kt :: B) hi := by
        apply hlB.replaceHead
        · exact hfl
        · intro x hx
          have hx' : x ∈ l.ents := hsub.subset hx
          exact ⟨hlB.ewf l hlm x hx', hlB.ege l hlm x hx', (hlB.fhi l hlm).2 x hx',
            fun b' hb' => (List.pairwise_cons.mp hlB.elt).1 b' hb' x hx'⟩
        · exact (hlB.esorted l hlm).sublist hsub
        · exact hbl
      exact ChainOrd.append (y0 := leafDel l kt) hord.left h1' hord.mid_fence
  · rw [if_neg hany]; exact hord

/-! ### the layer: `insertB`, `removeB` -/

/-- the chain of an interior node has at least two leaves -/
theorem chain_two_leaves (v : DVer) (ks : List KT) (cs : List BTree) (lo : Option KT)
    (hok : IntOK (.interior v ks cs)) : 2 ≤ (chainOf (.interior v ks cs) lo).length := by
  simp only [IntOK] at hok
  obtain ⟨hk1, _, hlen, _, _, _, hcs⟩ := hok
  cases cs with
  | nil => simp at hlen
  | cons c0 cs' =>
    cases cs' with
    | nil => simp only [List.length_cons, List.length_nil] at hlen; omega
    | cons c1 cs'' =>
      simp only [IntOKList] at hcs
      have h0 := chainOf_ne_nil c0 lo hcs.1.routeWF
      have h1 := chainOf_ne_nil c1 ks.head? hcs.2.1.routeWF
      simp only [chainOf, chainCh_cons, List.length_append]
      have := List.length_pos_iff.mpr h0
      have := List.length_pos_iff.mpr h1
      omega

theorem removeB_spec (t : BTree) (kt : KT) (hok : IntOK t)
    (hord : ChainOrd (chainOf t none) none) (hk : kt.WF) :
    ∃ A l B, chainOf t none = A ++ l :: B ∧ geLo l.fence kt ∧
      (∀ x ∈ B, ∃ f, x.fence = some f ∧ KT.ltSpec kt f = true) ∧
      (leafIdx t kt = some 0 → B ≠ []) ∧
      IntOK (removeB t kt) ∧
      chainOf (removeB t kt) none =
        (if l.ents.any (fun x => delMatch kt x.kt) = true ∧ l.ents.length = 1 ∧ (A ≠ [] ∨ B ≠ []) then
          (if leafIdx t kt = some 0 then A ++ setHeadFence l.fence B else A ++ B)
        else A ++ leafDel l kt :: B) := by
  cases t with
  | border v ents =>
    refine ⟨[], ⟨none, v, ents⟩, [], by simp [chainOf], (fun f hf => by cases hf), by simp,
      by simp [leafIdx], ?_, ?_⟩
    · simp only [removeB, IntOK] at hok ⊢
      have := (delEnt_sublist kt ents).length_le
      omega
    · simp [removeB, chainOf, leafDel]
  | interior v ks cs =>
    obtain ⟨A, l, B, hch, hge, hB, hfirst, hrem⟩ := rem_spec (nodeCount (.interior v ks cs))
      (.interior v ks cs) none none kt (Nat.le_refl _) hok hord hk (fun f hf => by cases hf)
      (fun h hh => by cases hh)
    refine ⟨A, l, B, hch, hge, hB, hfirst, ?_⟩
    have h2 := chain_two_leaves v ks cs none hok
    have hAB : A ≠ [] ∨ B ≠ [] := by
      rw [hch] at h2
      simp only [List.length_append, List.length_cons] at h2
      cases A with
      | cons _ _ => exact Or.inl (by simp)
      | nil =>
        cases B with
        | cons _ _ => exact Or.inr (by simp)
        | nil => simp at h2
    cases hr : rem (.interior v ks cs) kt with
    | gone =>
      rw [hr] at hrem
      obtain ⟨⟨_, _, h⟩, _⟩ := hrem
      cases h
    | kept t' =>
      rw [hr] at hrem
      simp only [RemOK] at hrem
      have hrb : removeB (.interior v ks cs) kt = t' := by simp only [removeB, hr]
      rw [hrb]
      refine ⟨hrem.1, ?_⟩
      rw [hrem.2.1]
      unfold remChain
      by_cases hany : l.ents.any (fun x => delMatch kt x.kt) = true
      · by_cases h1 : l.ents.length = 1
        · have hc : l.ents.any (fun x => delMatch kt x.kt) = true ∧ l.ents.length = 1 ∧
              (A ≠ [] ∨ B ≠ []) := ⟨hany, h1, hAB⟩
          rw [if_pos hc, if_pos hany, if_pos h1]
          by_cases h0 : leafIdx (.interior v ks cs) kt = some 0
          · rw [if_pos h0, h0]; rfl
          · have : (leafIdx (.interior v ks cs) kt == some 0) = false := by
              cases hli : leafIdx (.interior v ks cs) kt with
              | none => rfl
              | some j =>
                rw [hli] at h0
                have : j ≠ 0 := fun e => h0 (by rw [e])
                simp [this]
            rw [if_neg h0, this]; rfl
        · have hc : ¬ (l.ents.any (fun x => delMatch kt x.kt) = true ∧ l.ents.length = 1 ∧
              (A ≠ [] ∨ B ≠ [])) := fun h => h1 h.2.1
          rw [if_neg hc, if_pos hany, if_neg h1]
      · have hc : ¬ (l.ents.any (fun x => delMatch kt x.kt) = true ∧ l.ents.length = 1 ∧
            (A ≠ [] ∨ B ≠ [])) := fun h => hany h.1
        rw [if_neg hc, if_neg hany]
        simp [leafDel, delEnt_none kt l.ents (by simpa using hany)]

/-! ### back to the notions of `Route` and to `checkLayer` -/

theorem fencesSorted_of_chainOrd {ch : List DLeaf} {hi : Option KT} (h : ChainOrd ch hi) :
    fencesSorted ch := by
  unfold fencesSorted
  refine List.Pairwise.imp_of_mem ?_ h.fsorted
  intro a b ha hb hab
  obtain ⟨g, hg, hgt⟩ := hab
  rw [hg]
  cases hf : a.fence with
  | none => rfl
  | some f =>
    simp only [fenceLt]
    rw [KT.lt_eq_ltSpec f g (h.fwf a ha f hf) (h.fwf b hb g hg)]
    exact hgt f hf

/-- the leaf singled out by `ins_spec` / `rem_spec` is the one the fence rule picks -/
theorem owner_byFence {A B : List DLeaf} {l : DLeaf} {hi : Option KT} {k : KT}
    (hord : ChainOrd (A ++ l :: B) hi) (hk : k.WF) (hge : geLo l.fence k)
    (hB : ∀ x ∈ B, ∃ f, x.fence = some f ∧ KT.ltSpec k f = true) :
    byFence (A ++ l :: B) k = some l ∧ fenceLe l.fence k = true ∧
      ∀ x ∈ B, fenceLe x.fence k = false := by
  have hl : fenceLe l.fence k = true := by
    cases hf : l.fence with
    | none => rfl
    | some f =>
      simp only [fenceLe]
      rw [KT.lt_eq_ltSpec k f hk (hord.fwf l (by simp) f hf), hge f hf]; rfl
  have hBf : ∀ x ∈ B, fenceLe x.fence k = false := by
    intro x hx
    obtain ⟨f, hf, hkf⟩ := hB x hx
    rw [hf]
    simp only [fenceLe]
    rw [KT.lt_eq_ltSpec k f hk (hord.fwf x (by simp [hx]) f hf), hkf]; rfl
  refine ⟨?_, hl, hBf⟩
  have e1 : l :: B = [l] ++ B := rfl
  rw [byFence_append, e1, byFence_append, byFence_eq_none B k hBf, byFence_singleton l k hl]
  rfl

/-- the per-leaf order facts `checkChain` evaluates -/
def leafStep (l : DLeaf) (hi : Option KT) : Prop :=
  sortedKTs (l.ents.map (·.kt)) = true ∧ (∀ e ∈ l.ents, e.kt.WF) ∧
  (∀ f, l.fence = some f → f.WF ∧ ∀ e ∈ l.ents, KT.lt e.kt f = false) ∧
  (∀ h, hi = some h → (∀ e ∈ l.ents, KT.lt e.kt h = true) ∧ ∀ f, l.fence = some f → KT.lt f h = true)

theorem checkChain_leafStep (pe : Bool) (ch : List DLeaf) (h : checkChain pe ch = true) :
    ∀ p ∈ ch.zip (ch.tail.map (·.fence) ++ [none]), leafStep p.1 p.2 := by
  cases ch with
  | nil => simp [checkChain] at h
  | cons c cs =>
    simp only [checkChain, List.all_eq_true] at h
    intro p hp
    have hp' := h p hp
    obtain ⟨l, hi⟩ := p
    simp only [Bool.and_eq_true] at hp'
    obtain ⟨⟨⟨⟨⟨⟨⟨h1, h2⟩, _⟩, h4⟩, h5⟩, _⟩, _⟩, _⟩ := hp'
    refine ⟨h1, ?_, ?_, ?_⟩
    · intro e he
      have := List.all_eq_true.mp h2 e he
      simp only [entWF, Bool.and_eq_true, decide_eq_true_eq] at this
      exact this.1
    · intro f hf
      rw [hf] at h4
      simp only [Bool.and_eq_true, List.all_eq_true, decide_eq_true_eq, ktLt,
        Bool.not_eq_eq_eq_not, Bool.not_true] at h4
      exact ⟨h4.1.2, h4.1.1⟩
    · intro hh hhi
      dsimp only at hhi
      rw [hhi] at h5
      simp only [Bool.and_eq_true, List.all_eq_true, ktLt] at h5
      refine ⟨h5.1, ?_⟩
      intro f hf
      have := h5.2
      rw [hf] at this
      exact this

theorem chainOrd_of_steps : ∀ (c : DLeaf) (cs : List DLeaf),
    (∀ p ∈ (c :: cs).zip (cs.map (·.fence) ++ [none]), leafStep p.1 p.2) →
    (∀ l ∈ cs, l.fence.isSome = true) → ChainOrd (c :: cs) none
  | c, cs, h, hsome => by
    -- the first leaf alone, below the next fence
    have hfirst : ∀ hi, leafStep c hi → (∀ g, hi = some g → g.WF) → ChainOrd [c] hi := by
      intro hi hst hgw
      obtain ⟨s1, s2, s3, s4⟩ := hst
      have hsrt : c.ents.Pairwise (fun a b => KT.ltSpec a.kt b.kt = true) := by
        have := pairwise_of_sortedKTs (c.ents.map (·.kt)) (by
          intro k hk; obtain ⟨x, hx, rfl⟩ := List.mem_map.mp hk; exact s2 x hx) s1
        rwa [List.pairwise_map] at this
      refine ⟨?_, ?_, by simp, ?_, ?_, by simp, ?_⟩
      · intro l hl f hf
        simp only [List.mem_singleton] at hl; subst hl
        exact (s3 f hf).1
      · intro l hl e he
        simp only [List.mem_singleton] at hl; subst hl
        exact s2 e he
      · intro l hl
        simp only [List.mem_singleton] at hl; subst hl
        exact hsrt
      · intro l hl e he f hf
        simp only [List.mem_singleton] at hl; subst hl
        rw [← KT.lt_eq_ltSpec e.kt f (s2 e he) (s3 f hf).1]
        exact (s3 f hf).2 e he
      · intro l hl
        simp only [List.mem_singleton] at hl; subst hl
        refine ⟨?_, ?_⟩
        · intro f hf g hg
          rw [← KT.lt_eq_ltSpec f g (s3 f hf).1 (hgw g hg)]
          exact (s4 g hg).2 f hf
        · intro e he g hg
          rw [← KT.lt_eq_ltSpec e.kt g (s2 e he) (hgw g hg)]
          exact (s4 g hg).1 e he
    cases cs with
    | nil =>
      exact hfirst none (h (c, none) (by simp)) (fun g hg => by cases hg)
    | cons d ds =>
      have h1 := h (c, d.fence) (by simp)
      have htl : ∀ p ∈ (d :: ds).zip (ds.map (·.fence) ++ [none]), leafStep p.1 p.2 := by
        intro p hp
        apply h p
        simp only [List.map_cons, List.cons_append, List.zip_cons_cons, List.mem_cons]
        exact Or.inr hp
      have ih := chainOrd_of_steps d ds htl (fun l hl => hsome l (by simp [hl]))
      obtain ⟨g, hd⟩ : ∃ g, d.fence = some g := by
        have := hsome d (by simp)
        cases hd : d.fence with
        | none => rw [hd] at this; cases this
        | some g => exact ⟨g, rfl⟩
      have hgw : g.WF := ih.fwf d (by simp) g hd
      have hc := hfirst d.fence h1 (fun g' hg' => by rw [hd] at hg'; cases hg'; exact hgw)
      exact ChainOrd.append (X := [c]) hc ih (Or.inr ⟨g, hd⟩)

/-- what the proofs need, from what `checkLayer` evaluates on a dump -/
theorem chainOrd_of_checkLayer (pfx : List UInt8) (t : BTree) (h : checkLayer pfx t = true) :
    IntOK t ∧ ChainOrd (chainOf t none) none := by
  simp only [checkLayer, Bool.and_eq_true] at h
  have hok : IntOK t := (intOK_iff_check t).mpr h.1
  refine ⟨hok, ?_⟩
  obtain ⟨v, e, rest, hc, hr⟩ := chainOf_shape t none hok.routeWF
  have hst := checkChain_leafStep _ _ h.2
  rw [hc] at hst ⊢
  exact chainOrd_of_steps _ rest hst hr

theorem leafDel_chainOrd (A : List DLeaf) (l : DLeaf) (B : List DLeaf) (hi : Option KT) (kt : KT)
    (hord : ChainOrd (A ++ l :: B) hi) : ChainOrd (A ++ leafDel l kt :: B) hi := by
  have hlB : ChainOrd (l :: B) hi := hord.right
  have hlm : l ∈ l :: B := by simp
  have hsub := delEnt_sublist kt l.ents
  have h1' : ChainOrd (leafDel l kt :: B) hi := by
    apply hlB.replaceHead
    · exact fun f hf => ⟨hlB.fwf l hlm f hf, (hlB.fhi l hlm).1 f hf⟩
    · intro x hx
      have hx' : x ∈ l.ents := hsub.subset hx
      exact ⟨hlB.ewf l hlm x hx', hlB.ege l hlm x hx', (hlB.fhi l hlm).2 x hx',
        fun b' hb' => (List.pairwise_cons.mp hlB.elt).1 b' hb' x hx'⟩
    · exact (hlB.esorted l hlm).sublist hsub
    · exact (List.pairwise_cons.mp hlB.fsorted).1
  exact ChainOrd.append (y0 := leafDel l kt) hord.left h1' hord.mid_fence

theorem any_delMatch_iff (kt : KT) (hk : kt.WF) (ents : List DEnt) (hw : ∀ x ∈ ents, x.kt.WF) :
    ents.any (fun x => delMatch kt x.kt) = true ↔ ∃ x ∈ ents, x.kt = kt := by
  rw [List.any_eq_true]
  constructor
  · rintro ⟨x, hx, hm⟩
    exact ⟨x, hx, ((delMatch_iff kt x.kt hk (hw x hx)).mp hm).symm⟩
  · rintro ⟨x, hx, he⟩
    exact ⟨x, hx, (delMatch_iff kt x.kt hk (hw x hx)).mpr he.symm⟩

/-! ## The theorems

`IntOK t` is `checkInteriors t = true` (`intOK_iff_check`); `ChainOrd (chainOf t none) none` is the
order part of `checkChain` — fences strictly increasing and well formed, every leaf's entries well
formed, strictly increasing and inside the leaf's fence interval — and follows from
`checkLayer pfx t = true` (`chainOrd_of_checkLayer`); the `…_checked` variants take `checkLayer`. -/

/-- **1. `insertB` on the flattened chain = the leaf insert / leaf split of the interior-free model.**
    `l` is the leaf the fence rule gives the new tuple to (`A`, `B` the leaves left and right of it);
    the entries of `l` with `e` placed at its rank are `a ++ e :: b` with `a` below and `b` above
    `e`. If `l` is not full the chain only changes in `l`'s entries. If it is full (15 entries), `l`
    is replaced by two leaves: the left keeps `l`'s fence, the right gets `some sep`; both together
    hold the 16 entries in order, the left 8 or 9 of them, and `sep` is the first tuple of the
    right leaf. -/
theorem insertB_chain (t : BTree) (e : DEnt) (hok : IntOK t)
    (hord : ChainOrd (chainOf t none) none) (hk : e.kt.WF)
    (habs : ∀ l ∈ chainOf t none, ∀ x ∈ l.ents, x.kt ≠ e.kt) :
    ∃ A l B, chainOf t none = A ++ l :: B ∧ byFence (chainOf t none) e.kt = some l ∧
      (∀ x ∈ B, fenceLe x.fence e.kt = false) ∧
      (∃ a b, l.ents = a ++ b ∧
        insAt l.ents (rankIfInsert e.kt (l.ents.map (·.kt))) e = a ++ e :: b ∧
        (∀ x ∈ a, KT.lt x.kt e.kt = true) ∧ (∀ x ∈ b, KT.lt e.kt x.kt = true)) ∧
      (l.ents.length ≠ 15 → chainOf (insertB t e) none =
        A ++ ⟨l.fence, l.v, insAt l.ents (rankIfInsert e.kt (l.ents.map (·.kt))) e⟩ :: B) ∧
      (l.ents.length = 15 → ∃ L R sep, chainOf (insertB t e) none =
          A ++ ⟨l.fence, l.v, L⟩ :: ⟨some sep, l.v, R⟩ :: B ∧
        L ++ R = insAt l.ents (rankIfInsert e.kt (l.ents.map (·.kt))) e ∧
        (L.length = 8 ∨ L.length = 9) ∧ R.head?.map (·.kt) = some sep) := by
  obtain ⟨A, l, B, hch, hge, hB, _, hnew⟩ := insertB_spec t e hok hord hk habs
  rw [hch] at hord
  obtain ⟨hby, _, hBf⟩ := owner_byFence hord hk hge hB
  have hlm : l ∈ A ++ l :: B := by simp
  have hw : ∀ x ∈ l.ents, x.kt.WF := hord.ewf l hlm
  have hs := hord.esorted l hlm
  obtain ⟨a, b, h0, ha, hb⟩ := sorted_decomp hk l.ents hw hs
    (fun x hx => habs l (by rw [hch]; exact hlm) x hx)
  obtain ⟨hins, hne, hfull⟩ := leafIns_spec l e a b hk h0 hw hs ha hb
  refine ⟨A, l, B, hch, by rw [hch]; exact hby, hBf, ⟨a, b, h0, hins, ?_, ?_⟩, ?_, ?_⟩
  · intro x hx
    rw [KT.lt_eq_ltSpec x.kt e.kt (hw x (by rw [h0]; simp [hx])) hk]; exact ha x hx
  · intro x hx
    rw [KT.lt_eq_ltSpec e.kt x.kt hk (hw x (by rw [h0]; simp [hx]))]; exact hb x hx
  · intro h15
    rw [hnew, hne h15, hins]; simp
  · intro h15
    obtain ⟨L, r, R, _, hLR, hLl, hleaf⟩ := hfull h15
    refine ⟨L, r :: R, r.kt, ?_, by rw [hLR, hins], hLl, rfl⟩
    rw [hnew, hleaf]; simp

/-- **2. `insertB` keeps what `checkInteriors` and the order part of `checkChain` evaluate.** -/
theorem insertB_keeps_check (t : BTree) (e : DEnt) (hok : IntOK t)
    (hord : ChainOrd (chainOf t none) none) (hk : e.kt.WF)
    (habs : ∀ l ∈ chainOf t none, ∀ x ∈ l.ents, x.kt ≠ e.kt) :
    checkInteriors (insertB t e) = true ∧ fencesSorted (chainOf (insertB t e) none) ∧
      ChainOrd (chainOf (insertB t e) none) none := by
  obtain ⟨A, l, B, hch, hge, hB, hiok, hnew⟩ := insertB_spec t e hok hord hk habs
  rw [hch] at hord
  have := leafIns_chainOrd A l B none e hord hk hge (fun h hh => by cases hh) hB
    (fun x hx => habs l (by rw [hch]; simp) x hx)
  rw [← hnew] at this
  exact ⟨(intOK_iff_check _).mp hiok, fencesSorted_of_chainOrd this, this⟩

/-- **3. `removeB` on the flattened chain.** `l` is the leaf the fence rule gives `kt` to. Unless
    the tuple is `l`'s only entry and `l` is not the only leaf, the chain only loses that entry
    (a root border stays, empty). Otherwise `l` is gone and EITHER — `l` was child 0 of its parent
    (`leafIdx t kt = some 0`) — its right neighbour takes over `l`'s fence, OR nothing else changes
    (the left neighbour absorbs the range). -/
theorem removeB_chain (t : BTree) (kt : KT) (hok : IntOK t)
    (hord : ChainOrd (chainOf t none) none) (hk : kt.WF) :
    ∃ A l B, chainOf t none = A ++ l :: B ∧ byFence (chainOf t none) kt = some l ∧
      (∀ x ∈ B, fenceLe x.fence kt = false) ∧
      (¬ ((∃ x ∈ l.ents, x.kt = kt) ∧ l.ents.length = 1 ∧ (A ≠ [] ∨ B ≠ [])) →
        chainOf (removeB t kt) none =
          A ++ ⟨l.fence, l.v, l.ents.filter (fun x => decide (x.kt ≠ kt))⟩ :: B) ∧
      ((∃ x ∈ l.ents, x.kt = kt) → l.ents.length = 1 → (A ≠ [] ∨ B ≠ []) →
        (leafIdx t kt = some 0 →
          B ≠ [] ∧ chainOf (removeB t kt) none = A ++ setHeadFence l.fence B) ∧
        (leafIdx t kt ≠ some 0 → chainOf (removeB t kt) none = A ++ B)) := by
  obtain ⟨A, l, B, hch, hge, hB, hfirst, _, hnew⟩ := removeB_spec t kt hok hord hk
  rw [hch] at hord
  obtain ⟨hby, _, hBf⟩ := owner_byFence hord hk hge hB
  have hlm : l ∈ A ++ l :: B := by simp
  have hw : ∀ x ∈ l.ents, x.kt.WF := hord.ewf l hlm
  have hany := any_delMatch_iff kt hk l.ents hw
  refine ⟨A, l, B, hch, by rw [hch]; exact hby, hBf, ?_, ?_⟩
  · intro hc
    have hc' : ¬ (l.ents.any (fun x => delMatch kt x.kt) = true ∧ l.ents.length = 1 ∧
        (A ≠ [] ∨ B ≠ [])) := fun h => hc ⟨hany.mp h.1, h.2⟩
    rw [hnew, if_neg hc']
    simp only [leafDel]
    rw [delEnt_eq_filter kt hk l.ents hw (hord.esorted l hlm)]
  · intro hp h1 hAB
    have hc' : l.ents.any (fun x => delMatch kt x.kt) = true ∧ l.ents.length = 1 ∧
        (A ≠ [] ∨ B ≠ []) := ⟨hany.mpr hp, h1, hAB⟩
    rw [hnew, if_pos hc']
    exact ⟨fun h0 => ⟨hfirst h0, by rw [if_pos h0]⟩, fun h0 => by rw [if_neg h0]⟩

/-- **4. `removeB` keeps what `checkInteriors` and the order part of `checkChain` evaluate.** -/
theorem removeB_keeps_check (t : BTree) (kt : KT) (hok : IntOK t)
    (hord : ChainOrd (chainOf t none) none) (hk : kt.WF) :
    checkInteriors (removeB t kt) = true ∧ fencesSorted (chainOf (removeB t kt) none) ∧
      ChainOrd (chainOf (removeB t kt) none) none := by
  obtain ⟨A, l, B, hch, _, _, _, hiok, hnew⟩ := removeB_spec t kt hok hord hk
  rw [hch] at hord
  have hco : ChainOrd (chainOf (removeB t kt) none) none := by
    rw [hnew]
    split
    · next hc =>
      have := remChain_chainOrd (decide (leafIdx t kt = some 0)) A l B none kt hord
      unfold remChain at this
      rw [if_pos hc.1, if_pos hc.2.1] at this
      by_cases h0 : leafIdx t kt = some 0
      · rw [if_pos h0]; simpa [h0] using this
      · rw [if_neg h0]; simpa [h0] using this
    · exact leafDel_chainOrd A l B none kt hord
  exact ⟨(intOK_iff_check _).mp hiok, fencesSorted_of_chainOrd hco, hco⟩

/-! ### the same for a dump accepted by `checkLayer` -/

theorem insertB_chain_checked (pfx : List UInt8) (t : BTree) (e : DEnt)
    (h : checkLayer pfx t = true) (hk : e.kt.WF)
    (habs : ∀ l ∈ chainOf t none, ∀ x ∈ l.ents, x.kt ≠ e.kt) :
    ∃ A l B, chainOf t none = A ++ l :: B ∧ byFence (chainOf t none) e.kt = some l ∧
      (∀ x ∈ B, fenceLe x.fence e.kt = false) ∧
      (∃ a b, l.ents = a ++ b ∧
        insAt l.ents (rankIfInsert e.kt (l.ents.map (·.kt))) e = a ++ e :: b ∧
        (∀ x ∈ a, KT.lt x.kt e.kt = true) ∧ (∀ x ∈ b, KT.lt e.kt x.kt = true)) ∧
      (l.ents.length ≠ 15 → chainOf (insertB t e) none =
        A ++ ⟨l.fence, l.v, insAt l.ents (rankIfInsert e.kt (l.ents.map (·.kt))) e⟩ :: B) ∧
      (l.ents.length = 15 → ∃ L R sep, chainOf (insertB t e) none =
          A ++ ⟨l.fence, l.v, L⟩ :: ⟨some sep, l.v, R⟩ :: B ∧
        L ++ R = insAt l.ents (rankIfInsert e.kt (l.ents.map (·.kt))) e ∧
        (L.length = 8 ∨ L.length = 9) ∧ R.head?.map (·.kt) = some sep) :=
  let ⟨hok, hord⟩ := chainOrd_of_checkLayer pfx t h
  insertB_chain t e hok hord hk habs

theorem insertB_keeps_check_checked (pfx : List UInt8) (t : BTree) (e : DEnt)
    (h : checkLayer pfx t = true) (hk : e.kt.WF)
    (habs : ∀ l ∈ chainOf t none, ∀ x ∈ l.ents, x.kt ≠ e.kt) :
    checkInteriors (insertB t e) = true ∧ fencesSorted (chainOf (insertB t e) none) :=
  let ⟨hok, hord⟩ := chainOrd_of_checkLayer pfx t h
  let r := insertB_keeps_check t e hok hord hk habs
  ⟨r.1, r.2.1⟩

theorem removeB_chain_checked (pfx : List UInt8) (t : BTree) (kt : KT)
    (h : checkLayer pfx t = true) (hk : kt.WF) :
    ∃ A l B, chainOf t none = A ++ l :: B ∧ byFence (chainOf t none) kt = some l ∧
      (∀ x ∈ B, fenceLe x.fence kt = false) ∧
      (¬ ((∃ x ∈ l.ents, x.kt = kt) ∧ l.ents.length = 1 ∧ (A ≠ [] ∨ B ≠ [])) →
        chainOf (removeB t kt) none =
          A ++ ⟨l.fence, l.v, l.ents.filter (fun x => decide (x.kt ≠ kt))⟩ :: B) ∧
      ((∃ x ∈ l.ents, x.kt = kt) → l.ents.length = 1 → (A ≠ [] ∨ B ≠ []) →
        (leafIdx t kt = some 0 →
          B ≠ [] ∧ chainOf (removeB t kt) none = A ++ setHeadFence l.fence B) ∧
        (leafIdx t kt ≠ some 0 → chainOf (removeB t kt) none = A ++ B)) :=
  let ⟨hok, hord⟩ := chainOrd_of_checkLayer pfx t h
  removeB_chain t kt hok hord hk

theorem removeB_keeps_check_checked (pfx : List UInt8) (t : BTree) (kt : KT)
    (h : checkLayer pfx t = true) (hk : kt.WF) :
    checkInteriors (removeB t kt) = true ∧ fencesSorted (chainOf (removeB t kt) none) :=
  let ⟨hok, hord⟩ := chainOrd_of_checkLayer pfx t h
  let r := removeB_keeps_check t kt hok hord hk
  ⟨r.1, r.2.1⟩

/-! ## 5. Closed examples

Two-byte keys `[a, b]`. `bd a js` is a border node holding `[a, j]` for `j ∈ js`; the separator in
front of border `a` is `[a, 0]`. -/
namespace Example

def k2 (a b : Nat) : KT := ⟨[UInt8.ofNat a, UInt8.ofNat b, 0, 0, 0, 0, 0, 0], 2⟩
def k3 (a b c : Nat) : KT := ⟨[UInt8.ofNat a, UInt8.ofNat b, UInt8.ofNat c, 0, 0, 0, 0, 0], 3⟩
def ev (a b : Nat) : DEnt := ⟨k2 a b, some ⟨1, 7, 8⟩⟩
def ev3 (a b c : Nat) : DEnt := ⟨k3 a b c, some ⟨1, 7, 8⟩⟩
def bv : DVer := ⟨0, 0, 32⟩
def bvRoot : DVer := ⟨0, 0, 48⟩
def iv : DVer := ⟨0, 0, 0⟩
def rv : DVer := ⟨0, 0, 16⟩
def bd (a : Nat) (js : List Nat) : BTree := .border bv (js.map (ev a))
def sb (a : Nat) (js : List Nat) : Shape := .border (js.map (k2 a))

/-! ### a split that creates a root -/

/-- a full root border -/
def full1 : BTree := .border bvRoot ((List.range 15).map (ev 1))

theorem full1_checked : checkLayer [] full1 = true := by decide

/-- new key above the first moved entry: 8 stay, 7 + the new one move; separator = first moved -/
theorem split_root_upper : shapeOf (insertB full1 (ev 1 20)) =
    .interior [k2 1 8] [sb 1 (List.range 8), sb 1 [8, 9, 10, 11, 12, 13, 14, 20]] := by decide

/-- new key `[1,3,5]` below it: 8 + the new one stay (9 entries), 7 move -/
theorem split_root_lower : shapeOf (insertB full1 (ev3 1 3 5)) =
    .interior [k2 1 8]
      [.border [k2 1 0, k2 1 1, k2 1 2, k2 1 3, k3 1 3 5, k2 1 4, k2 1 5, k2 1 6, k2 1 7],
       sb 1 [8, 9, 10, 11, 12, 13, 14]] := by decide

theorem split_root_chain : (chainOf (insertB full1 (ev 1 20)) none).map (·.fence) =
    [none, some (k2 1 8)] := by decide

/-! ### an interior split -/

/-- a full interior root (15 separators, 16 borders); border `f` is full, the others hold one key -/
def big (f : Nat) : BTree :=
  .interior rv ((List.range 15).map (fun i => k2 (i + 1) 0))
    ((List.range 16).map (fun i => if i == f then bd i (List.range 15) else bd i [0]))

theorem big3_checked : checkLayer [] (big 3) = true := by decide
theorem big12_checked : checkLayer [] (big 12) = true := by decide

/-- border 3 splits (separator `[3,8]`), the root is full: separators `0..6` stay, `[8,0]` (index 7)
    moves up into a new root, the rest go right; `[3,8] < [8,0]` is inserted on the left. -/
theorem interior_split_left : shapeOf (insertB (big 3) (ev 3 20)) =
    .interior [k2 8 0]
      [.interior [k2 1 0, k2 2 0, k2 3 0, k2 3 8, k2 4 0, k2 5 0, k2 6 0, k2 7 0]
        [sb 0 [0], sb 1 [0], sb 2 [0], sb 3 (List.range 8), sb 3 [8, 9, 10, 11, 12, 13, 14, 20],
         sb 4 [0], sb 5 [0], sb 6 [0], sb 7 [0]],
       .interior ((List.range 7).map (fun i => k2 (i + 9) 0))
        ((List.range 8).map (fun i => sb (i + 8) [0]))] := by decide

/-- border 12 splits (separator `[12,8]`): inserted into the new right node -/
theorem interior_split_right : shapeOf (insertB (big 12) (ev 12 20)) =
    .interior [k2 8 0]
      [.interior ((List.range 7).map (fun i => k2 (i + 1) 0))
        ((List.range 8).map (fun i => sb i [0])),
       .interior [k2 9 0, k2 10 0, k2 11 0, k2 12 0, k2 12 8, k2 13 0, k2 14 0, k2 15 0]
        [sb 8 [0], sb 9 [0], sb 10 [0], sb 11 [0], sb 12 (List.range 8),
         sb 12 [8, 9, 10, 11, 12, 13, 14, 20], sb 13 [0], sb 14 [0], sb 15 [0]]] := by decide

/-- the general theorems instantiated (not by evaluation): the hypotheses are satisfiable -/
theorem interior_split_keeps : checkInteriors (insertB (big 3) (ev 3 20)) = true ∧
    fencesSorted (chainOf (insertB (big 3) (ev 3 20)) none) :=
  insertB_keeps_check_checked [] (big 3) (ev 3 20) big3_checked (by decide) (by decide)

/-! ### unlinking a border: child 0, a middle child, the last child -/

def three : BTree := .interior rv [k2 1 0, k2 2 0] [bd 0 [0], bd 1 [0], bd 2 [0]]

theorem three_checked : checkLayer [] three = true := by decide

/-- child 0 goes with separator 0: the right neighbour inherits the lower bound -/
theorem unlink_first : shapeOf (removeB three (k2 0 0)) = .interior [k2 2 0] [sb 1 [0], sb 2 [0]] ∧
    (chainOf (removeB three (k2 0 0)) none).map (·.fence) = [none, some (k2 2 0)] ∧
    leafIdx three (k2 0 0) = some 0 := by decide

/-- a middle child goes with the separator in front of it: the left neighbour absorbs the range -/
theorem unlink_middle : shapeOf (removeB three (k2 1 0)) = .interior [k2 2 0] [sb 0 [0], sb 2 [0]] ∧
    (chainOf (removeB three (k2 1 0)) none).map (·.fence) = [none, some (k2 2 0)] ∧
    leafIdx three (k2 1 0) = some 1 := by decide

/-- the last child goes with the last separator -/
theorem unlink_last : shapeOf (removeB three (k2 2 0)) = .interior [k2 1 0] [sb 0 [0], sb 1 [0]] ∧
    (chainOf (removeB three (k2 2 0)) none).map (·.fence) = [none, some (k2 1 0)] ∧
    leafIdx three (k2 2 0) = some 2 := by decide

/-! ### a collapse: an interior node with one separator loses a child -/

def two : BTree := .interior rv [k2 1 0] [bd 0 [0], bd 1 [0]]

/-- at the root: the sibling becomes the layer root -/
theorem collapse_root : shapeOf (removeB two (k2 0 0)) = sb 1 [0] ∧
    shapeOf (removeB two (k2 1 0)) = sb 0 [0] := by decide

def twoLevel : BTree :=
  .interior rv [k2 2 0]
    [.interior iv [k2 1 0] [bd 0 [0], bd 1 [0]], .interior iv [k2 3 0] [bd 2 [0], bd 3 [0]]]

theorem twoLevel_checked : checkLayer [] twoLevel = true := by decide

/-- below the root: the sibling takes the interior node's place in the grandparent -/
theorem collapse_inner : shapeOf (removeB twoLevel (k2 1 0)) =
    .interior [k2 2 0] [sb 0 [0], .interior [k2 3 0] [sb 2 [0], sb 3 [0]]] ∧
    shapeOf (removeB twoLevel (k2 2 0)) =
    .interior [k2 2 0] [.interior [k2 1 0] [sb 0 [0], sb 1 [0]], sb 3 [0]] ∧
    (chainOf (removeB twoLevel (k2 2 0)) none).map (·.fence) =
      [none, some (k2 1 0), some (k2 2 0)] := by decide

/-- a root border stays, empty -/
theorem root_emptied : shapeOf (removeB (.border bvRoot [ev 1 1]) (k2 1 1)) = .border [] := by decide

theorem collapse_keeps : checkInteriors (removeB twoLevel (k2 1 0)) = true ∧
    fencesSorted (chainOf (removeB twoLevel (k2 1 0)) none) :=
  removeB_keeps_check_checked [] twoLevel (k2 1 0) twoLevel_checked (by decide)

end Example

end Yak.BTreeOps
