import YakModel.Proofs.InsertLemmas
/-!
# Descents through a changed storage: the generic comparison lemmas
-/
namespace Yak.Tree
open Yak

theorem lookF_congr_lay {F F' : List UInt8 → Option (List Leaf)} {q : List UInt8} (h : F' q = F q) (k : KT) :
    lookF F' q k = lookF F q k := by unfold lookF; rw [h]

/-- two well-formed chains with the same entries for tuple `k` answer the same for `k`. -/
theorem lookF_congr_ents {F F' : List UInt8 → Option (List Leaf)} {q : List UInt8} {ls ls' : List Leaf}
    (h : F q = some ls) (h' : F' q = some ls') (hc : LayerCore ls) (hc' : LayerCore ls') {k : KT}
    (hk : k.WF) (hsame : ∀ x, x.kt = k → (x ∈ layerEnts ls' ↔ x ∈ layerEnts ls)) :
    lookF F' q k = lookF F q k := by
  cases hl : lookF F q k with
  | none =>
    rw [lookF_none_iff h hc hk] at hl
    rw [lookF_none_iff h' hc' hk]
    intro e he hek
    exact hl e ((hsame e hek).mp he) hek
  | some e =>
    rw [lookF_some_iff h hc hk] at hl
    rw [lookF_some_iff h' hc' hk]
    exact ⟨(hsame e hl.2).mpr hl.1, hl.2⟩

/-- the descent diverges from the changed tuple `k` in layer `p`: nothing it sees has changed. -/
theorem walk_other {F F' : List UInt8 → Option (List Leaf)} {p : List UInt8} {ls ls' : List Leaf}
    (h : F p = some ls) (h' : F' p = some ls') (hc : LayerCore ls) (hc' : LayerCore ls') {k : KT}
    (hsame : ∀ x, x.kt ≠ k → (x ∈ layerEnts ls' ↔ x ∈ layerEnts ls))
    (hframe : ∀ s', s'.length = 8 → (⟨s', 9⟩ : KT) ≠ k → ∀ q, p ++ s' <+: q → F' q = F q)
    {rest' : Key} (hne : KT.ofKey rest' ≠ k) :
    walkM (lookF F') p rest' = walkM (lookF F) p rest' := by
  have hl : lookF F' p (KT.ofKey rest') = lookF F p (KT.ofKey rest') :=
    lookF_congr_ents h h' hc hc' (KT.ofKey_wf rest') (fun x hx => hsame x (by rw [hx]; exact hne))
  cases hm : lookF F p (KT.ofKey rest') with
  | none => rw [walkM_none hm, walkM_none (hl ▸ hm)]
  | some e =>
    by_cases hlong : rest'.length > 8
    · rw [walkM_long hm hlong, walkM_long (hl ▸ hm) hlong]
      apply walkM_congr
      intro q k' hq _
      apply lookF_congr_lay
      apply hframe (rest'.take 8) (by simp only [List.length_take]; omega) _ q hq
      rw [← ofKey_long hlong]; exact hne
    · rw [walkM_short hm hlong, walkM_short (hl ▸ hm) hlong]

theorem layerGet_leaf1 {e : Ent} (hw : e.kt.WF) (hv : e.val = none ↔ e.kt.len = 9) {k : KT} (hk : k.WF) :
    layerGet [leaf1 e] k = if k = e.kt then some e else none := by
  have hc := layerCore_leaf1 hw hv
  by_cases h : k = e.kt
  · rw [if_pos h, layerGet_some_iff hc hk, layerEnts_leaf1]
    exact ⟨by simp, h.symm⟩
  · rw [if_neg h, layerGet_none_iff hc hk, layerEnts_leaf1]
    intro x hx
    rw [List.mem_singleton] at hx; subst hx
    exact fun e => h e.symm

/-- a descent into a fresh chain finds exactly the key the chain was built for. -/
theorem walk_fresh (v : Val) (M : List UInt8 → KT → Option Ent) : ∀ (r : Key) (q0 : List UInt8), r ≠ [] →
    (∀ q k, q0 <+: q → k.WF → M q k = lookF (lay (freshLayers q0 r v)) q k) →
    ∀ r', walkM M q0 r' = if r' = r then some v else none := by
  intro r
  induction hn : r.length using Nat.strongRecOn generalizing r with
  | _ n ih =>
    intro q0 hr hM r'
    have hM0 := hM q0 (KT.ofKey r') (List.prefix_refl _) (KT.ofKey_wf r')
    by_cases hl : r.length > 8
    · have hs8 : (r.take 8).length = 8 := by simp only [List.length_take]; omega
      rw [freshLayers_long v hl] at hM0 hM
      have hlk : M q0 (KT.ofKey r') = if KT.ofKey r' = KT.ofKey r then some ⟨KT.ofKey r, none⟩ else none := by
        rw [hM0]
        unfold lookF
        rw [lay_cons, if_pos rfl]
        exact layerGet_leaf1 (e := ⟨KT.ofKey r, none⟩) (KT.ofKey_wf r) (by simp [ofKey_len_long hl])
          (KT.ofKey_wf r')
      by_cases hk : KT.ofKey r' = KT.ofKey r
      · rw [if_pos hk] at hlk
        obtain ⟨hl', htake⟩ := ofKey_eq_long hl hk
        rw [walkM_long hlk hl', htake]
        have hr' : r.drop 8 ≠ [] := by
          intro e
          have := congrArg List.length e
          simp only [List.length_drop, List.length_nil] at this; omega
        rw [ih (r.drop 8).length (by simp only [List.length_drop]; omega) (r.drop 8) rfl
          (q0 ++ r.take 8) hr' ?_ (r'.drop 8)]
        · have : r' = r ↔ r'.drop 8 = r.drop 8 := by
            constructor
            · intro e; rw [e]
            · intro e
              rw [← List.take_append_drop 8 r', ← List.take_append_drop 8 r, htake, e]
          by_cases e : r' = r
          · rw [if_pos e, if_pos (this.mp e)]
          · rw [if_neg e, if_neg (fun h => e (this.mpr h))]
        · intro q k hq hk
          rw [hM q k (List.IsPrefix.trans (List.prefix_append _ _) hq) hk]
          apply lookF_congr_lay
          rw [lay_cons, if_neg]
          intro e; subst e
          exact not_prefix_append_self _ _ (ne_nil_of_len8 hs8) hq
      · rw [if_neg hk] at hlk
        rw [walkM_none hlk, if_neg (fun e => hk (by rw [e]))]
    · rw [freshLayers_short v hl] at hM0
      have hlk : M q0 (KT.ofKey r') = if KT.ofKey r' = KT.ofKey r then some ⟨KT.ofKey r, some v⟩ else none := by
        rw [hM0]
        unfold lookF
        rw [lay_cons, if_pos rfl]
        exact layerGet_leaf1 (e := ⟨KT.ofKey r, some v⟩) (KT.ofKey_wf r)
          (by have := ofKey_len_ne9 hl; simp [this]) (KT.ofKey_wf r')
      by_cases hk : KT.ofKey r' = KT.ofKey r
      · rw [if_pos hk] at hlk
        have e := ofKey_eq_short hl hk
        subst e
        rw [walkM_short hlk hl, if_pos rfl]
      · rw [if_neg hk] at hlk
        rw [walkM_none hlk, if_neg (fun e => hk (by rw [e]))]

end Yak.Tree
