import YakModel.Proto.NodeSet
/-!
# `NodeSet`: relational presentation and chain lemmas

`Step` is the relational form of `step?` (`step?_sound`); the rest are facts about the chain
operations `setLeaf`, `insAfter`, `nextOf`, `insertSorted` and the chain invariant `ChainInv`.
-/
namespace Yak.Proto.NodeSet

theorem upd_same {α} (f : Nat → α) (t : Nat) (v : α) : upd f t v t = v := by simp [upd]
theorem upd_other {α} (f : Nat → α) (t : Nat) (v : α) (i : Nat) (h : i ≠ t) : upd f t v i = f i := by
  simp [upd, h]

/-- `L` owns `k` -/
def Owns (ch : List Leaf) (L : Leaf) (k : Nat) : Prop :=
  L.lo ≤ k ∧ ∀ M ∈ ch, L.lo < M.lo → k < M.lo

theorem ownsB_iff (ch : List Leaf) (L : Leaf) (k : Nat) : ownsB ch L k = true ↔ Owns ch L k := by
  unfold ownsB Owns
  simp only [Bool.and_eq_true, decide_eq_true_eq, List.all_eq_true, Bool.or_eq_true]
  constructor
  · rintro ⟨h1, h2⟩
    refine ⟨h1, fun M hM hlt => ?_⟩
    rcases h2 M hM with h | h
    · omega
    · exact h
  · rintro ⟨h1, h2⟩
    refine ⟨h1, fun M hM => ?_⟩
    by_cases h : M.lo ≤ L.lo
    · exact Or.inl h
    · exact Or.inr (h2 M hM (by omega))

theorem findLeaf_some {ch : List Leaf} {i : Nat} {L : Leaf} (h : findLeaf ch i = some L) :
    L ∈ ch ∧ L.id = i := by
  unfold findLeaf at h
  refine ⟨List.mem_of_find?_eq_some h, ?_⟩
  have := List.find?_some h
  simpa using this

/-! ## relational steps -/

inductive Step (c : Cfg) (s : State) : State → Prop
  | wLock (t k : Nat) (L : Leaf) (hw : s.w t = .idle) (hL : L ∈ s.chain) (hul : L.locked = false)
      (hown : Owns s.chain L k) (hk : k ∉ L.keys) :
      Step c s { s with chain := setLeaf s.chain { L with locked := true }
                        w := upd s.w t (.held k L.id) }
  | wInsert (t k : Nat) (L : Leaf) (hw : s.w t = .held k L.id) (hL : L ∈ s.chain) :
      Step c s { s with chain := setLeaf s.chain { L with dirty := true, keys := insertSorted k L.keys }
                        w := upd s.w t (.published k L.id) }
  | wUnlock (t k : Nat) (L : Leaf) (hw : s.w t = .published k L.id) (hL : L ∈ s.chain) :
      Step c s { s with chain := setLeaf s.chain { L with locked := false, dirty := false, vins := L.vins + 1 }
                        w := upd s.w t .idle
                        completed := k :: s.completed }
  | wSplit (t k : Nat) (L : Leaf) (h p : Nat) (up : List Nat) (hw : s.w t = .held k L.id)
      (hL : L ∈ s.chain) (hh : 1 ≤ h) (hdrop : L.keys.drop h = p :: up) :
      Step c s { s with
        chain := insAfter (setLeaf s.chain { L with dirty := true, keys := if k < p then insertSorted k (L.keys.take h) else L.keys.take h }) L.id
          { id := s.nextId, lo := p, keys := if k < p then p :: up else insertSorted k (p :: up)
            vins := L.vins, vsplit := L.vsplit, locked := true, dirty := true }
        nextId := s.nextId + 1
        w := upd s.w t (.splitDone k L.id s.nextId) }
  | wUnlockL (t k j : Nat) (L : Leaf) (hw : s.w t = .splitDone k L.id j) (hL : L ∈ s.chain) :
      Step c s { s with chain := setLeaf s.chain { L with locked := false, dirty := false, vins := L.vins + 1, vsplit := L.vsplit + 1 }
                        w := upd s.w t (.splitHalf k j) }
  | wUnlockR (t k : Nat) (L : Leaf) (hw : s.w t = .splitHalf k L.id) (hL : L ∈ s.chain) :
      Step c s { s with chain := setLeaf s.chain { L with locked := false, dirty := false, vins := L.vins + 1, vsplit := L.vsplit + 1 }
                        w := upd s.w t .idle
                        completed := k :: s.completed }
  | sStart (t a b : Nat) (h : s.sc t = .idle) : Step c s { s with sc := upd s.sc t (.want a b) }
  | sEnter (t a b : Nat) (L : Leaf) (h : s.sc t = .want a b) (hL : L ∈ s.chain)
      (hown : Owns s.chain L a) :
      Step c s { s with sc := upd s.sc t (.run a b [] [] L.id .fresh) }
  | sLoadVer (t a b : Nat) (ks : List Nat) (ns : List NodeRec) (L : Leaf)
      (h : s.sc t = .run a b ks ns L.id .fresh) (hL : L ∈ s.chain)
      (hst : L.locked = false ∧ L.dirty = false) :
      Step c s { s with sc := upd s.sc t (.run a b ks ns L.id (.loaded L.vins L.vsplit)) }
  | sSnapshot (t a b : Nat) (ks : List Nat) (ns : List NodeRec) (vi vs : Nat) (L : Leaf)
      (h : s.sc t = .run a b ks ns L.id (.loaded vi vs)) (hL : L ∈ s.chain) :
      Step c s { s with sc := upd s.sc t (.run a b ks ns L.id (.snapped vi vs (L.keys.filter (inRange a b)))) }
  | sRestart (t a b : Nat) (ks : List Nat) (ns : List NodeRec) (vi vs : Nat) (snap : List Nat) (L : Leaf)
      (h : s.sc t = .run a b ks ns L.id (.snapped vi vs snap)) (hL : L ∈ s.chain)
      (hst : L.locked = false ∧ L.dirty = false) (hne : L.vsplit ≠ vs) :
      Step c s { s with sc := upd s.sc t (.want a b) }
  | sRedo (t a b : Nat) (ks : List Nat) (ns : List NodeRec) (vi vs : Nat) (snap : List Nat) (L : Leaf)
      (h : s.sc t = .run a b ks ns L.id (.snapped vi vs snap)) (hL : L ∈ s.chain)
      (hst : L.locked = false ∧ L.dirty = false) (hs : L.vsplit = vs) (hne : L.vins ≠ vi) :
      Step c s { s with sc := upd s.sc t (.run a b ks ns L.id (.loaded L.vins L.vsplit)) }
  | sFinish (t a b : Nat) (ks : List Nat) (ns : List NodeRec) (vi vs : Nat) (snap : List Nat) (L : Leaf)
      (h : s.sc t = .run a b ks ns L.id (.snapped vi vs snap)) (hL : L ∈ s.chain)
      (hst : L.locked = false ∧ L.dirty = false) (hs : L.vsplit = vs) (hv : L.vins = vi)
      (hnext : ∀ n, nextOf s.chain L.id = some n → b < n.lo) :
      Step c s { s with sc := upd s.sc t (.fin a b (ks ++ snap) (ns ++ [(L.id, vi, vs)])) }
  | sAdvance (t a b : Nat) (ks : List Nat) (ns : List NodeRec) (vi vs : Nat) (snap : List Nat) (L n : Leaf)
      (h : s.sc t = .run a b ks ns L.id (.snapped vi vs snap)) (hL : L ∈ s.chain)
      (hst : L.locked = false ∧ L.dirty = false) (hs : L.vsplit = vs) (hv : L.vins = vi)
      (hnext : nextOf s.chain L.id = some n) (hle : n.lo ≤ b) :
      Step c s { s with sc := upd s.sc t (.run a b (ks ++ snap) (ns ++ [(L.id, vi, vs)]) n.id .fresh) }

theorem splitPoint_pos (c : Cfg) : 1 ≤ splitPoint c := by
  unfold splitPoint; omega

theorem step?_sound {c : Cfg} {s s' : State} {e : Event} (h : step? c s e = some s') : Step c s s' := by
  cases e with
  | wLock t k i =>
    simp only [step?] at h
    split at h
    · rename_i L hw hf
      obtain ⟨hL, rfl⟩ := findLeaf_some hf
      split at h
      · rename_i hc
        simp only [Bool.and_eq_true, Bool.not_eq_true', ownsB_iff] at hc
        cases h
        exact Step.wLock t k L hw hL hc.1.1 hc.1.2 (by simpa using hc.2)
      · cases h
    · cases h
  | wInsert t =>
    simp only [step?] at h
    split at h
    · rename_i k i hw
      split at h
      · rename_i L hf
        obtain ⟨hL, rfl⟩ := findLeaf_some hf
        split at h
        · cases h
          exact Step.wInsert t k L hw hL
        · cases h
      · cases h
    · cases h
  | wUnlock t =>
    simp only [step?] at h
    split at h
    · rename_i k i hw
      split at h
      · rename_i L hf
        obtain ⟨hL, rfl⟩ := findLeaf_some hf
        cases h
        exact Step.wUnlock t k L hw hL
      · cases h
    · cases h
  | wSplit t =>
    simp only [step?] at h
    split at h
    · rename_i k i hw
      split at h
      · rename_i L hf
        obtain ⟨hL, rfl⟩ := findLeaf_some hf
        split at h
        · split at h
          · cases h
          · rename_i p up hd
            cases h
            exact Step.wSplit t k L (splitPoint c) p up hw hL (splitPoint_pos c) hd
        · cases h
      · cases h
    · cases h
  | wUnlockL t =>
    simp only [step?] at h
    split at h
    · rename_i k i j hw
      split at h
      · rename_i L hf
        obtain ⟨hL, rfl⟩ := findLeaf_some hf
        cases h
        exact Step.wUnlockL t k j L hw hL
      · cases h
    · cases h
  | wUnlockR t =>
    simp only [step?] at h
    split at h
    · rename_i k j hw
      split at h
      · rename_i L hf
        obtain ⟨hL, rfl⟩ := findLeaf_some hf
        cases h
        exact Step.wUnlockR t k L hw hL
      · cases h
    · cases h
  | sStart t a b =>
    simp only [step?] at h
    split at h
    · rename_i hs
      cases h
      exact Step.sStart t a b hs
    · cases h
  | sEnter t i =>
    simp only [step?] at h
    split at h
    · rename_i a b L hs hf
      obtain ⟨hL, rfl⟩ := findLeaf_some hf
      split at h
      · rename_i hc
        cases h
        exact Step.sEnter t a b L hs hL ((ownsB_iff _ _ _).mp hc)
      · cases h
    · cases h
  | sLoadVer t =>
    simp only [step?] at h
    split at h
    · rename_i a b ks ns cur hs
      split at h
      · rename_i L hf
        obtain ⟨hL, rfl⟩ := findLeaf_some hf
        split at h
        · rename_i hc
          simp only [Bool.and_eq_true, Bool.not_eq_true'] at hc
          cases h
          exact Step.sLoadVer t a b ks ns L hs hL hc
        · cases h
      · cases h
    · cases h
  | sSnapshot t =>
    simp only [step?] at h
    split at h
    · rename_i a b ks ns cur vi vs hs
      split at h
      · rename_i L hf
        obtain ⟨hL, rfl⟩ := findLeaf_some hf
        cases h
        exact Step.sSnapshot t a b ks ns vi vs L hs hL
      · cases h
    · cases h
  | sValidate t =>
    simp only [step?] at h
    split at h
    · rename_i a b ks ns cur vi vs snap hs
      split at h
      · rename_i L hf
        obtain ⟨hL, rfl⟩ := findLeaf_some hf
        split at h
        · cases h
        · rename_i hst
          simp only [Bool.or_eq_true, not_or, Bool.not_eq_true] at hst
          split at h
          · rename_i hne
            cases h
            exact Step.sRestart t a b ks ns vi vs snap L hs hL hst hne
          · rename_i heq
            have heq' : L.vsplit = vs := by simpa using heq
            split at h
            · rename_i hne
              cases h
              exact Step.sRedo t a b ks ns vi vs snap L hs hL hst heq' hne
            · rename_i hv
              have hv' : L.vins = vi := by simpa using hv
              split at h
              · rename_i hn
                cases h
                exact Step.sFinish t a b ks ns vi vs snap L hs hL hst heq' hv' (by simp [hn])
              · rename_i n hn
                split at h
                · rename_i hb
                  cases h
                  refine Step.sFinish t a b ks ns vi vs snap L hs hL hst heq' hv' ?_
                  intro n' hn'
                  rw [hn] at hn'
                  cases hn'
                  exact hb
                · rename_i hb
                  cases h
                  exact Step.sAdvance t a b ks ns vi vs snap L n hs hL hst heq' hv' hn (by omega)
      · cases h
    · cases h

/-! ## list facts -/

theorem pairwise_inj {α : Type} {f : α → Nat} {l : List α}
    (h : l.Pairwise (fun a b => f a ≠ f b)) {a b : α} (ha : a ∈ l) (hb : b ∈ l)
    (e : f a = f b) : a = b := by
  induction l with
  | nil => cases ha
  | cons x xs ih =>
    rw [List.pairwise_cons] at h
    rcases List.mem_cons.mp ha with rfl | ha'
    · rcases List.mem_cons.mp hb with rfl | hb'
      · rfl
      · exact absurd e (h.1 b hb')
    · rcases List.mem_cons.mp hb with rfl | hb'
      · exact absurd e.symm (h.1 a ha')
      · exact ih h.2 ha' hb'

theorem mem_insertSorted {k x : Nat} {l : List Nat} :
    x ∈ insertSorted k l ↔ x = k ∨ (x ∈ l ∧ x ≠ k) := by
  unfold insertSorted
  simp only [List.mem_append, List.mem_filter, List.mem_cons, decide_eq_true_eq]
  constructor
  · rintro (⟨h1, h2⟩ | rfl | ⟨h1, h2⟩)
    · exact Or.inr ⟨h1, by omega⟩
    · exact Or.inl rfl
    · exact Or.inr ⟨h1, by omega⟩
  · rintro (rfl | ⟨h1, h2⟩)
    · exact Or.inr (Or.inl rfl)
    · rcases Nat.lt_or_gt_of_ne h2 with h | h
      · exact Or.inl ⟨h1, h⟩
      · exact Or.inr (Or.inr ⟨h1, h⟩)

theorem pairwise_insertSorted {k : Nat} {l : List Nat} (h : l.Pairwise (· < ·)) :
    (insertSorted k l).Pairwise (· < ·) := by
  unfold insertSorted
  rw [List.pairwise_append, List.pairwise_cons]
  refine ⟨h.filter _, ⟨?_, h.filter _⟩, ?_⟩
  · intro x hx
    simpa using (List.mem_filter.mp hx).2
  · intro x hx y hy
    have hx' : x < k := by simpa using (List.mem_filter.mp hx).2
    rcases List.mem_cons.mp hy with rfl | hy'
    · exact hx'
    · have : k < y := by simpa using (List.mem_filter.mp hy').2
      omega

theorem take_lt_drop {l : List Nat} (hs : l.Pairwise (· < ·)) (h : Nat) :
    ∀ x ∈ l.take h, ∀ y ∈ l.drop h, x < y := by
  have := List.take_append_drop h l
  rw [← this, List.pairwise_append] at hs
  exact hs.2.2

/-! ## the chain invariant -/

structure ChainInv (ch : List Leaf) (nid : Nat) : Prop where
  sorted : ch.Pairwise (fun L M => L.lo < M.lo)
  ids : ch.Pairwise (fun L M => L.id ≠ M.id)
  idlt : ∀ L ∈ ch, L.id < nid
  keysIn : ∀ L ∈ ch, ∀ k ∈ L.keys, Owns ch L k
  ksorted : ∀ L ∈ ch, L.keys.Pairwise (· < ·)

theorem ChainInv.eq_of_id {ch nid} (h : ChainInv ch nid) {L M : Leaf} (hL : L ∈ ch) (hM : M ∈ ch)
    (e : L.id = M.id) : L = M := pairwise_inj (f := Leaf.id) h.ids hL hM e

theorem ChainInv.eq_of_lo {ch nid} (h : ChainInv ch nid) {L M : Leaf} (hL : L ∈ ch) (hM : M ∈ ch)
    (e : L.lo = M.lo) : L = M :=
  pairwise_inj (f := Leaf.lo) (h.sorted.imp (fun hlt => Nat.ne_of_lt hlt)) hL hM e

theorem owner_lo_unique {ch : List Leaf} {L M : Leaf} {k : Nat} (hL : L ∈ ch) (hM : M ∈ ch)
    (h1 : Owns ch L k) (h2 : Owns ch M k) : L.lo = M.lo := by
  rcases Nat.lt_trichotomy L.lo M.lo with h | h | h
  · have := h1.2 M hM h; have := h2.1; omega
  · exact h
  · have := h2.2 L hL h; have := h1.1; omega

/-- ownership only depends on the set of fences -/
theorem Owns.of_los {ch ch' : List Leaf} {L L' : Leaf} {k : Nat} (h : Owns ch L k)
    (hlo : L'.lo = L.lo) (hsub : ∀ M' ∈ ch', ∃ M ∈ ch, M.lo = M'.lo) : Owns ch' L' k := by
  refine ⟨by rw [hlo]; exact h.1, fun M' hM' hlt => ?_⟩
  obtain ⟨M, hM, e⟩ := hsub M' hM'
  rw [← e]
  exact h.2 M hM (by rw [e, ← hlo]; exact hlt)

/-! ## `setLeaf` -/

theorem mem_setLeaf {ch : List Leaf} {L L' M : Leaf} (hL : L ∈ ch) (hid : L'.id = L.id) :
    M ∈ setLeaf ch L' ↔ M = L' ∨ (M ∈ ch ∧ M.id ≠ L.id) := by
  unfold setLeaf
  rw [List.mem_map]
  constructor
  · rintro ⟨X, hX, rfl⟩
    by_cases h : X.id = L'.id
    · simp [h]
    · simp only [h, if_false]
      exact Or.inr ⟨hX, by rw [← hid]; exact h⟩
  · rintro (rfl | ⟨h1, h2⟩)
    · exact ⟨L, hL, by simp [hid]⟩
    · exact ⟨M, h1, by rw [hid]; simp [h2]⟩

theorem setLeaf_los {ch : List Leaf} {L L' : Leaf} (hL : L ∈ ch)
    (hid : L'.id = L.id) (hlo : L'.lo = L.lo) :
    ∀ M' ∈ setLeaf ch L', ∃ M ∈ ch, M.lo = M'.lo := by
  intro M' hM'
  rcases (mem_setLeaf hL hid).mp hM' with rfl | ⟨h1, _⟩
  · exact ⟨L, hL, hlo.symm⟩
  · exact ⟨M', h1, rfl⟩

theorem chainInv_setLeaf {ch : List Leaf} {nid} (hc : ChainInv ch nid) {L L' : Leaf} (hL : L ∈ ch)
    (hid : L'.id = L.id) (hlo : L'.lo = L.lo) (hk : ∀ k ∈ L'.keys, Owns ch L k)
    (hs : L'.keys.Pairwise (· < ·)) : ChainInv (setLeaf ch L') nid := by
  have hf : ∀ M ∈ ch, (if M.id = L'.id then L' else M).lo = M.lo ∧
      (if M.id = L'.id then L' else M).id = M.id := by
    intro M hM
    by_cases h : M.id = L'.id
    · have : M = L := hc.eq_of_id hM hL (by rw [h, hid])
      subst this
      simp [h, hlo]
    · simp [h]
  have hsub := setLeaf_los hL hid hlo
  refine ⟨?_, ?_, ?_, ?_, ?_⟩
  · unfold setLeaf
    rw [List.pairwise_map]
    refine hc.sorted.imp_of_mem ?_
    intro A B hA hB hlt
    rw [(hf A hA).1, (hf B hB).1]; exact hlt
  · unfold setLeaf
    rw [List.pairwise_map]
    refine hc.ids.imp_of_mem ?_
    intro A B hA hB hne
    rw [(hf A hA).2, (hf B hB).2]; exact hne
  · intro M hM
    rcases (mem_setLeaf hL hid).mp hM with rfl | ⟨h1, _⟩
    · rw [hid]; exact hc.idlt L hL
    · exact hc.idlt M h1
  · intro M hM k hkM
    rcases (mem_setLeaf hL hid).mp hM with rfl | ⟨h1, _⟩
    · exact (hk k hkM).of_los hlo hsub
    · exact (hc.keysIn M h1 k hkM).of_los rfl hsub
  · intro M hM
    rcases (mem_setLeaf hL hid).mp hM with rfl | ⟨h1, _⟩
    · exact hs
    · exact hc.ksorted M h1

/-! ## `insAfter` -/

theorem mem_insAfter {ch : List Leaf} {i : Nat} {R M : Leaf} :
    M ∈ insAfter ch i R ↔ M ∈ ch ∨ (M = R ∧ ∃ L ∈ ch, L.id = i) := by
  induction ch with
  | nil => simp [insAfter]
  | cons X xs ih =>
    unfold insAfter
    by_cases h : X.id = i
    · simp only [h, if_true, List.mem_cons]
      constructor
      · rintro (rfl | rfl | h')
        · exact Or.inl (Or.inl rfl)
        · exact Or.inr ⟨rfl, X, Or.inl rfl, h⟩
        · exact Or.inl (Or.inr h')
      · rintro ((rfl | h') | ⟨rfl, _⟩)
        · exact Or.inl rfl
        · exact Or.inr (Or.inr h')
        · exact Or.inr (Or.inl rfl)
    · simp only [h, if_false, List.mem_cons, ih]
      constructor
      · rintro (rfl | h' | ⟨rfl, L, hL, e⟩)
        · exact Or.inl (Or.inl rfl)
        · exact Or.inl (Or.inr h')
        · exact Or.inr ⟨rfl, L, Or.inr hL, e⟩
      · rintro ((rfl | h') | ⟨rfl, L, hL | hL, e⟩)
        · exact Or.inl rfl
        · exact Or.inr (Or.inl h')
        · subst hL; exact absurd e h
        · exact Or.inr (Or.inr ⟨rfl, L, hL, e⟩)

theorem pairwise_lo_insAfter {ch : List Leaf} {i : Nat} {R : Leaf}
    (hs : ch.Pairwise (fun L M => L.lo < M.lo))
    (hR : ∀ L ∈ ch, L.id = i → L.lo < R.lo ∧ ∀ M ∈ ch, L.lo < M.lo → R.lo < M.lo) :
    (insAfter ch i R).Pairwise (fun L M => L.lo < M.lo) := by
  induction ch with
  | nil => simp [insAfter]
  | cons X xs ih =>
    rw [List.pairwise_cons] at hs
    unfold insAfter
    by_cases h : X.id = i
    · simp only [h, if_true]
      have hX := hR X List.mem_cons_self h
      rw [List.pairwise_cons, List.pairwise_cons]
      refine ⟨?_, ?_, hs.2⟩
      · intro M hM
        rcases List.mem_cons.mp hM with rfl | hM'
        · exact hX.1
        · exact hs.1 M hM'
      · intro M hM
        exact hX.2 M (List.mem_cons_of_mem _ hM) (hs.1 M hM)
    · simp only [h, if_false]
      rw [List.pairwise_cons]
      refine ⟨?_, ih hs.2 ?_⟩
      · intro M hM
        rcases mem_insAfter.mp hM with hM' | ⟨rfl, L, hL, e⟩
        · exact hs.1 M hM'
        · have := (hR L (List.mem_cons_of_mem _ hL) e).1
          have := hs.1 L hL
          omega
      · intro L hL e
        have := hR L (List.mem_cons_of_mem _ hL) e
        exact ⟨this.1, fun M hM => this.2 M (List.mem_cons_of_mem _ hM)⟩

theorem pairwise_id_insAfter {ch : List Leaf} {i : Nat} {R : Leaf}
    (hs : ch.Pairwise (fun L M => L.id ≠ M.id)) (hR : ∀ L ∈ ch, L.id ≠ R.id) :
    (insAfter ch i R).Pairwise (fun L M => L.id ≠ M.id) := by
  induction ch with
  | nil => simp [insAfter]
  | cons X xs ih =>
    rw [List.pairwise_cons] at hs
    unfold insAfter
    by_cases h : X.id = i
    · simp only [h, if_true]
      rw [List.pairwise_cons, List.pairwise_cons]
      refine ⟨?_, ?_, hs.2⟩
      · intro M hM
        rcases List.mem_cons.mp hM with rfl | hM'
        · exact hR X List.mem_cons_self
        · exact hs.1 M hM'
      · intro M hM
        exact (hR M (List.mem_cons_of_mem _ hM)).symm
    · simp only [h, if_false]
      rw [List.pairwise_cons]
      refine ⟨?_, ih hs.2 (fun L hL => hR L (List.mem_cons_of_mem _ hL))⟩
      intro M hM
      rcases mem_insAfter.mp hM with hM' | ⟨rfl, _⟩
      · exact hs.1 M hM'
      · exact hR X List.mem_cons_self

/-! ## `nextOf` -/

theorem nextOf_spec {ch : List Leaf} (hs : ch.Pairwise (fun L M => L.lo < M.lo))
    (hi : ch.Pairwise (fun L M => L.id ≠ M.id)) {L : Leaf} (hL : L ∈ ch) :
    (nextOf ch L.id = none → ∀ M ∈ ch, M.lo ≤ L.lo) ∧
    (∀ n, nextOf ch L.id = some n → n ∈ ch ∧ L.lo < n.lo ∧ ∀ M ∈ ch, L.lo < M.lo → n.lo ≤ M.lo) := by
  induction ch with
  | nil => cases hL
  | cons X xs ih =>
    rw [List.pairwise_cons] at hs hi
    unfold nextOf
    by_cases h : X.id = L.id
    · have hXL : X = L := by
        rcases List.mem_cons.mp hL with rfl | hL'
        · rfl
        · exact absurd h (hi.1 L hL')
      subst hXL
      simp only [if_true]
      cases xs with
      | nil =>
        simp only [List.head?_nil, forall_const, List.mem_singleton]
        refine ⟨fun M hM => (by subst hM; exact Nat.le_refl _), fun n hn => (by cases hn)⟩
      | cons n r =>
        simp only [List.head?_cons]
        refine ⟨fun hn => (by cases hn), fun n' hn' => ?_⟩
        cases hn'
        refine ⟨by simp, hs.1 n (by simp), ?_⟩
        intro M hM hlt
        rcases List.mem_cons.mp hM with rfl | hM'
        · omega
        · rcases List.mem_cons.mp hM' with rfl | hM''
          · exact Nat.le_refl _
          · rw [List.pairwise_cons] at hs
            exact Nat.le_of_lt (hs.2.1 M hM'')
    · simp only [h, if_false]
      have hL' : L ∈ xs := by
        rcases List.mem_cons.mp hL with rfl | hL'
        · exact absurd rfl h
        · exact hL'
      obtain ⟨ih1, ih2⟩ := ih hs.2 hi.2 hL'
      have hXlt := hs.1 L hL'
      refine ⟨fun hn M hM => ?_, fun n hn => ?_⟩
      · rcases List.mem_cons.mp hM with rfl | hM'
        · omega
        · exact ih1 hn M hM'
      · obtain ⟨a1, a2, a3⟩ := ih2 n hn
        refine ⟨List.mem_cons_of_mem _ a1, a2, fun M hM hlt => ?_⟩
        rcases List.mem_cons.mp hM with rfl | hM'
        · omega
        · exact a3 M hM' hlt

/-! ## split -/

/-- what `wSplit` does to leaf `L`: `L'` replaces it, `R` is the new right sibling. -/
structure SplitOf (ch : List Leaf) (nid : Nat) (L L' R : Leaf) (k : Nat) : Prop where
  hL : L ∈ ch
  id' : L'.id = L.id
  lo' : L'.lo = L.lo
  vins' : L'.vins = L.vins
  vsplit' : L'.vsplit = L.vsplit
  dirty' : L'.dirty = true
  locked' : L'.locked = L.locked
  rid : R.id = nid
  rlo : L.lo < R.lo
  rown : Owns ch L R.lo
  rdirty : R.dirty = true
  rlocked : R.locked = true
  rvins : R.vins = L.vins
  rvsplit : R.vsplit = L.vsplit
  keysL : ∀ x ∈ L'.keys, x < R.lo ∧ (x ∈ L.keys ∨ x = k)
  keysR : ∀ x ∈ R.keys, R.lo ≤ x ∧ (x ∈ L.keys ∨ x = k)
  keysAll : ∀ x, x ∈ L.keys ∨ x = k → x ∈ L'.keys ∨ x ∈ R.keys
  sortedL : L'.keys.Pairwise (· < ·)
  sortedR : R.keys.Pairwise (· < ·)

theorem splitOf_step {ch : List Leaf} {nid : Nat} (hc : ChainInv ch nid) {L : Leaf} (hL : L ∈ ch)
    {h p k : Nat} {up : List Nat} (hh : 1 ≤ h) (hdrop : L.keys.drop h = p :: up) :
    SplitOf ch nid L
      { L with dirty := true, keys := if k < p then insertSorted k (L.keys.take h) else L.keys.take h }
      { id := nid, lo := p, keys := if k < p then p :: up else insertSorted k (p :: up)
        vins := L.vins, vsplit := L.vsplit, locked := true, dirty := true } k := by
  have hsorted := hc.ksorted L hL
  have hlt := take_lt_drop hsorted h
  rw [hdrop] at hlt
  have hdsorted : (p :: up).Pairwise (· < ·) := by
    rw [← hdrop]; exact hsorted.sublist (List.drop_sublist _ _)
  have htsorted : (L.keys.take h).Pairwise (· < ·) := hsorted.sublist (List.take_sublist _ _)
  have hpmem : p ∈ L.keys := List.mem_of_mem_drop (by rw [hdrop]; exact List.mem_cons_self)
  have hsplit : ∀ x, x ∈ L.keys ↔ x ∈ L.keys.take h ∨ x ∈ p :: up := by
    intro x
    conv => lhs; rw [← List.take_append_drop h L.keys, hdrop]
    exact List.mem_append
  have hple : ∀ x ∈ p :: up, p ≤ x := by
    intro x hx
    rcases List.mem_cons.mp hx with rfl | hx'
    · exact Nat.le_refl _
    · exact Nat.le_of_lt ((List.pairwise_cons.mp hdsorted).1 x hx')
  refine { hL := hL, id' := rfl, lo' := rfl, vins' := rfl, vsplit' := rfl, dirty' := rfl,
           locked' := rfl, rid := rfl, rlo := ?_, rown := hc.keysIn L hL p hpmem, rdirty := rfl,
           rlocked := rfl, rvins := rfl, rvsplit := rfl, keysL := ?_, keysR := ?_, keysAll := ?_,
           sortedL := ?_, sortedR := ?_ }
  · -- the lower part is not empty
    show L.lo < p
    cases hk : L.keys with
    | nil => rw [hk] at hdrop; simp at hdrop
    | cons x0 tl =>
      have hx0 : x0 ∈ L.keys.take h := by
        rw [hk]
        obtain ⟨h', rfl⟩ : ∃ h', h = h' + 1 := ⟨h - 1, by omega⟩
        simp
      have := hlt x0 hx0 p List.mem_cons_self
      have := (hc.keysIn L hL x0 (List.mem_of_mem_take hx0)).1
      omega
  · intro x hx
    show x < p ∧ _
    simp only at hx
    split at hx
    · rename_i hkp
      rcases mem_insertSorted.mp hx with rfl | ⟨hx', _⟩
      · exact ⟨hkp, Or.inr rfl⟩
      · exact ⟨hlt x hx' p List.mem_cons_self, Or.inl (List.mem_of_mem_take hx')⟩
    · exact ⟨hlt x hx p List.mem_cons_self, Or.inl (List.mem_of_mem_take hx)⟩
  · intro x hx
    show p ≤ x ∧ _
    simp only at hx
    split at hx
    · exact ⟨hple x hx, Or.inl ((hsplit x).mpr (Or.inr hx))⟩
    · rename_i hkp
      rcases mem_insertSorted.mp hx with rfl | ⟨hx', _⟩
      · exact ⟨by omega, Or.inr rfl⟩
      · exact ⟨hple x hx', Or.inl ((hsplit x).mpr (Or.inr hx'))⟩
  · intro x hx
    simp only
    by_cases hkp : k < p
    · simp only [hkp, if_true]
      rcases hx with hx | rfl
      · rcases (hsplit x).mp hx with h1 | h1
        · by_cases hxk : x = k
          · exact Or.inl (mem_insertSorted.mpr (Or.inl hxk))
          · exact Or.inl (mem_insertSorted.mpr (Or.inr ⟨h1, hxk⟩))
        · exact Or.inr h1
      · exact Or.inl (mem_insertSorted.mpr (Or.inl rfl))
    · simp only [hkp, if_false]
      rcases hx with hx | rfl
      · rcases (hsplit x).mp hx with h1 | h1
        · exact Or.inl h1
        · by_cases hxk : x = k
          · exact Or.inr (mem_insertSorted.mpr (Or.inl hxk))
          · exact Or.inr (mem_insertSorted.mpr (Or.inr ⟨h1, hxk⟩))
      · exact Or.inr (mem_insertSorted.mpr (Or.inl rfl))
  · simp only
    split
    · exact pairwise_insertSorted htsorted
    · exact htsorted
  · simp only
    split
    · exact hdsorted
    · exact pairwise_insertSorted hdsorted

theorem mem_split {ch : List Leaf} {nid : Nat} {L L' R M : Leaf} {k : Nat}
    (sp : SplitOf ch nid L L' R k) :
    M ∈ insAfter (setLeaf ch L') L.id R ↔ M = R ∨ M = L' ∨ (M ∈ ch ∧ M.id ≠ L.id) := by
  rw [mem_insAfter, mem_setLeaf sp.hL sp.id']
  constructor
  · rintro (h | ⟨rfl, _⟩)
    · exact Or.inr h
    · exact Or.inl rfl
  · rintro (rfl | h)
    · exact Or.inr ⟨rfl, L', (mem_setLeaf sp.hL sp.id').mpr (Or.inl rfl), sp.id'⟩
    · exact Or.inl h

/-- every fence after the split is an old fence or the new one -/
theorem split_los {ch : List Leaf} {nid : Nat} {L L' R : Leaf} {k : Nat}
    (sp : SplitOf ch nid L L' R k) :
    ∀ M' ∈ insAfter (setLeaf ch L') L.id R, M' = R ∨ ∃ M ∈ ch, M.lo = M'.lo ∧ M.id = M'.id := by
  intro M' hM'
  rcases (mem_split sp).mp hM' with rfl | rfl | ⟨h1, _⟩
  · exact Or.inl rfl
  · exact Or.inr ⟨L, sp.hL, sp.lo'.symm, sp.id'.symm⟩
  · exact Or.inr ⟨M', h1, rfl, rfl⟩

/-- a leaf other than the split one keeps its range -/
theorem Owns.split_other {ch : List Leaf} {nid : Nat} (hc : ChainInv ch nid) {L L' R : Leaf} {k : Nat}
    (sp : SplitOf ch nid L L' R k) {M : Leaf} (hM : M ∈ ch) (hne : M.id ≠ L.id) {x : Nat}
    (ho : Owns ch M x) : Owns (insAfter (setLeaf ch L') L.id R) M x := by
  refine ⟨ho.1, fun M' hM' hlt => ?_⟩
  rcases split_los sp M' hM' with rfl | ⟨M0, hM0, e, _⟩
  · -- M.lo < R.lo: then M is left of L
    have hne' : M.lo ≠ L.lo := fun e => hne (by rw [hc.eq_of_lo hM sp.hL e])
    rcases Nat.lt_or_gt_of_ne hne' with h | h
    · have := ho.2 L sp.hL h
      have := sp.rlo
      omega
    · have := sp.rown.2 M hM h
      omega
  · rw [← e]; exact ho.2 M0 hM0 (by rw [e]; exact hlt)

theorem chainInv_split {ch : List Leaf} {nid : Nat} (hc : ChainInv ch nid) {L L' R : Leaf} {k : Nat}
    (sp : SplitOf ch nid L L' R k) (hok : Owns ch L k) :
    ChainInv (insAfter (setLeaf ch L') L.id R) (nid + 1) := by
  have hownL : ∀ x, x ∈ L.keys ∨ x = k → Owns ch L x := by
    rintro x (hx | rfl)
    · exact hc.keysIn L sp.hL x hx
    · exact hok
  have hc1 : ChainInv (setLeaf ch L') nid :=
    chainInv_setLeaf hc sp.hL sp.id' sp.lo' (fun x hx => hownL x (sp.keysL x hx).2) sp.sortedL
  have hlos1 := setLeaf_los sp.hL sp.id' sp.lo'
  refine ⟨?_, ?_, ?_, ?_, ?_⟩
  · refine pairwise_lo_insAfter hc1.sorted ?_
    intro X hX hXid
    have hXlo : X.lo = L.lo := by
      rcases (mem_setLeaf sp.hL sp.id').mp hX with rfl | ⟨_, h2⟩
      · exact sp.lo'
      · exact absurd hXid h2
    rw [hXlo]
    refine ⟨sp.rlo, fun M hM hlt => ?_⟩
    obtain ⟨M0, hM0, e⟩ := hlos1 M hM
    rw [← e]; exact sp.rown.2 M0 hM0 (by rw [e]; exact hlt)
  · refine pairwise_id_insAfter hc1.ids ?_
    intro X hX
    have := hc1.idlt X hX
    rw [sp.rid]; omega
  · intro M hM
    rcases (mem_split sp).mp hM with rfl | rfl | ⟨h1, _⟩
    · rw [sp.rid]; omega
    · rw [sp.id']; have := hc.idlt L sp.hL; omega
    · have := hc.idlt M h1; omega
  · intro M hM x hx
    rcases (mem_split sp).mp hM with rfl | rfl | ⟨h1, h2⟩
    · obtain ⟨hle, hmem⟩ := sp.keysR x hx
      refine ⟨hle, fun M' hM' hlt => ?_⟩
      rcases split_los sp M' hM' with rfl | ⟨M0, hM0, e, _⟩
      · omega
      · rw [← e]
        exact (hownL x hmem).2 M0 hM0 (by have := sp.rlo; omega)
    · obtain ⟨hlt', hmem⟩ := sp.keysL x hx
      refine ⟨by rw [sp.lo']; exact (hownL x hmem).1, fun M' hM' hlt => ?_⟩
      rcases split_los sp M' hM' with rfl | ⟨M0, hM0, e, _⟩
      · exact hlt'
      · rw [← e]
        exact (hownL x hmem).2 M0 hM0 (by rw [e, ← sp.lo']; exact hlt)
    · exact (hc.keysIn M h1 x hx).split_other hc sp h1 h2
  · intro M hM
    rcases (mem_split sp).mp hM with rfl | rfl | ⟨h1, _⟩
    · exact sp.sortedR
    · exact sp.sortedL
    · exact hc.ksorted M h1

end Yak.Proto.NodeSet
