import YakModel.Proofs.LeafInv
/-!
# `Leaf`: hindsight facts (`Inv2`)

`H q` is the abstract map after `q` steps (`H s.now = abs s`). `Saw s H t k P` says that at some
instant inside the running operation of thread `t` the binding of `k` satisfied `P`. A reader's
validated observations are turned into `Saw` facts; these are what its eventual answer is
justified by (its linearization point is only known in hindsight).
-/
namespace Yak.Proto.Leaf

def Saw (s : State) (H : Nat → Spec) (t : Nat) (k : Key) (P : Option Val → Prop) : Prop :=
  ∃ q, s.inv t < q ∧ q ≤ s.now ∧ P (H q k)

/-- has a version in hand (past `ldVer` in the current attempt) -/
def Pc.fetched : Pc → Bool
  | .idle | .start _ => false
  | _ => true

def HitSaw (s : State) (H : Nat → Spec) (t : Nat) (op : OpKind) : Option Slot → Prop
  | none => Saw s H t (opKey op) (· = none)
  | some _ => Saw s H t (opKey op) (fun x => x.isSome = true)

def DoneOk (s : State) (H : Nat → Spec) (t : Nat) : OpKind → Res → Prop
  | .get k, .ok x => x ≠ none → Saw s H t k (· = x)
  | .get k, .notExist => Saw s H t k (· = none)
  | .remove k, .notFound => Saw s H t k (· = none)
  | .remove _, .ok x => x = none
  | .put _ _ _, .ok x => x = none
  | .put k _ u, .uniqueRestriction => u = true ∧ Saw s H t k (fun x => x.isSome = true)
  | _, _ => False

def Pc2 (s : State) (H : Nat → Spec) (t : Nat) : Pc → Prop
  | .haveP op v1 p => quiet s v1 →
      (lookupIn s.keys p (opKey op) = none → Saw s H t (opKey op) (· = none)) ∧
      (lookupIn s.keys p (opKey op) ≠ none → Saw s H t (opKey op) (fun x => x.isSome = true))
  | .looked op v1 hit => quiet s v1 → HitSaw s H t op hit
  | .valid op _ hit => HitSaw s H t op hit
  | .gotVal op v1 x => quiet s v1 → x ≠ none → Saw s H t (opKey op) (· = x)
  | .relooked op hit => hit = none → Saw s H t (opKey op) (· = none)
  | .done op r => DoneOk s H t op r
  | _ => True

structure Inv2 (s : State) (H : Nat → Spec) : Prop where
  h_now : H s.now = abs s
  pc2 : ∀ t, Pc2 s H t (s.pc t)
  /-- whoever was already fetching when a remover cleared the cell saw the key bound -/
  rem_saw : ∀ t t' op sl, s.pc t' = .cleared op sl → (s.pc t).fetched = true →
    Saw s H t (opKey op) (fun x => x.isSome = true)

theorem inv2_init : Inv2 init (fun _ _ => none) := by
  constructor
  · funext k; simp [abs, init, lookupIn]
  · intro t; simp [init, Pc2]
  · intro t t' op sl h; simp [init] at h

theorem Step.inv_eq {c s t s'} (h : Step c s t s') (t' : Nat) (hne : s.pc t' ≠ .idle) :
    s'.inv t' = s.inv t' := by
  cases h <;> try rfl
  case invoke hpc =>
    have : t' ≠ t := by rintro rfl; exact hne hpc
    exact upd_other _ _ _ _ this

theorem Saw.mono {s s' : State} {H t k P} (hs : Saw s H t k P) (hinv : s'.inv t = s.inv t)
    (hnow : s'.now = s.now + 1) (m : Spec) : Saw s' (upd H s'.now m) t k P := by
  obtain ⟨q, h1, h2, h3⟩ := hs
  refine ⟨q, by rw [hinv]; exact h1, by omega, ?_⟩
  rw [upd_other _ _ _ _ (by omega)]; exact h3

theorem Saw.of_now {s : State} {H t k} {P : Option Val → Prop} (hH : H s.now = abs s)
    (hlt : s.inv t < s.now) (hp : P (abs s k)) : Saw s H t k P :=
  ⟨s.now, hlt, Nat.le_refl _, by rw [hH]; exact hp⟩

theorem Pc2_mono {c : Cfg} {s s' : State} {H H' t}
    (hsaw : ∀ k P, Saw s H t k P → Saw s' H' t k P)
    (hq : ∀ v1, v1 ≤ s.ver.vins → quiet s' v1 → quiet s v1 ∧ s'.keys = s.keys)
    (p : Pc) (hok : PcOk c s p) : Pc2 s H t p → Pc2 s' H' t p := by
  cases p <;> simp only [Pc2, PcOk] at hok ⊢
  case haveP op v1 p =>
    intro h q'
    obtain ⟨q, hk⟩ := hq v1 hok.1 q'
    rw [hk]
    exact ⟨fun e => hsaw _ _ ((h q).1 e), fun e => hsaw _ _ ((h q).2 e)⟩
  case looked op v1 hit =>
    intro h q'
    have := h (hq v1 hok.1 q').1
    cases hit <;> exact hsaw _ _ (by simpa only [HitSaw] using this)
  case valid op v1 hit =>
    intro h
    cases hit <;> exact hsaw _ _ (by simpa only [HitSaw] using h)
  case gotVal op v1 x =>
    intro h q' hx
    exact hsaw _ _ (h (hq v1 hok.1 q').1 hx)
  case relooked op hit =>
    intro h e
    exact hsaw _ _ (h e)
  case done op r =>
    intro h
    cases op <;> cases r <;> simp only [DoneOk] at h ⊢ <;> try exact h
    all_goals first
      | exact fun hx => hsaw _ _ (h hx)
      | exact hsaw _ _ h
      | exact ⟨h.1, hsaw _ _ h.2⟩
  all_goals exact id

theorem Step.inv_other {c s t s'} (h : Step c s t s') (t' : Nat) (ht : t' ≠ t) :
    s'.inv t' = s.inv t' := by
  cases h <;> try rfl
  case invoke => exact upd_other _ _ _ _ ht

theorem pc2_other {c s t s' H} (I : Inv1 c s) (J : Inv2 s H) (h : Step c s t s') (t' : Nat)
    (ht : t' ≠ t) : Pc2 s' (upd H s'.now (abs s')) t' (s'.pc t') := by
  rw [h.pc_other t' ht]
  exact Pc2_mono (fun k P hs => hs.mono (h.inv_other t' ht) h.now_eq _)
    (fun v1 hv hq => ⟨(quiet_step I h hv hq).1, (quiet_step I h hv hq).2.1⟩) _ (I.pc_ok t') (J.pc2 t')

theorem pc2_self {c s t s' H} (I : Inv1 c s) (J : Inv2 s H) (h : Step c s t s') :
    Pc2 s' (upd H s'.now (abs s')) t (s'.pc t) := by
  have hok := I.pc_ok t
  have h2 := J.pc2 t
  have hnow := h.now_eq
  -- facts that hold now are seen
  have now_saw : ∀ (P : Option Val → Prop) k, s.pc t ≠ .idle → P (abs s k) →
      Saw s' (upd H s'.now (abs s')) t k P := fun P k hne hp =>
    (Saw.of_now J.h_now (I.inv_lt t hne) hp).mono (h.inv_eq t hne) hnow _
  have mono : ∀ k P, s.pc t ≠ .idle → Saw s H t k P → Saw s' (upd H s'.now (abs s')) t k P :=
    fun k P hne hs => hs.mono (h.inv_eq t hne) hnow _
  cases h
  case invoke => dsimp only; rw [upd_same]; exact True.intro
  all_goals rename_i hpc
  all_goals rw [hpc] at hok h2
  all_goals have hne : s.pc t ≠ .idle := by rw [hpc]; intro e; cases e
  all_goals dsimp only
  all_goals rw [upd_same]
  all_goals simp only [Pc2, PcOk] at hok h2 ⊢
  case ldPerm op v1 =>
    intro _
    constructor
    · intro hl
      exact now_saw _ _ hne (by simp only [abs, hl])
    · intro hl
      cases hl' : lookupIn s.keys s.perm (opKey op) with
      | none => exact absurd hl' hl
      | some sl =>
        cases hv : s.vals sl with
        | some v => exact now_saw _ _ hne (by simp only [abs, hl', hv]; rfl)
        | none =>
          obtain ⟨hm, hk⟩ := lookupIn_some hl'
          obtain ⟨t', op', hc⟩ := I.val_listed sl hm hv
          have hok' := I.pc_ok t'
          rw [hc] at hok'
          have hk' : opKey op' = opKey op := by
            have := hok'.2.2.1; rw [hk] at this; exact (Option.some.inj this).symm
          have := J.rem_saw t t' op' sl hc (by rw [hpc]; rfl)
          rw [hk'] at this
          exact mono _ _ hne this
  case ldKeys op v1 p =>
    intro q
    have := h2 q
    cases hl : lookupIn s.keys p (opKey op) with
    | none => exact mono _ _ hne (this.1 hl)
    | some sl => exact mono _ _ hne (this.2 (by rw [hl]; intro e; cases e))
  case ldVer2Ok op v1 hit hst hv =>
    have hq : quiet s v1 := ⟨hv, by simp [Ver.stable] at hst; exact hst.2⟩
    have := h2 hq
    cases hit <;> exact mono _ _ hne (by simpa only [HitSaw] using this)
  case ldValOk k v1 sl hfix =>
    intro hq hx
    have hk : s.keys sl = some k := hok.2 hq
    by_cases hm : sl ∈ s.perm
    · have hl := lookupIn_of_mem I.keys_inj hm hk
      exact now_saw _ _ hne (by simp only [abs, opKey, hl])
    · obtain ⟨t', op', hc⟩ := I.val_unlisted sl hm hx
      have hok' := I.pc_ok t'
      rw [hc] at hok'
      have := hok'.1
      rw [hq.2] at this; cases this
  case getMiss => exact mono _ _ hne (by simpa only [HitSaw] using h2)
  case getOk k v1 x hst hv =>
    have hq : quiet s v1 := ⟨hv, by simp [Ver.stable] at hst; exact hst.2⟩
    exact fun hx => mono _ _ hne (h2 hq hx)
  case remMiss => exact mono _ _ hne (by simpa only [HitSaw] using h2)
  case uniqueHit => exact ⟨rfl, mono _ _ hne (by simpa only [HitSaw, opKey] using h2)⟩
  case relook op sl =>
    intro hl
    exact now_saw _ _ hne (by simp only [abs, hl])
  case unlockPub op r =>
    rw [hok.1]
    cases op <;> simp [DoneOk, OpKind.isGet] at hok ⊢
  case unlockRemMiss => exact mono _ _ hne (h2 trivial)

theorem rem_saw_step {c s t s' H} (I : Inv1 c s) (J : Inv2 s H) (h : Step c s t s') :
    ∀ t1 t2 op sl, s'.pc t2 = .cleared op sl → (s'.pc t1).fetched = true →
      Saw s' (upd H s'.now (abs s')) t1 (opKey op) (fun x => x.isSome = true) := by
  intro t1 t2 op sl hc hf
  have hnow := h.now_eq
  by_cases e2 : t2 = t
  · subst e2
    have hok := I.pc_ok t2
    have hne1 : s.pc t1 ≠ .idle := by
      by_cases e1 : t1 = t2
      · subst e1; cases h <;> rename_i hpc <;> rw [hpc] <;> intro e <;> cases e
        -- invoke: new pc is `start`
        simp [upd_same] at hc
      · rw [h.pc_other t1 e1] at hf; intro e; rw [e] at hf; cases hf
    have key : Saw s H t1 (opKey op) (fun x => x.isSome = true) := by
      cases h
      case clearVal k sl' hpc =>
        dsimp only at hc; rw [upd_same] at hc; cases hc
        rw [hpc] at hok
        have hl : lookupIn s.keys s.perm k = some sl := hok.2.symm
        apply Saw.of_now J.h_now (I.inv_lt t1 hne1)
        simp only [abs, opKey, hl]
        cases hv : s.vals sl with
        | some v => rfl
        | none =>
          obtain ⟨t', op', hc'⟩ := I.val_listed sl (lookupIn_some hl).1 hv
          have := holder_eq I (t := t2) (t' := t') (by rw [hpc]; rfl) (by rw [hc']; rfl)
          subst this; rw [hpc] at hc'; cases hc'
      all_goals (dsimp only at hc; rw [upd_same] at hc; cases hc)
    exact key.mono (h.inv_eq t1 hne1) hnow _
  · rw [h.pc_other t2 e2] at hc
    have hl := I.lk_holds t2 (by rw [hc]; rfl)
    by_cases e1 : t1 = t
    · subst e1
      have hold : (s.pc t1).fetched = true := by
        cases h <;> rename_i hpc <;> (try (rw [hpc]; rfl))
        case invoke => dsimp only at hf; rw [upd_same] at hf; cases hf
        case ldVer hst => simp [Ver.stable, hl] at hst
      have hne1 : s.pc t1 ≠ .idle := by intro e; rw [e] at hold; cases hold
      exact (J.rem_saw t1 t2 op sl hc hold).mono (h.inv_eq t1 hne1) hnow _
    · rw [h.pc_other t1 e1] at hf
      exact (J.rem_saw t1 t2 op sl hc hf).mono (h.inv_other t1 e1) hnow _

theorem inv2_step {c s t s' H} (I : Inv1 c s) (J : Inv2 s H) (h : Step c s t s') :
    Inv2 s' (upd H s'.now (abs s')) where
  h_now := upd_same _ _ _
  pc2 := fun t' => by
    by_cases ht : t' = t
    · subst ht; exact pc2_self I J h
    · exact pc2_other I J h t' ht
  rem_saw := rem_saw_step I J h
end Yak.Proto.Leaf
