import YakModel.Cursor
import YakModel.Proofs.KeyOrderProofs
/-!
# Proofs about the cursor contract (C10)

`Cursor.remaining` is a filter of a filter of `content t`, hence strictly ascending whenever
`content t` is. On a strictly ascending list, "the entries beyond the head" is the tail and "the
entries before the last" is everything but the last, so one `next` step removes exactly one end of
`remaining`; `drain` therefore enumerates `remaining` (ascending or descending).
`pause_anywhere` only uses that `drain` is an iteration of `next`.
-/
namespace Yak.Tree
open Yak

/-- strictly ascending by key -/
abbrev KSorted (l : List (Key × Val)) : Prop := l.Pairwise (fun a b => lexLt a.1 b.1 = true)

theorem Cursor.open_rejects_iff (lk : Key) (le : EP) (rk : Key) (re : EP) (r2l : Bool) :
    (Cursor.open? lk le rk re r2l).isNone = true ↔ checkEmptyRange lk le rk re = false := by
  unfold Cursor.open?
  cases h : checkEmptyRange lk le rk re <;> simp

/-! ### strictly ascending lists -/

private theorem filter_gt_head (kv : Key × Val) (r : List (Key × Val)) (hs : KSorted (kv :: r)) :
    (kv :: r).filter (fun x => lexLt kv.1 x.1) = r := by
  rw [List.filter_cons, lexLt_irrefl]
  simp only [Bool.false_eq_true, if_false]
  rw [List.filter_eq_self]
  intro a ha
  exact (List.pairwise_cons.1 hs).1 a ha

private theorem filter_lt_last (kv : Key × Val) (r : List (Key × Val)) (hs : KSorted (r ++ [kv])) :
    (r ++ [kv]).filter (fun x => lexLt x.1 kv.1) = r := by
  rw [List.filter_append]
  have h1 : [kv].filter (fun x => lexLt x.1 kv.1) = [] := by
    simp [lexLt_irrefl]
  rw [h1, List.append_nil, List.filter_eq_self]
  intro a ha
  exact (List.pairwise_append.1 hs).2.2 a ha kv (List.mem_singleton.2 rfl)

/-- narrowing the lower bound from `k` to a key above `k` -/
private theorem filter_gt_narrow (l : List (Key × Val)) (k k' : Key) (h : lexLt k k' = true) :
    l.filter (fun x => lexLt k' x.1) =
      (l.filter (fun x => lexLt k x.1)).filter (fun x => lexLt k' x.1) := by
  rw [List.filter_filter]
  apply List.filter_congr
  intro x _
  cases h2 : lexLt k' x.1
  · simp
  · simp [lexLt_trans k k' x.1 h h2]

private theorem filter_lt_narrow (l : List (Key × Val)) (k k' : Key) (h : lexLt k' k = true) :
    l.filter (fun x => lexLt x.1 k') =
      (l.filter (fun x => lexLt x.1 k)).filter (fun x => lexLt x.1 k') := by
  rw [List.filter_filter]
  apply List.filter_congr
  intro x _
  cases h2 : lexLt x.1 k'
  · simp
  · simp [lexLt_trans x.1 k' k h2 h]

/-! ### `remaining` -/

theorem Cursor.remaining_sorted (c : Cursor) (t : Tree) (hs : KSorted (content t)) :
    KSorted (c.remaining t) := by
  unfold Cursor.remaining
  cases c.last with
  | none => exact hs.filter _
  | some k =>
    cases c.r2l
    · exact (hs.filter _).filter _
    · exact (hs.filter _).filter _

theorem Cursor.remaining_sub (c : Cursor) (t : Tree) (kv : Key × Val) (h : kv ∈ c.remaining t) :
    inInterval c.lk c.le c.rk c.re kv.1 = true ∧ kv ∈ content t ∧
    (∀ k, c.last = some k → if c.r2l then lexLt kv.1 k = true else lexLt k kv.1 = true) := by
  unfold Cursor.remaining at h
  cases hl : c.last with
  | none =>
    rw [hl] at h
    simp only [List.mem_filter] at h
    exact ⟨h.2, h.1, fun k hk => by cases hk⟩
  | some k0 =>
    rw [hl] at h
    cases hr : c.r2l <;> rw [hr] at h <;> simp only [Bool.false_eq_true, if_false, if_true,
      List.mem_filter] at h
    · refine ⟨h.1.2, h.1.1, fun k hk => ?_⟩
      cases hk; simpa using h.2
    · refine ⟨h.1.2, h.1.1, fun k hk => ?_⟩
      cases hk; simpa using h.2

/-- left-to-right: after returning the head, the tail remains -/
theorem Cursor.remaining_step_l2r (c : Cursor) (t : Tree) (hs : KSorted (content t))
    (hr : c.r2l = false) (kv : Key × Val) (r : List (Key × Val)) (h : c.remaining t = kv :: r) :
    ({ c with last := some kv.1 } : Cursor).remaining t = r := by
  have hsr : KSorted (kv :: r) := h ▸ c.remaining_sorted t hs
  have hk := (c.remaining_sub t kv (h ▸ List.mem_cons_self)).2.2
  unfold Cursor.remaining at h ⊢
  simp only [hr, Bool.false_eq_true, if_false] at h hk ⊢
  cases hl : c.last with
  | none =>
    rw [hl] at h
    simp only at h
    rw [h]; exact filter_gt_head kv r hsr
  | some k =>
    rw [hl] at h
    simp only at h
    rw [filter_gt_narrow _ k kv.1 (hk k hl), h]
    exact filter_gt_head kv r hsr

/-- right-to-left: after returning the last, everything before it remains -/
theorem Cursor.remaining_step_r2l (c : Cursor) (t : Tree) (hs : KSorted (content t))
    (hr : c.r2l = true) (kv : Key × Val) (r : List (Key × Val)) (h : c.remaining t = r ++ [kv]) :
    ({ c with last := some kv.1 } : Cursor).remaining t = r := by
  have hsr : KSorted (r ++ [kv]) := h ▸ c.remaining_sorted t hs
  have hk := (c.remaining_sub t kv (h ▸ by simp)).2.2
  unfold Cursor.remaining at h ⊢
  simp only [hr, if_true] at h hk ⊢
  cases hl : c.last with
  | none =>
    rw [hl] at h
    simp only at h
    rw [h]; exact filter_lt_last kv r hsr
  | some k =>
    rw [hl] at h
    simp only at h
    rw [filter_lt_narrow _ k kv.1 (hk k hl), h]
    exact filter_lt_last kv r hsr

/-! ### `drain` -/

theorem Cursor.drain_remaining (t : Tree) (hs : KSorted (content t)) :
    ∀ (n : Nat) (c : Cursor), (c.remaining t).length ≤ n →
      c.drain t n = (if c.r2l then (c.remaining t).reverse else c.remaining t)
  | 0, c, hn => by
    have : c.remaining t = [] := List.length_eq_zero_iff.1 (Nat.le_zero.1 hn)
    simp [Cursor.drain, this]
  | n + 1, c, hn => by
    unfold Cursor.drain Cursor.next
    cases hr : c.r2l
    · simp only [Bool.false_eq_true, if_false]
      cases hrem : c.remaining t with
      | nil => simp
      | cons kv r =>
        simp only [List.head?_cons]
        have hstep := c.remaining_step_l2r t hs hr kv r hrem
        have ih := Cursor.drain_remaining t hs n { c with last := some kv.1 }
          (by rw [hstep]; rw [hrem] at hn; simpa using hn)
        simp only [hr, Bool.false_eq_true, if_false] at hstep ih
        rw [ih, hstep]
    · simp only [if_true]
      cases hlast : (c.remaining t).getLast? with
      | none =>
        have : c.remaining t = [] := List.getLast?_eq_none_iff.1 hlast
        simp [this]
      | some kv =>
        obtain ⟨r, hrem⟩ := List.getLast?_eq_some_iff.1 hlast
        simp only
        have hstep := c.remaining_step_r2l t hs hr kv r hrem
        have ih := Cursor.drain_remaining t hs n { c with last := some kv.1 }
          (by rw [hstep]; rw [hrem] at hn; simpa using hn)
        simp only [hr, if_true] at hstep ih
        rw [ih, hstep, hrem]; simp

theorem Cursor.drain_enumerates (c : Cursor) (t : Tree) (hfresh : c.last = none)
    (hs : (content t).Pairwise (fun a b => lexLt a.1 b.1 = true)) (n : Nat)
    (hn : ((content t).filter (fun kv => inInterval c.lk c.le c.rk c.re kv.1)).length ≤ n) :
    c.drain t n =
      (if c.r2l then ((content t).filter (fun kv => inInterval c.lk c.le c.rk c.re kv.1)).reverse
       else (content t).filter (fun kv => inInterval c.lk c.le c.rk c.re kv.1)) := by
  have hrem : c.remaining t = (content t).filter (fun kv => inInterval c.lk c.le c.rk c.re kv.1) := by
    unfold Cursor.remaining; rw [hfresh]
  have := Cursor.drain_remaining t hs n c (by rw [hrem]; exact hn)
  rw [this, hrem]

/-! ### pausing -/

private theorem foldl_const_comm {α β} (f : α → α) (l : List β) (a : α) :
    l.foldl (fun c _ => f c) (f a) = f (l.foldl (fun c _ => f c) a) := by
  induction l generalizing a with
  | nil => rfl
  | cons x xs ih => simp only [List.foldl_cons]; exact ih (f a)

theorem foldl_range_succ_const {α} (f : α → α) (i : Nat) (a : α) :
    (List.range (i + 1)).foldl (fun c _ => f c) a = (List.range i).foldl (fun c _ => f c) (f a) := by
  rw [List.range_succ, List.foldl_append, foldl_const_comm]; rfl

/-- the entry `next` selects -/
private def Cursor.sel (c : Cursor) (t : Tree) : Option (Key × Val) :=
  if c.r2l then (c.remaining t).getLast? else (c.remaining t).head?

private theorem Cursor.next_eq (c : Cursor) (t : Tree) :
    c.next t = match c.sel t with
      | some kv => (some kv, { c with last := some kv.1 })
      | none => (none, c) := rfl

private theorem Cursor.next_none (c : Cursor) (t : Tree) (c' : Cursor) (h : c.next t = (none, c')) :
    c' = c := by
  rw [Cursor.next_eq] at h
  cases hs : c.sel t <;> rw [hs] at h <;> simp only [Prod.mk.injEq] at h
  · exact h.2.symm
  · cases h.1

private theorem Cursor.drain_of_next_none (c : Cursor) (t : Tree) (c' : Cursor)
    (h : c.next t = (none, c')) (n : Nat) : c.drain t n = [] := by
  cases n with
  | zero => rfl
  | succ n => unfold Cursor.drain; rw [h]

private theorem Cursor.iter_of_next_none (c : Cursor) (t : Tree) (c' : Cursor)
    (h : c.next t = (none, c')) (i : Nat) :
    (List.range i).foldl (fun c' _ => (c'.next t).2) c = c := by
  induction i with
  | zero => rfl
  | succ i ih =>
    rw [foldl_range_succ_const (fun c' => (Cursor.next c' t).2), h]
    simp only
    rw [Cursor.next_none c t c' h]; exact ih

theorem Cursor.pause_anywhere (c : Cursor) (t : Tree) (_hfresh : c.last = none)
    (_hs : (content t).Pairwise (fun a b => lexLt a.1 b.1 = true)) (i n : Nat) :
    c.drain t (i + n) =
      c.drain t i ++ ((List.range i).foldl (fun c' _ => (c'.next t).2) c).drain t n := by
  clear _hfresh _hs
  induction i generalizing c with
  | zero => simp [Cursor.drain]
  | succ i ih =>
    rw [Nat.add_right_comm, foldl_range_succ_const (fun c' => (Cursor.next c' t).2)]
    cases hnx : c.next t with
    | mk o c' =>
      cases o with
      | none =>
        have hc := Cursor.next_none c t c' hnx
        subst hc
        simp only
        rw [Cursor.iter_of_next_none c' t c' hnx, Cursor.drain_of_next_none c' t c' hnx,
          Cursor.drain_of_next_none c' t c' hnx, Cursor.drain_of_next_none c' t c' hnx]
        rfl
      | some kv =>
        simp only
        conv => lhs; unfold Cursor.drain
        conv => rhs; arg 1; unfold Cursor.drain
        rw [hnx]
        simp only [List.cons_append]
        rw [ih c']

theorem Cursor.next_monotone (c : Cursor) (t : Tree) (kv : Key × Val) (c' : Cursor)
    (h : c.next t = (some kv, c')) :
    inInterval c.lk c.le c.rk c.re kv.1 = true ∧ kv ∈ content t ∧ c'.last = some kv.1 ∧
    (∀ k, c.last = some k → if c.r2l then lexLt kv.1 k = true else lexLt k kv.1 = true) := by
  rw [Cursor.next_eq] at h
  cases hsel : c.sel t <;> rw [hsel] at h <;> simp only [Prod.mk.injEq] at h
  · cases h.1
  · obtain ⟨h1, h2⟩ := h
    cases h1
    subst h2
    have hmem : kv ∈ c.remaining t := by
      unfold Cursor.sel at hsel
      cases hr : c.r2l <;> rw [hr] at hsel <;> simp only [Bool.false_eq_true, if_false, if_true] at hsel
      · exact List.mem_of_head? hsel
      · exact List.mem_of_getLast? hsel
    have := c.remaining_sub t kv hmem
    exact ⟨this.1, this.2.1, rfl, this.2.2⟩

end Yak.Tree
