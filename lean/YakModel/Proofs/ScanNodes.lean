import YakModel.Proofs.ScanSpec
/-!
# Syntactic facts about `scan`: an INF end ignores its key; the node set only grows and is
never empty
-/
namespace Yak.Tree
open Yak

/-! ### a right INF ignores the right key -/

theorem linkArgs_inf (lk : Key) (le : EP) (rk rk' : Key) (ks : List UInt8) (F : Key) :
    linkArgs lk le rk .inf ks F = linkArgs lk le rk' .inf ks F := by
  rw [linkArgs_eq, linkArgs_eq]
  cases linkLeft lk le ks <;> rfl

theorem scanEnts_rk (cfg : Cfg) (t : Tree) (fuel : Nat) (L : Layer) (i : Nat) (lk : Key) (le : EP)
    (rk rk' : Key) (max : Nat) (r2l : Bool) :
    ∀ (ents : List Ent) (acc : Acc) (pushed : Bool),
      scanEnts cfg t fuel L i ents lk le rk .inf max r2l acc pushed =
        scanEnts cfg t fuel L i ents lk le rk' .inf max r2l acc pushed := by
  intro ents
  induction ents with
  | nil => intro acc pushed; rw [scanEnts_nil, scanEnts_nil]
  | cons e es ih =>
    intro acc pushed
    cases hval : e.val with
    | some v =>
      rw [scanEnts_val cfg t fuel L i e es v hval, scanEnts_val cfg t fuel L i e es v hval]
      have : ∀ fk, withinRight rk .inf fk = withinRight rk' .inf fk := fun _ => rfl
      simp only [this, ih]
    | none =>
      rw [scanEnts_link cfg t fuel L i e es hval, scanEnts_link cfg t fuel L i e es hval,
        linkArgs_inf lk le rk rk']
      cases linkArgs lk le rk' .inf e.kt.slice (L.pfx ++ e.kt.slice.take (Nat.min e.kt.len 8)) with
      | skip => exact ih acc pushed
      | stop => rfl
      | go alk ale ark are =>
        cases fuel with
        | zero => rfl
        | succ f => simp only [ih]

theorem scanLeaves_rk (cfg : Cfg) (t : Tree) (fuel : Nat) (L : Layer) (lk : Key) (le : EP)
    (rk rk' : Key) (max : Nat) (r2l : Bool) :
    ∀ (rest : List Leaf) (i : Nat) (acc : Acc),
      scanLeaves cfg t fuel L i rest lk le rk .inf max r2l acc =
        scanLeaves cfg t fuel L i rest lk le rk' .inf max r2l acc := by
  intro rest
  induction rest with
  | nil => intro i acc; rw [scanLeaves_nil, scanLeaves_nil]
  | cons leaf more ih =>
    intro i acc
    rw [scanLeaves_cons, scanLeaves_cons, scanEnts_rk cfg t fuel L i lk le rk rk']
    simp only [ih]

theorem scanLayer_rk (cfg : Cfg) (t : Tree) (fuel : Nat) (p : List UInt8) (lk : Key) (le : EP)
    (rk rk' : Key) (max : Nat) (r2l : Bool) (acc : Acc) :
    scanLayer cfg t fuel p lk le rk .inf max r2l acc = scanLayer cfg t fuel p lk le rk' .inf max r2l acc := by
  cases hL : findLayer t p with
  | none => rw [scanLayer_none hL, scanLayer_none hL]
  | some L => rw [scanLayer_some hL, scanLayer_some hL, scanLeaves_rk]

theorem scan_inf_ignores_key (t : Tree) (lk lk' rk rk' : Key) (le re : EP) (max : Nat) (r2l : Bool) (_h : Inv t) :
    (le = .inf → (scan cfgFixed t lk le rk re max r2l).tuples = (scan cfgFixed t lk' le rk re max r2l).tuples) ∧
    (re = .inf → (scan cfgFixed t lk le rk re max r2l).tuples = (scan cfgFixed t lk le rk' re max r2l).tuples) := by
  constructor
  · intro e; subst e
    have ha : scanArgsOk lk .inf rk re max r2l = scanArgsOk lk' .inf rk re max r2l := by
      unfold scanArgsOk checkEmptyRange; rfl
    unfold scan
    rw [ha]
    have e1 : (cfgFixed.fixD5 && EP.inf == EP.inf) = true := rfl
    simp only [e1, if_true]
  · intro e; subst e
    have ha : scanArgsOk lk le rk .inf max r2l = scanArgsOk lk le rk' .inf max r2l := by
      unfold scanArgsOk checkEmptyRange; rfl
    unfold scan
    rw [ha]
    simp only [scanLayer_rk cfgFixed t _ _ _ le rk rk']

/-! ### the node set only grows -/

theorem recFix_nodes (cfg : Cfg) (L : Layer) (i : Nat) (pushed : Bool) (a : Acc) :
    ∃ x, (recFix cfg L i pushed a).nodes = a.nodes ++ x := by
  unfold recFix
  split
  · exact ⟨_, rfl⟩
  · exact ⟨[], by simp⟩

def SubMono (cfg : Cfg) (t : Tree) (fuel : Nat) (max : Nat) (r2l : Bool) : Prop :=
  ∀ f, fuel = f + 1 → ∀ (q : List UInt8) (lk : Key) (le : EP) (rk : Key) (re : EP) (acc : Acc),
    ∃ x, (scanLayer cfg t f q lk le rk re max r2l acc).1.nodes = acc.nodes ++ x

theorem scanEnts_mono {cfg : Cfg} {t : Tree} {fuel : Nat} {max : Nat} {r2l : Bool}
    (IH : SubMono cfg t fuel max r2l) (L : Layer) (i : Nat) (lk : Key) (le : EP) (rk : Key) (re : EP) :
    ∀ (ents : List Ent) (acc : Acc) (pushed : Bool),
      ∃ x, (scanEnts cfg t fuel L i ents lk le rk re max r2l acc pushed).1.nodes = acc.nodes ++ x := by
  intro ents
  induction ents with
  | nil => intro acc pushed; rw [scanEnts_nil]; exact ⟨[], by simp⟩
  | cons e es ih =>
    intro acc pushed
    cases hval : e.val with
    | some v =>
      rw [scanEnts_val cfg t fuel L i e es v hval]
      split
      · exact ih acc pushed
      · split
        · split
          · exact ⟨_, rfl⟩
          · obtain ⟨x, hx⟩ := ih ⟨acc.tuples ++ [(L.pfx ++ e.kt.slice.take (Nat.min e.kt.len 8), v)],
              acc.nodes ++ [mkRef L i]⟩ true
            exact ⟨[mkRef L i] ++ x, by rw [hx]; simp⟩
        · split
          · exact ⟨[], by simp⟩
          · exact ⟨_, rfl⟩
    | none =>
      rw [scanEnts_link cfg t fuel L i e es hval]
      cases linkArgs lk le rk re e.kt.slice (L.pfx ++ e.kt.slice.take (Nat.min e.kt.len 8)) with
      | skip => exact ih acc pushed
      | stop => exact recFix_nodes cfg L i pushed acc
      | go alk ale ark are =>
        cases fuel with
        | zero => exact ⟨[], by simp⟩
        | succ f =>
          obtain ⟨y, hy⟩ := IH f rfl (L.pfx ++ e.kt.slice.take (Nat.min e.kt.len 8)) alk ale ark are acc
          simp only
          split
          · obtain ⟨x, hx⟩ := recFix_nodes cfg L i pushed
              (scanLayer cfg t f (L.pfx ++ e.kt.slice.take (Nat.min e.kt.len 8)) alk ale ark are max r2l acc).1
            exact ⟨y ++ x, by rw [hx, hy]; simp⟩
          · obtain ⟨x, hx⟩ := ih
              (scanLayer cfg t f (L.pfx ++ e.kt.slice.take (Nat.min e.kt.len 8)) alk ale ark are max r2l acc).1 pushed
            exact ⟨y ++ x, by rw [hx, hy]; simp⟩

theorem scanLeaves_mono {cfg : Cfg} {t : Tree} {fuel : Nat} {max : Nat} {r2l : Bool}
    (IH : SubMono cfg t fuel max r2l) (L : Layer) (lk : Key) (le : EP) (rk : Key) (re : EP) :
    ∀ (rest : List Leaf) (i : Nat) (acc : Acc),
      ∃ x, (scanLeaves cfg t fuel L i rest lk le rk re max r2l acc).1.nodes = acc.nodes ++ x := by
  intro rest
  induction rest with
  | nil => intro i acc; rw [scanLeaves_nil]; exact ⟨[], by simp⟩
  | cons leaf more ih =>
    intro i acc
    rw [scanLeaves_cons]
    obtain ⟨y, hy⟩ := scanEnts_mono IH L i lk le rk re (if r2l then leaf.ents.reverse else leaf.ents) acc false
    rcases hres : scanEnts cfg t fuel L i (if r2l then leaf.ents.reverse else leaf.ents) lk le rk re max r2l acc false
      with ⟨acc1, pushed, flow⟩
    rw [hres] at hy
    simp only at hy
    have h2 : ∃ z, (if pushed = true then acc1 else { acc1 with nodes := acc1.nodes ++ [mkRef L i] }).nodes =
        acc.nodes ++ z := by
      split
      · exact ⟨y, hy⟩
      · exact ⟨y ++ [mkRef L i], by simp [hy]⟩
    cases flow with
    | stop => exact ⟨y, hy⟩
    | cont =>
      simp only
      split
      · exact h2
      · obtain ⟨z, hz⟩ := h2
        obtain ⟨x, hx⟩ := ih (i + 1) (if pushed = true then acc1 else { acc1 with nodes := acc1.nodes ++ [mkRef L i] })
        exact ⟨z ++ x, by rw [hx, hz]; simp⟩

theorem scanLayer_mono (cfg : Cfg) (t : Tree) (max : Nat) (r2l : Bool) :
    ∀ (fuel : Nat) (q : List UInt8) (lk : Key) (le : EP) (rk : Key) (re : EP) (acc : Acc),
      ∃ x, (scanLayer cfg t fuel q lk le rk re max r2l acc).1.nodes = acc.nodes ++ x := by
  intro fuel
  induction fuel with
  | zero =>
    intro q lk le rk re acc
    cases hL : findLayer t q with
    | none => rw [scanLayer_none hL]; exact ⟨[], by simp⟩
    | some L =>
      rw [scanLayer_some hL]
      exact scanLeaves_mono (fun f h => absurd h (by omega)) L lk le rk re _ _ acc
  | succ n ih =>
    intro q lk le rk re acc
    cases hL : findLayer t q with
    | none => rw [scanLayer_none hL]; exact ⟨[], by simp⟩
    | some L =>
      rw [scanLayer_some hL]
      refine scanLeaves_mono ?_ L lk le rk re _ _ acc
      intro f hf
      have : f = n := by omega
      subst this
      exact ih

theorem subMono (cfg : Cfg) (t : Tree) (fuel : Nat) (max : Nat) (r2l : Bool) : SubMono cfg t fuel max r2l :=
  fun f _ => scanLayer_mono cfg t max r2l f

theorem ne_nil_of_append {α : Type} {a b x : List α} (h : b = a ++ x) (ha : a ≠ []) : b ≠ [] := by
  intro e; rw [e] at h
  exact ha (List.append_eq_nil_iff.mp h.symm).1

/-! ### the node set of the repaired scan is never empty -/

theorem recFix_fixed_ne {L : Layer} {i : Nat} {pushed : Bool} {a : Acc} (h : pushed = true → a.nodes ≠ []) :
    (recFix cfgFixed L i pushed a).nodes ≠ [] := by
  unfold recFix
  cases pushed with
  | true => simpa [cfgFixed] using h rfl
  | false => simp [cfgFixed]

theorem scanEnts_nonempty {t : Tree} {fuel : Nat} {p : List UInt8} {L : Layer} (c : LCtx t fuel p L)
    (max : Nat) (r2l : Bool) (i : Nat) (lk : Key) (le : EP) (rk : Key) (re : EP) :
    ∀ (ents : List Ent) (acc : Acc) (pushed : Bool), (∀ e ∈ ents, e ∈ layerEnts L.leaves) →
      (pushed = true → acc.nodes ≠ []) →
      ((scanEnts cfgFixed t fuel L i ents lk le rk re max r2l acc pushed).2.2 = .stop →
        (scanEnts cfgFixed t fuel L i ents lk le rk re max r2l acc pushed).1.nodes ≠ []) ∧
      ((scanEnts cfgFixed t fuel L i ents lk le rk re max r2l acc pushed).2.1 = true →
        (scanEnts cfgFixed t fuel L i ents lk le rk re max r2l acc pushed).1.nodes ≠ []) := by
  intro ents
  induction ents with
  | nil =>
    intro acc pushed _ hp
    rw [scanEnts_nil]
    exact ⟨fun h => (by cases h), hp⟩
  | cons e es ih =>
    intro acc pushed hsub hp
    have he : e ∈ layerEnts L.leaves := hsub e (by simp)
    have hsub' : ∀ x ∈ es, x ∈ layerEnts L.leaves := fun x hx => hsub x (by simp [hx])
    cases hval : e.val with
    | some v =>
      rw [scanEnts_val cfgFixed t fuel L i e es v hval]
      split
      · exact ih acc pushed hsub' hp
      · split
        · split
          · exact ⟨fun _ => by simp, fun _ => by simp⟩
          · exact ih _ true hsub' (fun _ => by simp)
        · refine ⟨fun _ => ?_, fun h => ?_⟩
          · cases pushed with
            | true => simpa using hp rfl
            | false => simp
          · simp only at h
            subst h
            simpa using hp rfl
    | none =>
      rw [scanEnts_link cfgFixed t fuel L i e es hval]
      cases linkArgs lk le rk re e.kt.slice (L.pfx ++ e.kt.slice.take (Nat.min e.kt.len 8)) with
      | skip => exact ih acc pushed hsub' hp
      | stop =>
        simp only
        exact ⟨fun _ => recFix_fixed_ne hp, fun h => by subst h; exact recFix_fixed_ne hp⟩
      | go alk ale ark are =>
        obtain ⟨hw, hv9⟩ := layerEnts_wf c.core he
        have h9 := hv9.mp hval
        have hdown : (lay t (p ++ e.kt.slice)).isSome := c.hF.down _ _ c.lay e he h9
        cases fuel with
        | zero =>
          exfalso
          have h1 := depth_bound c.hF hdown
          have h2 := c.hA
          simp only [List.length_append, hw.1] at h1
          omega
        | succ f =>
          simp only
          obtain ⟨y, hy⟩ := scanLayer_mono cfgFixed t max r2l f
            (L.pfx ++ e.kt.slice.take (Nat.min e.kt.len 8)) alk ale ark are acc
          have hp' : pushed = true →
              (scanLayer cfgFixed t f (L.pfx ++ e.kt.slice.take (Nat.min e.kt.len 8)) alk ale ark are max r2l acc).1.nodes ≠ [] :=
            fun h => ne_nil_of_append hy (hp h)
          split
          · exact ⟨fun _ => recFix_fixed_ne hp', fun h => by subst h; exact recFix_fixed_ne hp'⟩
          · exact ih _ pushed hsub' hp'

theorem scanLeaves_nonempty {t : Tree} {fuel : Nat} {p : List UInt8} {L : Layer} (c : LCtx t fuel p L)
    (max : Nat) (r2l : Bool) (lk : Key) (le : EP) (rk : Key) (re : EP) :
    ∀ (rest : List Leaf) (i : Nat) (acc : Acc), rest ≠ [] → (∀ l ∈ rest, l ∈ L.leaves) →
      (scanLeaves cfgFixed t fuel L i rest lk le rk re max r2l acc).1.nodes ≠ [] := by
  intro rest i acc hne hsub
  cases rest with
  | nil => exact absurd rfl hne
  | cons leaf more =>
    rw [scanLeaves_cons]
    have hents : ∀ e ∈ (if r2l then leaf.ents.reverse else leaf.ents), e ∈ layerEnts L.leaves := by
      intro e he
      have : e ∈ leaf.ents := by
        cases r2l with
        | true => simpa using he
        | false => simpa using he
      exact mem_layerEnts.mpr ⟨leaf, hsub leaf (by simp), this⟩
    have hE := scanEnts_nonempty c max r2l i lk le rk re _ acc false hents (fun h => by cases h)
    rcases hres : scanEnts cfgFixed t fuel L i (if r2l then leaf.ents.reverse else leaf.ents) lk le rk re max r2l acc false
      with ⟨acc1, pushed, flow⟩
    rw [hres] at hE
    cases flow with
    | stop => exact hE.1 rfl
    | cont =>
      simp only
      have h2 : (if pushed = true then acc1 else { acc1 with nodes := acc1.nodes ++ [mkRef L i] }).nodes ≠ [] := by
        cases pushed with
        | true => simpa using hE.2 rfl
        | false => simp
      split
      · exact h2
      · obtain ⟨x, hx⟩ := scanLeaves_mono (subMono cfgFixed t fuel max r2l) L lk le rk re more (i + 1)
          (if pushed = true then acc1 else { acc1 with nodes := acc1.nodes ++ [mkRef L i] })
        exact ne_nil_of_append hx h2

theorem routeFrom_le (k : KT) : ∀ (ls : List Leaf), routeFrom k ls ≤ ls.length
  | [] => Nat.le_refl _
  | l :: ls => by
    have := routeFrom_le k ls
    unfold routeFrom
    split
    · simp only [List.length_cons]; omega
    · split
      · omega
      · simp only [List.length_cons]; omega

theorem route_lt {leaves : List Leaf} (h : leaves ≠ []) (k : KT) : route k leaves < leaves.length := by
  cases leaves with
  | nil => exact absurd rfl h
  | cons l ls =>
    have := routeFrom_le k ls
    simp only [route, List.length_cons]; omega

theorem scan_nodes_nonempty (t : Tree) (lk : Key) (le : EP) (rk : Key) (re : EP) (max : Nat) (r2l : Bool)
    (h : Inv t) (ha : scanArgsOk lk le rk re max r2l = true) :
    (scan cfgFixed t lk le rk re max r2l).nodes ≠ [] := by
  obtain ⟨_, hF, _⟩ := (inv_iff t).mp h
  cases hL : findLayer t [] with
  | none => have := hF.root; rw [lay_isSome, hL] at this; cases this
  | some L =>
    rw [scan_unfold hL lk le rk re max r2l ha]
    generalize (if (le == EP.inf) = true then [] else lk) = lk0
    split
    · simp
    · simp only
      have c : LCtx t (t.length + 1) [] L := ⟨hF, hL, by simp⟩
      rw [scanLayer_some hL]
      have hne : L.leaves ≠ [] := by
        intro e
        have := c.core.1
        rw [e] at this; cases this
      apply scanLeaves_nonempty c
      · intro e
        have := congrArg List.length e
        have hlt := route_lt hne (descentKT lk0 r2l)
        simp only [List.length_drop, List.length_nil] at this
        omega
      · intro l hl
        exact List.mem_of_mem_drop hl

end Yak.Tree
