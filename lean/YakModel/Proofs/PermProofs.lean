import YakModel.Perm
/-!
# Proofs about the permutation word (`YakModel/Perm.lean`)

Route: a nibble view `nib w i` of the 64-bit word with general lemmas for `|||`, the count mask,
shifts by whole nibbles and small constants (all proved through `getLsbD` + `omega`), then a
nibble-by-nibble characterisation of `insertRank` / `deleteRank` on the nibbles `0 .. cnk`, and
finally the list-level statements consumed by `YakProps/C19.lean`.
-/
namespace Yak.Perm
open Yak.Const

def nib (w : BitVec 64) (i : Nat) : Nat := ((w >>> (4*i)) &&& 15#64).toNat

theorem getLsbD_15 (j : Nat) : (15#64).getLsbD j = decide (j < 4) := by
  rw [BitVec.getLsbD_ofNat, show (15:Nat) = 2^4 - 1 from rfl, Nat.testBit_two_pow_sub_one]
  by_cases h : j < 4 <;> simp [h] ; omega

theorem nib_testBit (w : BitVec 64) (i j : Nat) :
    (nib w i).testBit j = (decide (j < 4) && w.getLsbD (4*i+j)) := by
  unfold nib
  rw [← BitVec.getLsbD, BitVec.getLsbD_and, BitVec.getLsbD_ushiftRight, getLsbD_15, Bool.and_comm]

theorem nib_lt (w : BitVec 64) (i : Nat) : nib w i < 16 := by
  apply Nat.lt_pow_two_of_testBit (n := 4)
  intro j hj
  rw [nib_testBit]; simp; omega

theorem nib_eq_of_bits {a b : BitVec 64} {i k : Nat}
    (h : ∀ j, j < 4 → a.getLsbD (4*i+j) = b.getLsbD (4*k+j)) : nib a i = nib b k := by
  apply Nat.eq_of_testBit_eq
  intro j
  rw [nib_testBit, nib_testBit]
  by_cases hj : j < 4
  · simp [hj, h j hj]
  · simp [hj]

theorem nib_eq_zero_of_bits {a : BitVec 64} {i : Nat}
    (h : ∀ j, j < 4 → a.getLsbD (4*i+j) = false) : nib a i = 0 := by
  apply Nat.eq_of_testBit_eq
  intro j
  rw [nib_testBit]
  by_cases hj : j < 4
  · simp [h j hj]
  · simp [hj]

theorem nib_ge16 (w : BitVec 64) {i : Nat} (h : 16 ≤ i) : nib w i = 0 :=
  nib_eq_zero_of_bits fun j _ => BitVec.getLsbD_of_ge _ _ (by omega)

theorem nib_or (x y : BitVec 64) (i : Nat) : nib (x ||| y) i = nib x i ||| nib y i := by
  apply Nat.eq_of_testBit_eq
  intro j
  simp only [Nat.testBit_or, nib_testBit, BitVec.getLsbD_or, Bool.and_or_distrib_left]

theorem nib_and_not15 (x : BitVec 64) (i : Nat) :
    nib (x &&& ~~~(15#64)) i = if i = 0 then 0 else nib x i := by
  split
  · next h =>
    subst h
    apply nib_eq_zero_of_bits
    intro j hj
    rw [BitVec.getLsbD_and, BitVec.getLsbD_not, getLsbD_15]
    simp [hj]
  · next h =>
    apply nib_eq_of_bits
    intro j hj
    have : ¬ (4 * i + j < 4) := by omega
    by_cases h64 : 4 * i + j < 64
    · rw [BitVec.getLsbD_and, BitVec.getLsbD_not, getLsbD_15]
      simp [this, h64]
    · rw [BitVec.getLsbD_of_ge _ _ (by omega), BitVec.getLsbD_of_ge _ _ (by omega)]

theorem nib_ushiftRight (x : BitVec 64) (k i : Nat) : nib (x >>> (4*k)) i = nib x (i+k) := by
  apply nib_eq_of_bits
  intro j _
  rw [BitVec.getLsbD_ushiftRight]
  congr 1; omega

theorem nib_shiftLeft (x : BitVec 64) (k i : Nat) (hi : i < 16) :
    nib (x <<< (4*k)) i = if i < k then 0 else nib x (i-k) := by
  split
  · next h =>
    apply nib_eq_zero_of_bits
    intro j hj
    rw [BitVec.getLsbD_shiftLeft]
    have : 4 * i + j < 4 * k := by omega
    simp [this]
  · next h =>
    apply nib_eq_of_bits
    intro j hj
    rw [BitVec.getLsbD_shiftLeft]
    have h1 : ¬ (4 * i + j < 4 * k) := by omega
    have h2 : 4 * i + j < 64 := by omega
    have h3 : 4 * i + j - 4 * k = 4 * (i - k) + j := by omega
    simp [h1, h2, h3]

theorem testBit_small {p m : Nat} (hp : p < 16) (hm : 4 ≤ m) : p.testBit m = false := by
  apply Nat.testBit_lt_two_pow
  have : 2 ^ 4 ≤ 2 ^ m := Nat.pow_le_pow_right (by omega) hm
  omega

theorem nib_ofNat (p i : Nat) (hp : p < 16) :
    nib (BitVec.ofNat 64 p) i = if i = 0 then p else 0 := by
  split
  · next h =>
    subst h
    apply Nat.eq_of_testBit_eq
    intro j
    rw [nib_testBit, BitVec.getLsbD_ofNat]
    by_cases hj : j < 4
    · have : j < 64 := by omega
      simp [hj, this]
    · have := testBit_small hp (show 4 ≤ j by omega)
      simp [hj, this]
  · next h =>
    apply nib_eq_zero_of_bits
    intro j hj
    rw [BitVec.getLsbD_ofNat]
    have : p.testBit (4*i+j) = false := testBit_small hp (by omega)
    simp [this]

theorem nib_zero (i : Nat) : nib 0#64 i = 0 :=
  nib_eq_zero_of_bits fun j _ => by simp

theorem ext_nib {a b : BitVec 64} (h : ∀ i, i < 16 → nib a i = nib b i) : a = b := by
  apply BitVec.eq_of_getLsbD_eq
  intro m hm
  have := congrArg (fun n => n.testBit (m % 4)) (h (m / 4) (by omega))
  simp only [nib_testBit] at this
  have h4 : m % 4 < 4 := Nat.mod_lt _ (by omega)
  have hh : 4 * (m / 4) + m % 4 = m := by omega
  simpa [h4, hh] using this


/-! ### the model's accessors as nibbles -/

theorem cnk_eq_nib (w : W) : cnk w = nib w 0 := by
  unfold cnk cnkW nib; simp

theorem cnk_lt (w : W) : cnk w < 16 := by rw [cnk_eq_nib]; exact nib_lt _ _

theorem indexOfRank_eq_nib (w : W) (r : Nat) : indexOfRank w r = nib w (r+1) := by
  unfold indexOfRank
  simp only []
  by_cases h : r = 0
  · subst h
    simp only [bne_self_eq_false, Bool.false_eq_true, if_false]
    rfl
  · have h' : (r != 0) = true := by simpa using h
    simp only [h', if_true]
    unfold nib
    rw [← BitVec.shiftRight_add, show 4 + 4 * r = 4 * (r + 1) by omega]

theorem toList_eq (w : W) : toList w = (List.range (cnk w)).map (fun r => nib w (r+1)) := by
  unfold toList
  exact List.map_congr_left (fun r _ => indexOfRank_eq_nib w r)

theorem cnkW_eq (w : W) : cnkW w = BitVec.ofNat 64 (cnk w) := by
  apply BitVec.eq_of_toNat_eq
  simp [cnk]

theorem cnkW_add_one (w : W) : cnkW w + 1#64 = BitVec.ofNat 64 (cnk w + 1) := by
  apply BitVec.eq_of_toNat_eq
  simp [BitVec.toNat_add, cnk]

theorem cnkW_sub_one (w : W) (h : 0 < cnk w) : cnkW w - 1#64 = BitVec.ofNat 64 (cnk w - 1) := by
  apply BitVec.eq_of_toNat_eq
  have := cnk_lt w
  simp [BitVec.toNat_sub, cnk] at *
  omega

theorem ofNat_beq (a b : Nat) (ha : a < 16) (hb : b < 16) :
    (BitVec.ofNat 64 a == BitVec.ofNat 64 b) = decide (a = b) := by
  by_cases h : a = b
  · simp [h]
  · simp only [h, decide_false]
    rw [beq_eq_false_iff_ne]
    intro e
    have := congrArg BitVec.toNat e
    simp at this
    omega

theorem nib_right (w : W) (rank i : Nat) (hr : rank ≤ 15) (hi : i < 16) (hi0 : i ≠ 0) :
    nib (if rank == 0 then 0#64
         else (w <<< (4 * (keySliceLength - rank))) >>> (4 * (keySliceLength - rank))) i
      = if i ≤ rank then nib w i else 0 := by
  have hk : keySliceLength = 15 := rfl
  rw [hk]
  by_cases h0 : rank = 0
  · subst h0
    have : ¬ i ≤ 0 := by omega
    simp [nib_zero, this]
  · have h' : (rank == 0) = false := by simpa using h0
    simp only [h', Bool.false_eq_true, if_false]
    rw [nib_ushiftRight]
    by_cases hle : i ≤ rank
    · rw [nib_shiftLeft _ _ _ (by omega)]
      have h1 : ¬ (i + (15 - rank) < 15 - rank) := by omega
      have h2 : i + (15 - rank) - (15 - rank) = i := by omega
      simp [h1, h2, hle]
    · rw [nib_ge16 _ (by omega)]
      simp [hle]

theorem nib_left_zero (c : Prop) [Decidable c] (x : W) (k i : Nat) (hi : i < k) (hi16 : i < 16) :
    nib (if c then 0#64 else x <<< (4 * k)) i = 0 := by
  split
  · exact nib_zero _
  · rw [nib_shiftLeft _ _ _ hi16]
    simp [hi]

theorem nib_insertRank (w : W) (rank pos i : Nat) (hn : cnk w < 15) (hr : rank ≤ cnk w)
    (hp : pos < 16) (hi : i ≤ cnk w + 1) :
    nib (insertRank w rank pos) i =
      if i = 0 then cnk w + 1 else if i ≤ rank then nib w i
      else if i = rank + 1 then pos else nib w (i - 1) := by
  unfold insertRank
  simp only []
  rw [BitVec.add_sub_cancel, cnkW_add_one, cnkW_eq w, ofNat_beq _ _ (by omega) (by omega)]
  rw [nib_or, nib_and_not15, nib_ofNat _ _ (by omega)]
  by_cases hi0 : i = 0
  · simp [hi0]
  simp only [hi0, if_false, Nat.or_zero]
  rw [nib_or, nib_or, nib_right w rank i (by omega) (by omega) hi0,
    nib_shiftLeft _ _ _ (by omega), nib_ofNat _ _ hp]
  by_cases h1 : i ≤ rank
  · have h2 : i < rank + 1 := by omega
    have h3 := nib_left_zero (rank = cnk w) (w >>> (4 * (rank + 1))) (rank + 2) i (by omega) (by omega)
    simp [h1, h2, h3]
  · by_cases h2 : i = rank + 1
    · have h3 := nib_left_zero (rank = cnk w) (w >>> (4 * (rank + 1))) (rank + 2) i (by omega) (by omega)
      subst h2
      simp [h3, h1]
    · have hne : rank ≠ cnk w := by omega
      have h3 : ¬ i < rank + 1 := by omega
      have h4 : ¬ i - (rank + 1) = 0 := by omega
      have h5 : ¬ i < rank + 2 := by omega
      have h6 : i - (rank + 2) + (rank + 1) = i - 1 := by omega
      simp only [hne, decide_false, Bool.false_eq_true, if_false, h1, h2, h3, h4]
      rw [nib_shiftLeft _ _ _ (by omega), nib_ushiftRight]
      simp [h5, h6]


theorem nib_deleteRank (w : W) (rank i : Nat) (hr : rank < cnk w) (hi : i ≤ cnk w - 1) :
    nib (deleteRank w rank) i =
      if i = 0 then cnk w - 1 else if i ≤ rank then nib w i else nib w (i + 1) := by
  have hc := cnk_lt w
  have hk : keySliceLength = 15 := rfl
  unfold deleteRank
  simp only []
  rw [cnkW_sub_one w (by omega), ofNat_beq _ _ (by omega) (by omega)]
  rw [nib_or, nib_and_not15, nib_ofNat _ _ (by omega)]
  by_cases hi0 : i = 0
  · simp [hi0]
  simp only [hi0, if_false, Nat.or_zero]
  rw [nib_or, nib_right w rank i (by omega) (by omega) hi0]
  by_cases h1 : i ≤ rank
  · have h3 := nib_left_zero ((decide (rank = cnk w - 1) || rank == keySliceLength - 1) = true)
      (w >>> (4 * (rank + 2))) (rank + 1) i (by omega) (by omega)
    rw [h3]
    simp [h1]
  · have hne : rank ≠ cnk w - 1 := by omega
    have hne2 : rank ≠ 14 := by omega
    have hcond : (decide (rank = cnk w - 1) || rank == keySliceLength - 1) = false := by
      simp [hne, hne2, hk]
    have h5 : ¬ i < rank + 1 := by omega
    have h6 : i - (rank + 1) + (rank + 2) = i + 1 := by omega
    simp only [hcond, Bool.false_eq_true, if_false, h1, Nat.or_zero]
    rw [nib_shiftLeft _ _ _ (by omega), nib_ushiftRight]
    simp [h5, h6]

/-! ### list-level specifications -/

theorem length_toList (w : W) : (toList w).length = cnk w := by simp [toList]

theorem getElem_toList (w : W) (n : Nat) (h : n < (toList w).length) :
    (toList w)[n] = nib w (n + 1) := by
  simp [toList_eq]

theorem insertRank_spec (w : W) (rank pos : Nat) (hv : Valid w) (hn : cnk w < 15)
    (hr : rank ≤ cnk w) (hp : pos < 15) (hfresh : pos ∉ toList w) :
    toList (insertRank w rank pos) = (toList w).insertIdx rank pos ∧
    cnk (insertRank w rank pos) = cnk w + 1 ∧ Valid (insertRank w rank pos) := by
  have hc : cnk (insertRank w rank pos) = cnk w + 1 := by
    rw [cnk_eq_nib, nib_insertRank w rank pos 0 hn hr (by omega) (by omega)]; simp
  have hlen := length_toList w
  have hl : toList (insertRank w rank pos) = (toList w).insertIdx rank pos := by
    apply List.ext_getElem
    · rw [List.length_insertIdx_of_le_length (by omega), length_toList, hc, hlen]
    · intro n h1 h2
      rw [getElem_toList]
      rw [length_toList, hc] at h1
      rw [nib_insertRank w rank pos (n + 1) hn hr (by omega) (by omega)]
      by_cases hlt : n < rank
      · rw [List.getElem_insertIdx_of_lt hlt, getElem_toList]
        simp [show n + 1 ≤ rank by omega]
      · by_cases heq : n = rank
        · subst heq
          rw [List.getElem_insertIdx_self]
          simp [show ¬ n + 1 ≤ n by omega]
        · rw [List.getElem_insertIdx_of_gt (by omega), getElem_toList]
          have : n - 1 + 1 = n := by omega
          simp [show ¬ n + 1 ≤ rank by omega, heq, this]
  refine ⟨hl, hc, ?_, ?_, ?_⟩
  · omega
  · rw [hl, (List.perm_insertIdx pos (toList w) (by omega)).nodup_iff, List.nodup_cons]
    exact ⟨hfresh, hv.2.1⟩
  · intro s hs
    rw [hl, List.mem_insertIdx (by omega)] at hs
    rcases hs with rfl | hs
    · exact hp
    · exact hv.2.2 s hs

theorem deleteRank_spec (w : W) (rank : Nat) (hv : Valid w) (hr : rank < cnk w) :
    toList (deleteRank w rank) = (toList w).eraseIdx rank ∧
    cnk (deleteRank w rank) = cnk w - 1 ∧ Valid (deleteRank w rank) := by
  have hc : cnk (deleteRank w rank) = cnk w - 1 := by
    rw [cnk_eq_nib, nib_deleteRank w rank 0 hr (by omega)]; simp
  have hlen := length_toList w
  have hl : toList (deleteRank w rank) = (toList w).eraseIdx rank := by
    apply List.ext_getElem
    · rw [List.length_eraseIdx_of_lt (by omega), length_toList, hc, hlen]
    · intro n h1 h2
      rw [getElem_toList]
      rw [length_toList, hc] at h1
      rw [nib_deleteRank w rank (n + 1) hr (by omega)]
      by_cases hlt : n < rank
      · rw [List.getElem_eraseIdx_of_lt _ hlt, getElem_toList]
        simp [show n + 1 ≤ rank by omega]
      · rw [List.getElem_eraseIdx_of_ge _ (by omega), getElem_toList]
        simp [show ¬ n + 1 ≤ rank by omega]
  refine ⟨hl, hc, ?_, ?_, ?_⟩
  · have := hv.1; omega
  · rw [hl]; exact hv.2.1.sublist (List.eraseIdx_sublist _ _)
  · intro s hs
    rw [hl] at hs
    exact hv.2.2 s (List.mem_of_mem_eraseIdx hs)

theorem emptySlot_of_empty (w : W) (h : cnk w = 0) : getEmptySlot w = 0 := by
  simp [getEmptySlot, h]

theorem emptySlot_fresh (w : W) (_hv : Valid w) (hn : cnk w < 15) :
    getEmptySlot w < 15 ∧ getEmptySlot w ∉ toList w := by
  unfold getEmptySlot
  by_cases h0 : cnk w = 0
  · simp [h0, toList]
  · have h' : (cnk w == 0) = false := by simpa using h0
    simp only [h', Bool.false_eq_true, if_false]
    have hu : usedSlots w = toList w := rfl
    rw [hu]
    cases hf : (List.range 15).find? (fun i => !(toList w).contains i) with
    | some i =>
      have h1 := List.find?_some hf
      have h2 := List.mem_of_find?_eq_some hf
      simp at h1 h2
      exact ⟨h2, h1⟩
    | none =>
      exfalso
      rw [List.find?_eq_none] at hf
      have hsub : List.range 15 ⊆ toList w := by
        intro x hx
        have := hf x hx
        simpa using this
      have := List.Nodup.length_le_of_subset List.nodup_range hsub
      rw [length_toList] at this
      simp at this
      omega

theorem splitDest_identity (n : Nat) (hn : n ≤ 15) :
    toList (splitDest n) = List.range n ∧ Valid (splitDest n) := by
  have key : ∀ m : Fin 16, toList (splitDest m.val) = List.range m.val ∧ Valid (splitDest m.val) := by
    decide
  exact key ⟨n, by omega⟩

theorem indexOfRank_eq (w : W) (r : Nat) (hr : r < cnk w) :
    (toList w)[r]? = some (indexOfRank w r) := by
  simp [toList, hr]

/-! ### `ofList` -/

def bodyOf (l : List Nat) : W := l.foldr (fun s (b : W) => (b ||| BitVec.ofNat 64 s) <<< 4) 0#64

theorem nib_bodyOf (l : List Nat) (hs : ∀ s ∈ l, s < 16) (i : Nat) (hi : i < 16) :
    nib (bodyOf l) i = if i = 0 then 0 else l[i - 1]?.getD 0 := by
  induction l generalizing i with
  | nil => simp [bodyOf, nib_zero]
  | cons s t ih =>
    have hs' : ∀ x ∈ t, x < 16 := fun x hx => hs x (List.mem_cons_of_mem _ hx)
    have hs0 : s < 16 := hs s List.mem_cons_self
    show nib ((bodyOf t ||| BitVec.ofNat 64 s) <<< (4 * 1)) i = _
    rw [nib_shiftLeft _ _ _ hi]
    by_cases hi0 : i = 0
    · simp [hi0]
    · have : ¬ i < 1 := by omega
      simp only [this, hi0, if_false]
      rw [nib_or, nib_ofNat _ _ hs0, ih hs' (i - 1) (by omega)]
      by_cases hi1 : i = 1
      · subst hi1; simp
      · have h2 : ¬ i - 1 = 0 := by omega
        have h3 : i - 1 = (i - 1 - 1) + 1 := by omega
        simp only [h2, if_false, Nat.or_zero]
        rw [h3, List.getElem?_cons_succ]
        simp

theorem ofList_toList (l : List Nat) (hl : l.length ≤ 15) (hs : ∀ s ∈ l, s < 15) :
    toList (ofList l) = l := by
  have hs16 : ∀ s ∈ l, s < 16 := fun s h => Nat.lt_of_lt_of_le (hs s h) (by omega)
  have hof : ofList l = bodyOf l ||| BitVec.ofNat 64 l.length := by
    unfold ofList bodyOf
    rw [List.foldl_reverse]
  have hnib : ∀ i, i < 16 → nib (ofList l) i = if i = 0 then l.length else l[i - 1]?.getD 0 := by
    intro i hi
    rw [hof, nib_or, nib_bodyOf l hs16 i hi, nib_ofNat _ _ (by omega)]
    by_cases hi0 : i = 0 <;> simp [hi0]
  have hc : cnk (ofList l) = l.length := by
    rw [cnk_eq_nib, hnib 0 (by omega)]; simp
  apply List.ext_getElem
  · rw [length_toList, hc]
  · intro n h1 h2
    rw [getElem_toList, hnib (n + 1) (by omega)]
    simp [h2]

end Yak.Perm
