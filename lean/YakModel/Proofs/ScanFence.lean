import YakModel.Proofs.ScanR2L
/-!
# `NoMaxFence` is an invariant of the storage operations

Fences are created only by a split (the first of the moved entries, which is followed by at
least one larger entry and therefore is not the maximal tuple); `remove` only drops fences or
moves the fence of an unlinked leaf to its right neighbour.
-/
namespace Yak.Tree
open Yak

/-- some border node of `t` has lower fence `f` -/
def FenceIn (t : Tree) (f : KT) : Prop := ∃ L ∈ t, ∃ l ∈ L.leaves, l.fence = some f

theorem noMaxFence_iff (t : Tree) : NoMaxFence t ↔ ¬ FenceIn t KT.max := by
  unfold NoMaxFence FenceIn
  constructor
  · rintro h ⟨L, hL, l, hl, hf⟩; exact h L hL l hl hf
  · intro h L hL l hl hf; exact h ⟨L, hL, l, hl, hf⟩

theorem mem_setLayer {t : Tree} {L M : Layer} (h : M ∈ setLayer t L) : M = L ∨ M ∈ t := by
  unfold setLayer at h
  split at h
  · obtain ⟨M0, hM0, rfl⟩ := List.mem_map.mp h
    split
    · exact Or.inl rfl
    · exact Or.inr hM0
  · rcases List.mem_append.mp h with h | h
    · exact Or.inr h
    · exact Or.inl (List.mem_singleton.mp h)

theorem fenceIn_setLayer {t : Tree} {L L' : Layer} (hL : L ∈ t) {f : KT}
    (hsub : ∀ l' ∈ L'.leaves, l'.fence = some f → ∃ l ∈ L.leaves, l.fence = some f)
    (h : FenceIn (setLayer t L') f) : FenceIn t f := by
  obtain ⟨M, hM, l, hl, hf⟩ := h
  rcases mem_setLayer hM with rfl | hM
  · obtain ⟨l0, hl0, hf0⟩ := hsub l hl hf
    exact ⟨L, hL, l0, hl0, hf0⟩
  · exact ⟨M, hM, l, hl, hf⟩

theorem fenceIn_eraseLayer {t : Tree} {p : List UInt8} {f : KT} (h : FenceIn (eraseLayer t p) f) :
    FenceIn t f := by
  obtain ⟨M, hM, l, hl, hf⟩ := h
  exact ⟨M, (List.mem_filter.mp hM).1, l, hl, hf⟩

theorem getD_fence {ls : List Leaf} {i : Nat} {f : KT} (h : (ls.getD i emptyLeaf).fence = some f) :
    ∃ l ∈ ls, l.fence = some f := by
  rw [List.getD_eq_getElem?_getD] at h
  cases hg : ls[i]? with
  | none => rw [hg] at h; cases h
  | some l => rw [hg] at h; exact ⟨l, List.mem_of_getElem? hg, h⟩

theorem set_fence {ls : List Leaf} {j : Nat} {x : Leaf} {f : KT}
    (hx : x.fence = some f → ∃ l ∈ ls, l.fence = some f) :
    ∀ l' ∈ ls.set j x, l'.fence = some f → ∃ l ∈ ls, l.fence = some f := by
  intro l' hl' hf
  rcases List.mem_or_eq_of_mem_set hl' with h | h
  · exact ⟨l', h, hf⟩
  · subst h; exact hx hf

/-! ### remove -/

theorem handleEmpty_fences (f : KT) : ∀ (n : Nat) (t : Tree) (p : List UInt8) (i : Nat) (dirs : List Bool)
    (used : Nat), FenceIn (handleEmpty t p i dirs used n).1 f → FenceIn t f := by
  intro n
  induction n with
  | zero => intro t p i dirs used h; exact h
  | succ n ih =>
    intro t p i dirs used h
    unfold handleEmpty at h
    cases hL : findLayer t p with
    | none => rw [hL] at h; exact h
    | some L =>
      have hLt : L ∈ t := (findLayer_some hL).2
      rw [hL] at h
      simp only at h
      split at h
      · split at h
        · refine fenceIn_setLayer hLt ?_ h
          intro l' hl' hf
          simp only [List.mem_singleton] at hl'
          subst hl'
          exact getD_fence hf
        · cases hU : findLayer (eraseLayer t p) (p.take (p.length - 8)) with
          | none => rw [hU] at h; exact fenceIn_eraseLayer h
          | some U =>
            rw [hU] at h
            simp only at h
            have hUt : U ∈ eraseLayer t p := (findLayer_some hU).2
            have step : ∀ (j : Nat) (x : Leaf),
                FenceIn (setLayer (eraseLayer t p) { U with leaves := U.leaves.set j x }) f →
                (x.fence = some f → ∃ l ∈ U.leaves, l.fence = some f) → FenceIn t f := by
              intro j x h' hx
              apply fenceIn_eraseLayer (p := p)
              exact fenceIn_setLayer hUt (set_fence hx) h'
            split at h
            · exact step _ _ (ih _ _ _ _ _ h) (fun hx => getD_fence hx)
            · exact step _ _ h (fun hx => getD_fence hx)
      · refine fenceIn_setLayer hLt ?_ h
        intro l' hl' hf
        have hl'' := List.mem_of_mem_eraseIdx hl'
        -- the leaves before erasing: at most one fence replaced by the unlinked leaf's fence
        have key : ∀ (b : Bool), l' ∈ (if b = true then
            (match L.leaves[i + 1]? with
              | some nx => L.leaves.set (i + 1) { nx with fence := (L.leaves.getD i emptyLeaf).fence }
              | none => L.leaves)
            else L.leaves) → ∃ l ∈ L.leaves, l.fence = some f := by
          intro b hb
          cases b with
          | false => exact ⟨l', by simpa using hb, hf⟩
          | true =>
            simp only [if_true] at hb
            cases hnx : L.leaves[i + 1]? with
            | none => rw [hnx] at hb; exact ⟨l', hb, hf⟩
            | some nx =>
              rw [hnx] at hb
              exact set_fence (x := { nx with fence := (L.leaves.getD i emptyLeaf).fence })
                (fun hx => getD_fence hx) l' hb hf
        exact key _ hl''

theorem removeAt_fences (f : KT) (t : Tree) (dirs : List Bool) : ∀ (rest : Key) (p : List UInt8),
    FenceIn (removeAt t p rest dirs).tree f → FenceIn t f := by
  intro rest
  induction hn : rest.length using Nat.strongRecOn generalizing rest with
  | _ n ih =>
    intro p h
    rw [removeAt] at h
    cases hL : findLayer t p with
    | none => rw [hL] at h; exact h
    | some L =>
      have hLt : L ∈ t := (findLayer_some hL).2
      rw [hL] at h
      simp only at h
      cases hlk : leafLookup (KT.ofKey rest)
          (leafKeys (L.leaves.getD (route (KT.ofKey rest) L.leaves) emptyLeaf)) with
      | none => rw [hlk] at h; exact h
      | some r =>
        rw [hlk] at h
        simp only at h
        by_cases hl : rest.length > 8
        · rw [dif_pos hl] at h
          exact ih (rest.drop 8).length (by simp only [List.length_drop]; omega) (rest.drop 8) rfl _ h
        · rw [dif_neg hl] at h
          have step : ∀ (j : Nat) (x : Leaf), FenceIn (setLayer t { L with leaves := L.leaves.set j x }) f →
              (x.fence = some f → ∃ l ∈ L.leaves, l.fence = some f) → FenceIn t f :=
            fun j x h' hx => fenceIn_setLayer hLt (set_fence hx) h'
          split at h
          · exact step _ _ (handleEmpty_fences f _ _ _ _ _ _ h) (fun hx => getD_fence hx)
          · exact step _ _ h (fun hx => getD_fence hx)

theorem noMaxFence_remove (t : Tree) (k : Key) (dirs : List Bool) (h : NoMaxFence t) :
    NoMaxFence (remove t k dirs).tree := by
  rw [noMaxFence_iff] at h ⊢
  exact fun h' => h (removeAt_fences KT.max t dirs k [] h')

/-! ### put -/

theorem ltSpec_max_false {x : KT} (hw : x.WF) : KT.ltSpec KT.max x = false := by
  unfold KT.ltSpec
  have hb : KT.max.bytes = List.replicate 8 255 := by decide
  have hl : KT.max.len = 9 := rfl
  rw [hb, hl]
  have hlen : x.bytes.length ≤ 8 := by
    unfold KT.bytes
    simp only [List.length_take]
    have : Nat.min x.len 8 ≤ 8 := Nat.min_le_right _ _
    omega
  rw [lexLt_ff_false 8 x.bytes hlen]
  have h9 : ¬ 9 < x.len := by have := hw.2.1; omega
  simp [h9]

theorem freshLayers_fence (v : Val) : ∀ (r : Key) (q : List UInt8), ∀ M ∈ freshLayers q r v, ∀ l ∈ M.leaves,
    l.fence = none := by
  intro r
  induction hn : r.length using Nat.strongRecOn generalizing r with
  | _ n ih =>
    intro q M hM l hl
    by_cases hlong : r.length > 8
    · rw [freshLayers_long v hlong] at hM
      rcases List.mem_cons.mp hM with rfl | hM
      · simp only [List.mem_singleton] at hl
        subst hl; rfl
      · exact ih (r.drop 8).length (by simp only [List.length_drop]; omega) (r.drop 8) rfl _ M hM l hl
    · rw [freshLayers_short v hlong] at hM
      simp only [List.mem_singleton] at hM
      subst hM
      simp only [List.mem_singleton] at hl
      subst hl; rfl

/-- the chain `insertInto` writes back has no new maximal fence -/
theorem insLeaves_fence {leaves : List Leaf} (hc : LayerCore leaves) {k : KT} (hk : k.WF) (e : Ent)
    (h : ∀ l ∈ leaves, l.fence ≠ some KT.max) : ∀ l ∈ insLeaves leaves k e, l.fence ≠ some KT.max := by
  obtain ⟨pre, leaf, post, hr⟩ := route_decomp hc hk
  have hin : ∀ l ∈ pre ++ post, l ∈ leaves := by
    intro l hl
    rw [hr.eq]
    rcases List.mem_append.mp hl with hl | hl
    · exact List.mem_append_left _ hl
    · exact List.mem_append_right _ (List.mem_cons_of_mem _ hl)
  have hleaf : leaf ∈ leaves := by rw [hr.eq]; simp
  by_cases hlt : leaf.ents.length < 15
  · rw [insLeaves_lt e hr hlt]
    intro l hl
    rcases List.mem_append.mp hl with hl | hl
    · exact h l (hin l (List.mem_append_left _ hl))
    · rcases List.mem_cons.mp hl with rfl | hl
      · exact h leaf hleaf
      · exact h l (hin l (List.mem_append_right _ hl))
  · rw [insLeaves_ge e hr hlt]
    intro l hl
    rcases List.mem_append.mp hl with hl | hl
    · exact h l (hin l (List.mem_append_left _ hl))
    · rcases List.mem_cons.mp hl with rfl | hl
      · exact h leaf hleaf
      · rcases List.mem_cons.mp hl with rfl | hl
        · -- the new right node: its fence is the ninth entry, which has a larger successor
          simp only [ne_eq, Option.some.injEq]
          have hok : LeafOK leaf := hc.2.2 leaf hleaf
          have hlen : leaf.ents.length ≥ 10 := by omega
          obtain ⟨a, b, rst, hd⟩ : ∃ a b rst, leaf.ents.drop 8 = a :: b :: rst := by
            cases hd : leaf.ents.drop 8 with
            | nil =>
              have := congrArg List.length hd
              simp only [List.length_drop, List.length_nil] at this; omega
            | cons a r1 =>
              cases r1 with
              | nil =>
                have := congrArg List.length hd
                simp only [List.length_drop, List.length_cons, List.length_nil] at this; omega
              | cons b rst => exact ⟨a, b, rst, rfl⟩
          rw [hd]
          simp only [List.headD_cons]
          have hsorted := hok.2.2.1
          rw [← List.take_append_drop 8 leaf.ents, hd, List.pairwise_append] at hsorted
          have hab : KT.ltSpec a.kt b.kt = true := by
            have := hsorted.2.1
            rw [List.pairwise_cons] at this
            exact this.1 b (by simp)
          intro e0
          have hbin : b ∈ leaf.ents := by
            rw [← List.take_append_drop 8 leaf.ents, hd]; simp
          rw [e0, ltSpec_max_false (hok.2.1 b hbin).1] at hab
          cases hab
        · exact h l (hin l (List.mem_append_right _ hl))

theorem noMaxFence_setLayer {t : Tree} {L' : Layer} (h : NoMaxFence t)
    (h' : ∀ l ∈ L'.leaves, l.fence ≠ some KT.max) : NoMaxFence (setLayer t L') := by
  intro M hM l hl
  rcases mem_setLayer hM with rfl | hM
  · exact h' l hl
  · exact h M hM l hl

theorem putAt_noMaxFence {t : Tree} (hF : FCore (lay t)) (h : NoMaxFence t) (v : Val) (u : Bool) :
    ∀ (rest : Key) (p : List UInt8), NoMaxFence (putAt t p rest v u).tree := by
  intro rest
  induction hn : rest.length using Nat.strongRecOn generalizing rest with
  | _ n ih =>
    intro p
    cases hL : findLayer t p with
    | none => rw [putAt, hL]; exact h
    | some L =>
      have hLt : L ∈ t := (findLayer_some hL).2
      have hc := hF.core _ _ (lay_of_findLayer hL)
      rw [putAt, hL]
      dsimp only
      cases hlk : leafLookup (KT.ofKey rest)
          (leafKeys (L.leaves.getD (route (KT.ofKey rest) L.leaves) emptyLeaf)) with
      | none =>
        dsimp only
        rw [insertInto_eq]
        dsimp only
        intro M hM l hl
        rcases List.mem_append.mp hM with hM | hM
        · exact noMaxFence_setLayer h (insLeaves_fence hc (KT.ofKey_wf rest) _ (h L hLt)) M hM l hl
        · unfold subOf at hM
          split at hM
          · rw [freshLayers_fence v _ _ M hM l hl]; simp
          · cases hM
      | some r =>
        dsimp only
        by_cases hl : rest.length > 8
        · rw [dif_pos hl]
          exact ih (rest.drop 8).length (by simp only [List.length_drop]; omega) (rest.drop 8) rfl _
        · rw [dif_neg hl]
          split
          · exact h
          · apply noMaxFence_setLayer h
            intro l hl'
            simp only at hl'
            rcases List.mem_or_eq_of_mem_set hl' with h1 | h1
            · exact h L hLt l h1
            · subst h1
              simp only
              intro hf
              obtain ⟨l0, hl0, hf0⟩ := getD_fence hf
              exact h L hLt l0 hl0 hf0

theorem noMaxFence_put (t : Tree) (k : Key) (v : Val) (u : Bool) (hi : Inv t) (h : NoMaxFence t) :
    NoMaxFence (put t k v u).tree := by
  obtain ⟨_, hF, _⟩ := (inv_iff t).mp hi
  exact putAt_noMaxFence hF h v u k []

theorem noMaxFence_empty : NoMaxFence Tree.empty := by
  intro L hL l hl
  simp only [Tree.empty, List.mem_singleton] at hL
  subst hL
  simp only [List.mem_singleton] at hl
  subst hl
  simp [emptyLeaf]

end Yak.Tree
