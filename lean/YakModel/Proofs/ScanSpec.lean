import YakModel.Proofs.ScanSteps
import YakModel.Proofs.ScanEnds
/-!
# Forward scans return the interval of the in-order content (C03)
-/
namespace Yak.Tree
open Yak

/-! ### truncation to `max_size` -/

def lim {α : Type} (max : Nat) (l : List α) : List α := if max = 0 then l else l.take max

theorem full_false_iff {max n : Nat} : full max n = false ↔ (max = 0 ∨ n < max) := by
  unfold full
  by_cases h : max = 0
  · simp [h]
  · have : (max != 0) = true := by simp [h]
    simp only [this, Bool.true_and, decide_eq_false_iff_not]
    omega

theorem full_true_iff {max n : Nat} : full max n = true ↔ (max ≠ 0 ∧ max ≤ n) := by
  unfold full
  simp

theorem lim_of_not_full {α : Type} {max : Nat} {l : List α} (h : full max l.length = false) : lim max l = l := by
  unfold lim
  rcases full_false_iff.mp h with h | h
  · rw [if_pos h]
  · split
    · rfl
    · exact List.take_of_length_le (by omega)

theorem lim_append_of_full {α : Type} {max : Nat} {a : List α} (b : List α) (h : full max a.length = true) :
    lim max (a ++ b) = lim max a := by
  obtain ⟨h0, h1⟩ := full_true_iff.mp h
  unfold lim
  rw [if_neg h0, if_neg h0, List.take_append_of_le_length h1]

/-- the scan stopped with the truncated list: appending more candidates does not change it -/
theorem lim_extend {α : Type} {max : Nat} {a : List α} (b : List α) (h : full max (lim max a).length = true) :
    lim max a = lim max (a ++ b) := by
  obtain ⟨h0, h1⟩ := full_true_iff.mp h
  have : max ≤ a.length := by
    unfold lim at h1
    rw [if_neg h0, List.length_take] at h1
    omega
  rw [lim_append_of_full b (full_true_iff.mpr ⟨h0, this⟩)]

theorem eq_of_lim_not_full {α : Type} {max : Nat} {a : List α} (h : full max (lim max a).length = false) :
    lim max a = a := by
  rcases full_false_iff.mp h with h | h
  · unfold lim; rw [if_pos h]
  · apply lim_of_not_full
    apply full_false_iff.mpr
    by_cases h0 : max = 0
    · exact Or.inl h0
    · right
      unfold lim at h
      rw [if_neg h0, List.length_take] at h
      omega

theorem lim_snoc_full {α : Type} {max : Nat} {a : List α} (x : α) (b : List α)
    (h0 : full max a.length = false) (h1 : full max (a ++ [x]).length = true) :
    a ++ [x] = lim max (a ++ ([x] ++ b)) := by
  obtain ⟨hm, hl⟩ := full_true_iff.mp h1
  rcases full_false_iff.mp h0 with h | h
  · exact absurd h hm
  · rw [← List.append_assoc, lim_append_of_full b h1]
    unfold lim
    rw [if_neg hm]
    exact (List.take_of_length_le (by simp only [List.length_append, List.length_singleton] at hl ⊢; omega)).symm

/-! ### the interval of a layer-relative scan, on full keys -/

def Jf (p : List UInt8) (lk : Key) (le : EP) (rk : Key) (re : EP) (kv : Key × Val) : Bool :=
  inLeft lk le (kv.1.drop p.length) && inRight rk re kv.1

/-- what one entry must contribute -/
def Xe (t : Tree) (fuel : Nat) (p : List UInt8) (lk : Key) (le : EP) (rk : Key) (re : EP) (e : Ent) :
    List (Key × Val) :=
  (entContent t fuel p e).filter (Jf p lk le rk re)

theorem Xe_nil_of {t : Tree} {fuel : Nat} {p : List UInt8} {lk : Key} {le : EP} {rk : Key} {re : EP} {e : Ent}
    (h : ∀ kv ∈ entContent t fuel p e, Jf p lk le rk re kv = false) : Xe t fuel p lk le rk re e = [] := by
  unfold Xe
  rw [List.filter_eq_nil_iff]
  intro kv hkv
  rw [h kv hkv]; simp

theorem flatMap_nil_of {α β : Type} {l : List α} {f : α → List β} (h : ∀ x ∈ l, f x = []) : l.flatMap f = [] := by
  rw [List.flatMap_eq_nil_iff]; exact h

theorem entContent_val {t : Tree} {fuel : Nat} {p : List UInt8} {e : Ent} {v : Val} (h : e.val = some v) :
    entContent t fuel p e = [(p ++ e.kt.bytes, v)] := by
  unfold entContent; rw [h]

theorem entContent_link {t : Tree} {fuel : Nat} {p : List UInt8} {e : Ent} (h : e.val = none) :
    entContent t fuel p e = contentFrom t fuel (p ++ e.kt.slice) := by
  unfold entContent; rw [h]

/-- the context of one layer inside a scan -/
structure LCtx (t : Tree) (fuel : Nat) (p : List UInt8) (L : Layer) : Prop where
  hF : FCore (lay t)
  hL : findLayer t p = some L
  hA : t.length ≤ fuel + p.length / 8

theorem LCtx.pfx {t fuel p L} (c : LCtx t fuel p L) : L.pfx = p := (findLayer_some c.hL).1
theorem LCtx.lay {t fuel p L} (c : LCtx t fuel p L) : lay t p = some L.leaves := lay_of_findLayer c.hL
theorem LCtx.core {t fuel p L} (c : LCtx t fuel p L) : LayerCore L.leaves := c.hF.core _ _ c.lay

/-- shape of the keys one entry contributes (relative part) -/
theorem LCtx.keys {t fuel p L} (c : LCtx t fuel p L) {e : Ent} (he : e ∈ layerEnts L.leaves)
    {kv : Key × Val} (hk : kv ∈ entContent t fuel p e) :
    ∃ r', kv.1 = p ++ (e.kt.bytes ++ r') ∧ kv.1.drop p.length = e.kt.bytes ++ r' ∧
      ((e.kt.len ≤ 8 ∧ r' = []) ∨ (e.kt.len = 9 ∧ e.kt.bytes = e.kt.slice ∧ e.kt.slice.length = 8 ∧ r' ≠ [])) := by
  obtain ⟨k, v⟩ := kv
  obtain ⟨r', h1, h2⟩ := keys_of_entContent c.hF c.lay (by have := c.hA; omega) he hk
  refine ⟨r', h1, by simp only [h1]; simp, ?_⟩
  rcases h2 with h2 | ⟨h9, _, hr⟩
  · exact Or.inl h2
  · have hw := (layerEnts_wf c.core he).1
    exact Or.inr ⟨h9, bytes_of_link hw h9, hw.1, hr⟩

/-- every key of a later entry is above the lower bound `p ++ bytes` of an earlier one -/
theorem LCtx.later_gt {t fuel p L} (c : LCtx t fuel p L) {e e' : Ent} (he' : e' ∈ layerEnts L.leaves)
    (hlt : KT.ltSpec e.kt e'.kt = true) {kv : Key × Val} (hk : kv ∈ entContent t fuel p e') :
    lexLt (p ++ e.kt.bytes) kv.1 = true := by
  obtain ⟨r', h1, _, h2⟩ := c.keys he' hk
  rw [h1, lexLt_append_left]
  unfold KT.ltSpec at hlt
  simp only [Bool.or_eq_true, Bool.and_eq_true, beq_iff_eq, decide_eq_true_eq] at hlt
  rcases hlt with hlt | ⟨hbe, hlen⟩
  · exact lexLt_append_right_of_lt _ _ _ hlt
  · rw [hbe]
    rcases h2 with ⟨h8, _⟩ | ⟨_, _, _, hr⟩
    · exfalso
      have hw' := (layerEnts_wf c.core he').1
      have hl' := bytes_len_of_short hw' h8
      have : e.kt.bytes.length ≤ e.kt.len := by
        unfold KT.bytes
        simp only [List.length_take]
        have : Nat.min e.kt.len 8 ≤ e.kt.len := Nat.min_le_left _ _
        omega
      rw [hbe, hl'] at this
      omega
    · exact lexLt_append_self _ _ hr

/-- the keys under a link entry are proper extensions of its full key -/
theorem LCtx.link_gt {t fuel p L} (c : LCtx t fuel p L) {e : Ent} (he : e ∈ layerEnts L.leaves)
    (h9 : e.kt.len = 9) {kv : Key × Val} (hk : kv ∈ entContent t fuel p e) :
    lexLt (p ++ e.kt.bytes) kv.1 = true := by
  obtain ⟨r', h1, _, h2⟩ := c.keys he hk
  rw [h1, lexLt_append_left]
  rcases h2 with ⟨h8, _⟩ | ⟨_, _, _, hr⟩
  · omega
  · exact lexLt_append_self _ _ hr

theorem recFix_tuples (cfg : Cfg) (L : Layer) (i : Nat) (pushed : Bool) (a : Acc) :
    (recFix cfg L i pushed a).tuples = a.tuples := by
  unfold recFix; split <;> rfl

theorem Xe_val {t : Tree} {fuel : Nat} {p : List UInt8} {lk : Key} {le : EP} {rk : Key} {re : EP} {e : Ent}
    {v : Val} (h : e.val = some v) :
    Xe t fuel p lk le rk re e =
      if (inLeft lk le e.kt.bytes && inRight rk re (p ++ e.kt.bytes)) = true then [(p ++ e.kt.bytes, v)] else [] := by
  unfold Xe
  rw [entContent_val h]
  simp [Jf, List.filter_cons]

/-- the hypothesis on the next layers a scan of one layer relies on -/
def SubOK (cfg : Cfg) (t : Tree) (fuel : Nat) (p : List UInt8) (max : Nat) : Prop :=
  ∀ f, fuel = f + 1 → ∀ (q : List UInt8) (alk : Key) (ale : EP) (ark : Key) (are : EP) (acc : Acc),
    (lay t q).isSome → q.length = p.length + 8 → (ale = .inf → alk = []) →
    full max acc.tuples.length = false →
    (scanLayer cfg t f q alk ale ark are max false acc).1.tuples =
      lim max (acc.tuples ++ (contentFrom t (f + 1) q).filter (Jf q alk ale ark are))

theorem scanEnts_tuples {cfg : Cfg} {t : Tree} {fuel : Nat} {p : List UInt8} {L : Layer} (c : LCtx t fuel p L)
    {max : Nat} (IH : SubOK cfg t fuel p max) (i : Nat) (lk : Key) (le : EP) (rk : Key) (re : EP) :
    ∀ (ents later : List Ent) (acc : Acc) (pushed : Bool),
      (∀ e ∈ ents ++ later, e ∈ layerEnts L.leaves) →
      (ents ++ later).Pairwise (fun a b => KT.ltSpec a.kt b.kt = true) →
      full max acc.tuples.length = false →
      ((scanEnts cfg t fuel L i ents lk le rk re max false acc pushed).2.2 = .cont →
        (scanEnts cfg t fuel L i ents lk le rk re max false acc pushed).1.tuples =
          acc.tuples ++ ents.flatMap (Xe t fuel p lk le rk re) ∧
        full max (scanEnts cfg t fuel L i ents lk le rk re max false acc pushed).1.tuples.length = false) ∧
      ((scanEnts cfg t fuel L i ents lk le rk re max false acc pushed).2.2 = .stop →
        (scanEnts cfg t fuel L i ents lk le rk re max false acc pushed).1.tuples =
          lim max (acc.tuples ++ (ents ++ later).flatMap (Xe t fuel p lk le rk re))) := by
  intro ents
  induction ents with
  | nil =>
    intro later acc pushed _ _ hpre
    rw [scanEnts_nil]
    refine ⟨fun _ => ⟨by simp, hpre⟩, fun h => by cases h⟩
  | cons e es ih =>
    intro later acc pushed hsub hsorted hpre
    have he : e ∈ layerEnts L.leaves := hsub e (by simp)
    obtain ⟨hw, hv9⟩ := layerEnts_wf c.core he
    have hsub' : ∀ x ∈ es ++ later, x ∈ layerEnts L.leaves := fun x hx => hsub x (by rw [List.cons_append]; exact List.mem_cons_of_mem _ hx)
    rw [List.cons_append, List.pairwise_cons] at hsorted
    obtain ⟨hlater, hsorted'⟩ := hsorted
    -- everything from `e` on is beyond the right end
    have allnil : (∀ kv ∈ entContent t fuel p e, inRight rk re kv.1 = false) →
        (∀ e' ∈ es ++ later, ∀ kv ∈ entContent t fuel p e', inRight rk re kv.1 = false) →
        acc.tuples = lim max (acc.tuples ++ (e :: es ++ later).flatMap (Xe t fuel p lk le rk re)) := by
      intro h1 h2
      have : (e :: es ++ later).flatMap (Xe t fuel p lk le rk re) = [] := by
        apply flatMap_nil_of
        intro x hx
        apply Xe_nil_of
        intro kv hkv
        have : inRight rk re kv.1 = false := by
          rw [List.cons_append] at hx
          rcases List.mem_cons.mp hx with e0 | hx'
          · subst e0; exact h1 kv hkv
          · exact h2 x hx' kv hkv
        simp [Jf, this]
      rw [this, List.append_nil, lim_of_not_full hpre]
    cases hval : e.val with
    | some v =>
      have h8 : e.kt.len ≤ 8 := by
        have : e.kt.len ≠ 9 := fun h => by rw [hv9.mpr h] at hval; cases hval
        have := hw.2.1; omega
      have hfk : L.pfx ++ e.kt.slice.take (Nat.min e.kt.len 8) = p ++ e.kt.bytes := by rw [c.pfx]; rfl
      rw [scanEnts_val cfg t fuel L i e es v hval, hfk, beforeLeft_eq hw h8, withinRight_eq]
      have hX := Xe_val (t := t) (fuel := fuel) (p := p) (lk := lk) (le := le) (rk := rk) (re := re) hval
      cases hl : inLeft lk le e.kt.bytes with
      | false =>
        rw [hl] at hX
        simp only [Bool.false_and, Bool.false_eq_true, if_false] at hX
        simp only [Bool.not_false, if_true]
        have := ih later acc pushed hsub' hsorted' hpre
        rw [List.flatMap_cons, List.cons_append, List.flatMap_cons, hX, List.nil_append, List.nil_append]
        exact this
      | true =>
        rw [hl] at hX
        simp only [Bool.not_true, Bool.false_eq_true, if_false]
        cases hr : inRight rk re (p ++ e.kt.bytes) with
        | true =>
          rw [hr] at hX
          simp only [Bool.and_self, if_true] at hX
          simp only [if_true]
          cases hfull : full max (acc.tuples ++ [(p ++ e.kt.bytes, v)]).length with
          | true =>
            simp only [if_true]
            refine ⟨fun h => (by cases h), fun _ => ?_⟩
            rw [List.cons_append, List.flatMap_cons, hX]
            exact lim_snoc_full _ _ hpre hfull
          | false =>
            simp only [Bool.false_eq_true, if_false]
            have := ih later ⟨acc.tuples ++ [(p ++ e.kt.bytes, v)], acc.nodes ++ [mkRef L i]⟩ true hsub' hsorted' hfull
            rw [List.flatMap_cons, List.cons_append, List.flatMap_cons, hX]
            simp only [List.append_assoc] at this ⊢
            exact this
        | false =>
          simp only [Bool.false_eq_true, if_false]
          refine ⟨fun h => (by cases h), fun _ => ?_⟩
          have ht : (if pushed = true then acc else { acc with nodes := acc.nodes ++ [mkRef L i] }).tuples = acc.tuples := by
            split <;> rfl
          rw [ht]
          apply allnil
          · intro kv hkv
            rw [entContent_val hval, List.mem_singleton] at hkv
            rw [hkv]; exact hr
          · intro e' he' kv hkv
            exact inRight_mono (c.later_gt (hsub' e' he') (hlater e' he') hkv) hr
    | none =>
      have h9 : e.kt.len = 9 := hv9.mp hval
      have hb : e.kt.bytes = e.kt.slice := bytes_of_link hw h9
      have hs8 : e.kt.slice.length = 8 := hw.1
      have hfk : L.pfx ++ e.kt.slice.take (Nat.min e.kt.len 8) = p ++ e.kt.slice := by
        rw [c.pfx]
        show p ++ e.kt.bytes = _
        rw [hb]
      rw [scanEnts_link cfg t fuel L i e es hval, hfk]
      cases hla : linkArgs lk le rk re e.kt.slice (p ++ e.kt.slice) with
      | skip =>
        simp only
        have hX : Xe t fuel p lk le rk re e = [] := by
          apply Xe_nil_of
          intro kv hkv
          obtain ⟨r', _, h2, _⟩ := c.keys he hkv
          have := linkArgs_skip hs8 hla r'
          simp [Jf, h2, hb, this]
        have := ih later acc pushed hsub' hsorted' hpre
        rw [List.flatMap_cons, List.cons_append, List.flatMap_cons, hX, List.nil_append, List.nil_append]
        exact this
      | stop =>
        simp only
        refine ⟨fun h => (by cases h), fun _ => ?_⟩
        rw [recFix_tuples]
        obtain ⟨hre, hF⟩ := linkArgs_stop hla
        apply allnil
        · intro kv hkv
          have := c.link_gt he h9 hkv
          rw [hb] at this
          exact inRight_false_of_le hre hF this
        · intro e' he' kv hkv
          have := c.later_gt (hsub' e' he') (hlater e' he') hkv
          rw [hb] at this
          exact inRight_false_of_le hre hF this
      | go alk ale ark are =>
        have hdown : (lay t (p ++ e.kt.slice)).isSome := c.hF.down _ _ c.lay e he h9
        cases fuel with
        | zero =>
          exfalso
          have h1 := depth_bound c.hF hdown
          have h2 := c.hA
          simp only [List.length_append, hs8] at h1
          omega
        | succ f =>
          simp only
          obtain ⟨h0, hgo⟩ := linkArgs_go hs8 hla
          have hS := IH f rfl (p ++ e.kt.slice) alk ale ark are acc hdown (by simp [hs8]) h0 hpre
          have hcongr : (contentFrom t (f + 1) (p ++ e.kt.slice)).filter (Jf (p ++ e.kt.slice) alk ale ark are) =
              Xe t (f + 1) p lk le rk re e := by
            unfold Xe
            rw [entContent_link hval]
            apply List.filter_congr
            intro kv hkv
            have hkv' : kv ∈ entContent t (f + 1) p e := by rw [entContent_link hval]; exact hkv
            obtain ⟨r', h1, h2, h3⟩ := c.keys he hkv'
            rcases h3 with ⟨h8, _⟩ | ⟨_, _, _, hr'⟩
            · omega
            · obtain ⟨g1, g2⟩ := hgo r' hr'
              have h1' : kv.1 = (p ++ e.kt.slice) ++ r' := by rw [h1, hb, List.append_assoc]
              have hd : kv.1.drop (p ++ e.kt.slice).length = r' := by rw [h1']; simp
              unfold Jf
              rw [hd, h2, hb, g1, h1', g2]
          rw [hcongr] at hS
          cases hfull : full max (scanLayer cfg t f (p ++ e.kt.slice) alk ale ark are max false acc).1.tuples.length with
          | true =>
            simp only [if_true]
            refine ⟨fun h => (by cases h), fun _ => ?_⟩
            rw [recFix_tuples, hS, List.cons_append, List.flatMap_cons, ← List.append_assoc]
            apply lim_extend
            rw [← hS]; exact hfull
          | false =>
            simp only [Bool.false_eq_true, if_false]
            have hS' : (scanLayer cfg t f (p ++ e.kt.slice) alk ale ark are max false acc).1.tuples =
                acc.tuples ++ Xe t (f + 1) p lk le rk re e := by
              rw [hS]; apply eq_of_lim_not_full; rw [← hS]; exact hfull
            have := ih later (scanLayer cfg t f (p ++ e.kt.slice) alk ale ark are max false acc).1 pushed
              hsub' hsorted' hfull
            rw [hS'] at this
            rw [List.flatMap_cons, List.cons_append, List.flatMap_cons]
            simp only [List.append_assoc] at this ⊢
            exact this

theorem layerEnts_cons (l : Leaf) (ls : List Leaf) : layerEnts (l :: ls) = l.ents ++ layerEnts ls := by
  simp [layerEnts]

theorem layerEnts_append (a b : List Leaf) : layerEnts (a ++ b) = layerEnts a ++ layerEnts b := by
  simp [layerEnts]

theorem scanLeaves_tuples {cfg : Cfg} {t : Tree} {fuel : Nat} {p : List UInt8} {L : Layer} (c : LCtx t fuel p L)
    {max : Nat} (IH : SubOK cfg t fuel p max) (lk : Key) (le : EP) (rk : Key) (re : EP) :
    ∀ (rest : List Leaf) (i : Nat) (acc : Acc), (∃ pre, L.leaves = pre ++ rest) →
      full max acc.tuples.length = false →
      (scanLeaves cfg t fuel L i rest lk le rk re max false acc).1.tuples =
        lim max (acc.tuples ++ (layerEnts rest).flatMap (Xe t fuel p lk le rk re)) := by
  intro rest
  induction rest with
  | nil =>
    intro i acc _ hpre
    rw [scanLeaves_nil]
    simp only [layerEnts, List.flatMap_nil, List.append_nil]
    exact (lim_of_not_full hpre).symm
  | cons leaf more ih =>
    intro i acc hpre' hpre
    obtain ⟨pre, hpre'⟩ := hpre'
    have hsub : ∀ e ∈ leaf.ents ++ layerEnts more, e ∈ layerEnts L.leaves := by
      intro e he
      rw [hpre', layerEnts_append, layerEnts_cons]
      exact List.mem_append_right _ he
    have hsorted : (leaf.ents ++ layerEnts more).Pairwise (fun a b => KT.ltSpec a.kt b.kt = true) := by
      have := layerEnts_sorted c.core
      rw [hpre', layerEnts_append, layerEnts_cons, List.pairwise_append] at this
      exact this.2.1
    have hE := scanEnts_tuples c IH i lk le rk re leaf.ents (layerEnts more) acc false hsub hsorted hpre
    rw [scanLeaves_cons]
    simp only [Bool.false_eq_true, if_false]
    rcases hres : scanEnts cfg t fuel L i leaf.ents lk le rk re max false acc false with ⟨acc1, pushed, flow⟩
    rw [hres] at hE
    cases flow with
    | stop =>
      simp only
      rw [layerEnts_cons]
      exact hE.2 rfl
    | cont =>
      simp only
      obtain ⟨h1, h2⟩ := hE.1 rfl
      simp only at h1 h2
      have ht : (if pushed = true then acc1 else { acc1 with nodes := acc1.nodes ++ [mkRef L i] }).tuples =
          acc1.tuples := by split <;> rfl
      cases more with
      | nil =>
        simp only [List.isEmpty_nil, if_true]
        rw [ht, h1, layerEnts_cons]
        simp only [layerEnts, List.flatMap_nil, List.append_nil]
        apply (lim_of_not_full _).symm
        rw [← h1]; exact h2
      | cons m ms =>
        simp only [List.isEmpty_cons, Bool.false_eq_true, if_false]
        rw [ih (i + 1) _ ⟨pre ++ [leaf], by rw [hpre']; simp⟩ (by rw [ht]; exact h2), ht, h1,
          layerEnts_cons leaf, List.flatMap_append, List.append_assoc]

/-- entries of the leaves left of the start leaf are all before the left end -/
theorem start_skips {t : Tree} {fuel : Nat} {p : List UInt8} {L : Layer} (c : LCtx t fuel p L)
    (lk : Key) (le : EP) (rk : Key) (re : EP) (hle : le = .inf → lk = []) :
    ∀ e ∈ layerEnts (L.leaves.take (route (descentKT lk false) L.leaves)), Xe t fuel p lk le rk re e = [] := by
  by_cases hinf : le = .inf
  · rw [hle hinf, route_nil_key c.core.1]
    intro e he
    simp [layerEnts] at he
  · intro e he
    have hc := c.core
    cases hlv : L.leaves with
    | nil => rw [hlv] at hc; cases hc.1
    | cons c0 ls =>
      rw [hlv] at he hc
      obtain ⟨pre, leaf, post, h1, h2, _, h4, _⟩ := routeFrom_decomp (descentKT lk false) ls c0
      have hr : route (descentKT lk false) (c0 :: ls) = pre.length := h2.symm
      rw [hr, h1, List.take_left' rfl] at he
      obtain ⟨a, ha, hea⟩ := mem_layerEnts.mp he
      have hpne : pre ≠ [] := by intro e0; subst e0; cases ha
      rw [h1] at hc
      obtain ⟨f, hf, hfw, _⟩ := hc.mid_fence hpne
      have hrl : routeLeft (descentKT lk false) f = false := by
        apply h4 leaf _ f hf
        cases pre with
        | nil => exact absurd rfl hpne
        | cons x xs => simp
      have hlo := descent_left hfw hrl
      have hlt : KT.ltSpec e.kt f = true := (hc.pre_before a ha f hf).2 e hea
      have hein : e ∈ layerEnts L.leaves := by
        rw [hlv, h1, layerEnts_append]; exact List.mem_append_left _ he
      have hw := (layerEnts_wf c.core hein).1
      have hlt2 : KT.ltSpec e.kt (KT.ofKey lk) = true := lt_le_trans hw (KT.ofKey_wf lk) hlt hlo
      obtain ⟨g1, g2⟩ := keys_lt_of_ltSpec_ofKey hw hlt2
      apply Xe_nil_of
      intro kv hkv
      obtain ⟨r', _, hd, h3⟩ := c.keys hein hkv
      have : inLeft lk le (kv.1.drop p.length) = false := by
        rw [hd]
        apply inLeft_false_of_lt hinf
        rcases h3 with ⟨h8, rfl⟩ | ⟨h9, hb, _, _⟩
        · rw [List.append_nil]; exact g1 h8
        · rw [hb]; exact g2 h9 r'
      simp [Jf, this]

theorem scanLayer_tuples {cfg : Cfg} {t : Tree} (hF : FCore (lay t)) {max : Nat} :
    ∀ (fuel : Nat) (p : List UInt8) (lk : Key) (le : EP) (rk : Key) (re : EP) (acc : Acc),
      (lay t p).isSome → t.length ≤ fuel + p.length / 8 → (le = .inf → lk = []) →
      full max acc.tuples.length = false →
      (scanLayer cfg t fuel p lk le rk re max false acc).1.tuples =
        lim max (acc.tuples ++ (contentFrom t (fuel + 1) p).filter (Jf p lk le rk re)) := by
  intro fuel
  induction fuel with
  | zero =>
    intro p lk le rk re acc hp hA hle hpre
    exact layer_step hF 0 (fun _ _ f h => absurd h (by omega)) p lk le rk re acc hp hA hle hpre
  | succ n ih =>
    intro p lk le rk re acc hp hA hle hpre
    refine layer_step hF (n + 1) ?_ p lk le rk re acc hp hA hle hpre
    intro p' hA' f hf q alk ale ark are acc' hq hlen h0 hpre'
    have : f = n := by omega
    subst this
    exact ih q alk ale ark are acc' hq (by omega) h0 hpre'
where
  layer_step {cfg : Cfg} {t : Tree} (hF : FCore (lay t)) {max : Nat} (fuel : Nat)
      (IH : ∀ p, t.length ≤ fuel + p.length / 8 → SubOK cfg t fuel p max)
      (p : List UInt8) (lk : Key) (le : EP) (rk : Key) (re : EP) (acc : Acc)
      (hp : (lay t p).isSome) (hA : t.length ≤ fuel + p.length / 8) (hle : le = .inf → lk = [])
      (hpre : full max acc.tuples.length = false) :
      (scanLayer cfg t fuel p lk le rk re max false acc).1.tuples =
        lim max (acc.tuples ++ (contentFrom t (fuel + 1) p).filter (Jf p lk le rk re)) := by
    cases hL : findLayer t p with
    | none => rw [lay_isSome, hL] at hp; cases hp
    | some L =>
      have c : LCtx t fuel p L := ⟨hF, hL, hA⟩
      rw [scanLayer_some hL, contentFrom_succ hL, List.filter_flatMap]
      rw [scanLeaves_tuples c (IH p hA) lk le rk re _ _ acc ⟨L.leaves.take _, (List.take_append_drop _ _).symm⟩ hpre]
      congr 2
      have hsplit : (layerEnts L.leaves).flatMap (Xe t fuel p lk le rk re) =
          (layerEnts (L.leaves.take (route (descentKT lk false) L.leaves))).flatMap (Xe t fuel p lk le rk re) ++
          (layerEnts (L.leaves.drop (route (descentKT lk false) L.leaves))).flatMap (Xe t fuel p lk le rk re) := by
        rw [← List.flatMap_append, ← layerEnts_append, List.take_append_drop]
      rw [flatMap_nil_of (start_skips c lk le rk re hle), List.nil_append] at hsplit
      exact hsplit.symm

/-! ### the fuel of `contentFrom` is irrelevant once it covers the depth -/

theorem flatMap_congr' {α β : Type} {l : List α} {f g : α → List β} (h : ∀ x ∈ l, f x = g x) :
    l.flatMap f = l.flatMap g := by
  induction l with
  | nil => rfl
  | cons a l ih =>
    rw [List.flatMap_cons, List.flatMap_cons, h a (by simp), ih (fun x hx => h x (by simp [hx]))]

theorem contentFrom_fuel {t : Tree} (hF : FCore (lay t)) : ∀ (fuel : Nat) (p : List UInt8),
    (lay t p).isSome → t.length + 1 ≤ fuel + p.length / 8 →
    contentFrom t (fuel + 1) p = contentFrom t fuel p := by
  intro fuel
  induction fuel with
  | zero =>
    intro p hp hb
    have := depth_bound hF hp
    omega
  | succ n ih =>
    intro p hp hb
    cases hL : findLayer t p with
    | none => rw [lay_isSome, hL] at hp; cases hp
    | some L =>
      have hlay := lay_of_findLayer hL
      have hc := hF.core _ _ hlay
      rw [contentFrom_succ hL, contentFrom_succ hL]
      apply flatMap_congr'
      intro e he
      obtain ⟨hw, hv⟩ := layerEnts_wf hc he
      unfold entContent
      cases hval : e.val with
      | some v => rfl
      | none =>
        simp only
        exact ih _ (hF.down _ _ hlay e he (hv.mp hval)) (by simp only [List.length_append, hw.1]; omega)

/-! ### the public entry point -/

theorem scan_unfold {t : Tree} {L : Layer} (hL : findLayer t [] = some L) (lk : Key) (le : EP) (rk : Key)
    (re : EP) (max : Nat) (r2l : Bool) (ha : scanArgsOk lk le rk re max r2l = true) :
    scan cfgFixed t lk le rk re max r2l =
      if ((L.leaves.getD (route (descentKT (if le == .inf then [] else lk) r2l) L.leaves) emptyLeaf).deleted &&
          L.leaves.length == 1) = true then
        { status := .OK, nodes := [mkRef L (route (descentKT (if le == .inf then [] else lk) r2l) L.leaves)] }
      else
        { status := .OK,
          tuples := (scanLayer cfgFixed t (t.length + 1) [] (if le == .inf then [] else lk) le rk re max r2l ⟨[], []⟩).1.tuples,
          nodes := (scanLayer cfgFixed t (t.length + 1) [] (if le == .inf then [] else lk) le rk re max r2l ⟨[], []⟩).1.nodes } := by
  unfold scan
  rw [ha]
  simp only [Bool.not_true, Bool.false_eq_true, if_false, hL]
  have : (cfgFixed.fixD5 && le == EP.inf) = (le == EP.inf) := by simp [cfgFixed]
  rw [this]

theorem inLeft_inf_key (lk : Key) (le : EP) (k : Key) :
    inLeft (if le == .inf then [] else lk) le k = inLeft lk le k := by
  cases le <;> rfl

theorem scan_status_ok (t : Tree) (lk : Key) (le : EP) (rk : Key) (re : EP) (max : Nat) (r2l : Bool)
    (h : Inv t) (ha : scanArgsOk lk le rk re max r2l = true) :
    (scan cfgFixed t lk le rk re max r2l).status = Status.OK := by
  obtain ⟨_, hF, _⟩ := (inv_iff t).mp h
  cases hL : findLayer t [] with
  | none => have := hF.root; rw [lay_isSome, hL] at this; cases this
  | some L =>
    rw [scan_unfold hL lk le rk re max r2l ha]
    generalize (if (le == EP.inf) = true then [] else lk) = lk0
    split <;> rfl

/-- a deleted single root border: the storage is empty -/
theorem content_of_deleted_root {t : Tree} (h : Inv t) {L : Layer} (hL : findLayer t [] = some L) {i : Nat}
    (hd : ((L.leaves.getD i emptyLeaf).deleted && L.leaves.length == 1) = true) : content t = [] := by
  obtain ⟨_, hF, hE⟩ := (inv_iff t).mp h
  simp only [Bool.and_eq_true, beq_iff_eq] at hd
  obtain ⟨hd1, hd2⟩ := hd
  have hlay := lay_of_findLayer hL
  unfold content
  rw [contentFrom_succ hL]
  cases hlv : L.leaves with
  | nil => rw [hlv] at hd2; cases hd2
  | cons l ls =>
    rw [hlv] at hd2 hd1
    have hls : ls = [] := List.eq_nil_of_length_eq_zero (by simpa using hd2)
    subst hls
    have hi : ([l] : List Leaf).getD i emptyLeaf = l ∨ ([l] : List Leaf).getD i emptyLeaf = emptyLeaf := by
      cases i with
      | zero => left; rfl
      | succ j => right; simp
    rcases hi with hi | hi
    · rw [hi] at hd1
      have := (hE [] _ hlay l (by rw [hlv]; simp)).2 hd1
      simp [layerEnts, this]
    · rw [hi] at hd1; cases hd1

theorem scan_spec_fwd (t : Tree) (lk : Key) (le : EP) (rk : Key) (re : EP) (max : Nat)
    (h : Inv t) (ha : scanArgsOk lk le rk re max false = true) :
    (scan cfgFixed t lk le rk re max false).tuples = scanSpec t lk le rk re max false := by
  obtain ⟨_, hF, _⟩ := (inv_iff t).mp h
  cases hL : findLayer t [] with
  | none => have := hF.root; rw [lay_isSome, hL] at this; cases this
  | some L =>
    rw [scan_unfold hL lk le rk re max false ha]
    generalize hlk0 : (if (le == EP.inf) = true then [] else lk) = lk0
    split
    · rename_i hd
      have := content_of_deleted_root h hL hd
      unfold scanSpec
      rw [this]
      simp
    · simp only
      have hpre : full max (⟨[], []⟩ : Acc).tuples.length = false := by
        apply full_false_iff.mpr
        simp only [List.length_nil]
        omega
      rw [scanLayer_tuples hF (t.length + 1) [] _ le rk re ⟨[], []⟩ hF.root (by simp)
        (by intro e; rw [← hlk0, e]; rfl) hpre]
      rw [contentFrom_fuel hF (t.length + 1) [] hF.root (by simp)]
      unfold scanSpec content
      simp only [List.nil_append, Bool.false_eq_true, if_false]
      have hJ : Jf [] lk0 le rk re = fun kv => inInterval lk le rk re kv.1 := by
        funext kv
        unfold Jf
        rw [inInterval_eq, List.length_nil, List.drop_zero, ← hlk0, inLeft_inf_key]
      rw [hJ]
      unfold lim
      by_cases hm : max = 0
      · simp [hm]
      · have : (max == 0) = false := by simp [hm]
        simp [hm, this]

end Yak.Tree
