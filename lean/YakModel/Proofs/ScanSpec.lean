import YakModel.Proofs.ScanSteps
import YakModel.Proofs.ScanEnds
/-!
# Forward scans return the interval of the in-order content (C03)
-/
namespace Yak.Tree
open Yak

/-! ### truncation to `max_size` -/

def lim {α : Type} (max : Nat) (l : List α) : List α := if max = 0 then l else l.take max

theorem full_false_iff {max n : Nat} : full max n = false ↔ (max = 0 ∨ n < max) := by
  unfold full
  by_cases h : max = 0
  · simp [h]
  · have : (max != 0) = true := by simp [h]
    simp only [this, Bool.true_and, decide_eq_false_iff_not]
    omega

theorem full_true_iff {max n : Nat} : full max n = true ↔ (max ≠ 0 ∧ max ≤ n) := by
  unfold full
  simp

theorem lim_of_not_full {α : Type} {max : Nat} {l : List α} (h : full max l.length = false) : lim max l = l := by
  unfold lim
  rcases full_false_iff.mp h with h | h
  · rw [if_pos h]
  · split
    · rfl
    · exact List.take_of_length_le (by omega)

theorem lim_append_of_full {α : Type} {max : Nat} {a : List α} (b : List α) (h : full max a.length = true) :
    lim max (a ++ b) = lim max a := by
  obtain ⟨h0, h1⟩ := full_true_iff.mp h
  unfold lim
  rw [if_neg h0, if_neg h0, List.take_append_of_le_length h1]

/-- the scan stopped with the truncated list: appending more candidates does not change it -/
theorem lim_extend {α : Type} {max : Nat} {a : List α} (b : List α) (h : full max (lim max a).length = true) :
    lim max a = lim max (a ++ b) := by
  obtain ⟨h0, h1⟩ := full_true_iff.mp h
  have : max ≤ a.length := by
    unfold lim at h1
    rw [if_neg h0, List.length_take] at h1
    omega
  rw [lim_append_of_full b (full_true_iff.mpr ⟨h0, this⟩)]

theorem eq_of_lim_not_full {α : Type} {max : Nat} {a : List α} (h : full max (lim max a).length = false) :
    lim max a = a := by
  rcases full_false_iff.mp h with h | h
  · unfold lim; rw [if_pos h]
  · apply lim_of_not_full
    apply full_false_iff.mpr
    by_cases h0 : max = 0
    · exact Or.inl h0
    · right
      unfold lim at h
      rw [if_neg h0, List.length_take] at h
      omega

theorem lim_snoc_full {α : Type} {max : Nat} {a : List α} (x : α) (b : List α)
    (h0 : full max a.length = false) (h1 : full max (a ++ [x]).length = true) :
    a ++ [x] = lim max (a ++ ([x] ++ b)) := by
  obtain ⟨hm, hl⟩ := full_true_iff.mp h1
  rcases full_false_iff.mp h0 with h | h
  · exact absurd h hm
  · rw [← List.append_assoc, lim_append_of_full b h1]
    unfold lim
    rw [if_neg hm]
    exact (List.take_of_length_le (by simp only [List.length_append, List.length_singleton] at hl ⊢; omega)).symm

/-! ### the interval of a layer-relative scan, on full keys -/

def Jf (p : List UInt8) (lk : Key) (le : EP) (rk : Key) (re : EP) (kv : Key × Val) : Bool :=
  inLeft lk le (kv.1.drop p.length) && inRight rk re kv.1

/-- what one entry must contribute -/
def Xe (t : Tree) (fuel : Nat) (p : List UInt8) (lk : Key) (le : EP) (rk : Key) (re : EP) (e : Ent) :
    List (Key × Val) :=
  (entContent t fuel p e).filter (Jf p lk le rk re)

theorem Xe_nil_of {t : Tree} {fuel : Nat} {p : List UInt8} {lk : Key} {le : EP} {rk : Key} {re : EP} {e : Ent}
    (h : ∀ kv ∈ entContent t fuel p e, Jf p lk le rk re kv = false) : Xe t fuel p lk le rk re e = [] := by
  unfold Xe
  rw [List.filter_eq_nil_iff]
  intro kv hkv
  rw [h kv hkv]; simp

theorem flatMap_nil_of {α β : Type} {l : List α} {f : α → List β} (h : ∀ x ∈ l, f x = []) : l.flatMap f = [] := by
  rw [List.flatMap_eq_nil_iff]; exact h

theorem entContent_val {t : Tree} {fuel : Nat} {p : List UInt8} {e : Ent} {v : Val} (h : e.val = some v) :
    entContent t fuel p e = [(p ++ e.kt.bytes, v)] := by
  unfold entContent; rw [h]

theorem entContent_link {t : Tree} {fuel : Nat} {p : List UInt8} {e : Ent} (h : e.val = none) :
    entContent t fuel p e = contentFrom t fuel (p ++ e.kt.slice) := by
  unfold entContent; rw [h]

/-- the context of one layer inside a scan -/
structure LCtx (t : Tree) (fuel : Nat) (p : List UInt8) (L : Layer) : Prop where
  hF : FCore (lay t)
  hL : findLayer t p = some L
  hA : t.length ≤ fuel + p.length / 8

theorem LCtx.pfx {t fuel p L} (c : LCtx t fuel p L) : L.pfx = p := (findLayer_some c.hL).1
theorem LCtx.lay {t fuel p L} (c : LCtx t fuel p L) : lay t p = some L.leaves := lay_of_findLayer c.hL
theorem LCtx.core {t fuel p L} (c : LCtx t fuel p L) : LayerCore L.leaves := c.hF.core _ _ c.lay

/-- shape of the keys one entry contributes (relative part) -/
theorem LCtx.keys {t fuel p L} (c : LCtx t fuel p L) {e : Ent} (he : e ∈ layerEnts L.leaves)
    {kv : Key × Val} (hk : kv ∈ entContent t fuel p e) :
    ∃ r', kv.1 = p ++ (e.kt.bytes ++ r') ∧ kv.1.drop p.length = e.kt.bytes ++ r' ∧
      ((e.kt.len ≤ 8 ∧ r' = []) ∨ (e.kt.len = 9 ∧ e.kt.bytes = e.kt.slice ∧ e.kt.slice.length = 8 ∧ r' ≠ [])) := by
  obtain ⟨k, v⟩ := kv
  obtain ⟨r', h1, h2⟩ := keys_of_entContent c.hF c.lay (by have := c.hA; omega) he hk
  refine ⟨r', h1, by simp only [h1]; simp, ?_⟩
  rcases h2 with h2 | ⟨h9, _, hr⟩
  · exact Or.inl h2
  · have hw := (layerEnts_wf c.core he).1
    exact Or.inr ⟨h9, bytes_of_link hw h9, hw.1, hr⟩

/-- every key of a later entry is above the lower bound `p ++ bytes` of an earlier one -/
theorem LCtx.later_gt {t fuel p L} (c : LCtx t fuel p L) {e e' : Ent} (he' : e' ∈ layerEnts L.leaves)
    (hlt : KT.ltSpec e.kt e'.kt = true) {kv : Key × Val} (hk : kv ∈ entContent t fuel p e') :
    lexLt (p ++ e.kt.bytes) kv.1 = true := by
  obtain ⟨r', h1, _, h2⟩ := c.keys he' hk
  rw [h1, lexLt_append_left]
  unfold KT.ltSpec at hlt
  simp only [Bool.or_eq_true, Bool.and_eq_true, beq_iff_eq, decide_eq_true_eq] at hlt
  rcases hlt with hlt | ⟨hbe, hlen⟩
  · exact lexLt_append_right_of_lt _ _ _ hlt
  · rw [hbe]
    rcases h2 with ⟨h8, _⟩ | ⟨_, _, _, hr⟩
    · exfalso
      have hw' := (layerEnts_wf c.core he').1
      have hl' := bytes_len_of_short hw' h8
      have : e.kt.bytes.length ≤ e.kt.len := by
        unfold KT.bytes
        simp only [List.length_take]
        have : Nat.min e.kt.len 8 ≤ e.kt.len := Nat.min_le_left _ _
        omega
      rw [hbe, hl'] at this
      omega
    · exact lexLt_append_self _ _ hr

/-- the keys under a link entry are proper extensions of its full key -/
theorem LCtx.link_gt {t fuel p L} (c : LCtx t fuel p L) {e : Ent} (he : e ∈ layerEnts L.leaves)
    (h9 : e.kt.len = 9) {kv : Key × Val} (hk : kv ∈ entContent t fuel p e) :
    lexLt (p ++ e.kt.bytes) kv.1 = true := by
  obtain ⟨r', h1, _, h2⟩ := c.keys he hk
  rw [h1, lexLt_append_left]
  rcases h2 with ⟨h8, _⟩ | ⟨_, _, _, hr⟩
  · omega
  · exact lexLt_append_self _ _ hr

theorem recFix_tuples (cfg : Cfg) (L : Layer) (i : Nat) (pushed : Bool) (a : Acc) :
    (recFix cfg L i pushed a).tuples = a.tuples := by
  unfold recFix; split <;> rfl

theorem Xe_val {t : Tree} {fuel : Nat} {p : List UInt8} {lk : Key} {le : EP} {rk : Key} {re : EP} {e : Ent}
    {v : Val} (h : e.val = some v) :
    Xe t fuel p lk le rk re e =
      if (inLeft lk le e.kt.bytes && inRight rk re (p ++ e.kt.bytes)) = true then [(p ++ e.kt.bytes, v)] else [] := by
  unfold Xe
  rw [entContent_val h]
  simp [Jf, List.filter_cons]

/-- the hypothesis on the next layers a scan of one layer relies on -/
def SubOK (cfg : Cfg) (t : Tree) (fuel : Nat) (p : List UInt8) (max : Nat) : Prop :=
  ∀ f, fuel = f + 1 → ∀ (q : List UInt8) (alk : Key) (ale : EP) (ark : Key) (are : EP) (acc : Acc),
    (lay t q).isSome → q.length = p.length + 8 → (ale = .inf → alk = []) →
    full max acc.tuples.length = false →
    (scanLayer cfg t f q alk ale ark are max false acc).1.tuples =
      lim max (acc.tuples ++ (contentFrom t (f + 1) q).filter (Jf q alk ale ark are))

theorem scanEnts_tuples {cfg : Cfg} {t : Tree} {fuel : Nat} {p : List UInt8} {L : Layer} (c : LCtx t fuel p L)
    {max : Nat} (IH : SubOK cfg t fuel p max) (i : Nat) (lk : Key) (le : EP) (rk : Key) (re : EP) :
    ∀ (ents later : List Ent) (acc : Acc) (pushed : Bool),
      (∀ e ∈ ents ++ later, e ∈ layerEnts L.leaves) →
      (ents ++ later).Pairwise (fun a b => KT.ltSpec a.kt b.kt = true) →
      full max acc.tuples.length = false →
      ((scanEnts cfg t fuel L i ents lk le rk re max false acc pushed).2.2 = .cont →
        (scanEnts cfg t fuel L i ents lk le rk re max false acc pushed).1.tuples =
          acc.tuples ++ ents.flatMap (Xe t fuel p lk le rk re) ∧
        full max (scanEnts cfg t fuel L i ents lk le rk re max false acc pushed).1.tuples.length = false) ∧
      ((scanEnts cfg t fuel L i ents lk le rk re max false acc pushed).2.2 = .stop →
        (scanEnts cfg t fuel L i ents lk le rk re max false acc pushed).1.tuples =
          lim max (acc.tuples ++ (ents ++ later).flatMap (Xe t fuel p lk le rk re))) := by
  intro ents
  induction ents with
  | nil =>
    intro later acc pushed _ _ hpre
    rw [scanEnts_nil]
    refine ⟨fun _ => ⟨by simp, hpre⟩, fun h => by cases h⟩
  | cons e es ih =>
    intro later acc pushed hsub hsorted hpre
    have he : e ∈ layerEnts L.leaves := hsub e (by simp)
    obtain ⟨hw, hv9⟩ := layerEnts_wf c.core he
    have hsub' : ∀ x ∈ es ++ later, x ∈ layerEnts L.leaves := fun x hx => hsub x (by rw [List.cons_append]; exact List.mem_cons_of_mem _ hx)
    rw [List.cons_append, List.pairwise_cons] at hsorted
    obtain ⟨hlater, hsorted'⟩ := hsorted
    -- everything from `e` on is beyond the right end
    have allnil : (∀ kv ∈ entContent t fuel p e, inRight rk re kv.1 = false) →
        (∀ e' ∈ es ++ later, ∀ kv ∈ entContent t fuel p e', inRight rk re kv.1 = false) →
        acc.tuples = lim max (acc.tuples ++ (e :: es ++ later).flatMap (Xe t fuel p lk le rk re)) := by
      intro h1 h2
      have : (e :: es ++ later).flatMap (Xe t fuel p lk le rk re) = [] := by
        apply flatMap_nil_of
        intro x hx
        apply Xe_nil_of
        intro kv hkv
        have : inRight rk re kv.1 = false := by
          rcases List.mem_cons.mp (by simpa using hx) with e0 | hx'
          · subst e0; exact h1 kv hkv
          · exact h2 x (by simpa using hx') kv hkv
        simp [Jf, this]
      rw [this, List.append_nil, lim_of_not_full hpre]
    cases hval : e.val with
    | some v =>
      have h8 : e.kt.len ≤ 8 := by
        have : e.kt.len ≠ 9 := fun h => by rw [hv9.mpr h] at hval; cases hval
        have := hw.2.1; omega
      have hfk : L.pfx ++ e.kt.slice.take (Nat.min e.kt.len 8) = p ++ e.kt.bytes := by rw [c.pfx]; rfl
      rw [scanEnts_val cfg t fuel L i e es v hval, hfk, beforeLeft_eq hw h8, withinRight_eq]
      have hX := Xe_val (t := t) (fuel := fuel) (p := p) (lk := lk) (le := le) (rk := rk) (re := re) hval
      cases hl : inLeft lk le e.kt.bytes with
      | false =>
        rw [hl] at hX
        simp only [Bool.false_and, Bool.false_eq_true, if_false] at hX
        simp only [Bool.not_false, if_true]
        have := ih later acc pushed hsub' hsorted' hpre
        rw [List.flatMap_cons, List.cons_append, List.flatMap_cons, hX, List.nil_append, List.nil_append]
        exact this
      | true =>
        rw [hl] at hX
        simp only [Bool.not_true, Bool.false_eq_true, if_false]
        cases hr : inRight rk re (p ++ e.kt.bytes) with
        | true =>
          rw [hr] at hX
          simp only [Bool.and_self, if_true] at hX
          simp only [if_true]
          cases hfull : full max (acc.tuples ++ [(p ++ e.kt.bytes, v)]).length with
          | true =>
            simp only [if_true]
            refine ⟨fun h => by cases h, fun _ => ?_⟩
            rw [List.cons_append, List.flatMap_cons, hX]
            exact lim_snoc_full _ _ hpre hfull
          | false =>
            simp only [Bool.false_eq_true, if_false]
            have := ih later ⟨acc.tuples ++ [(p ++ e.kt.bytes, v)], acc.nodes ++ [mkRef L i]⟩ true hsub' hsorted' hfull
            rw [List.flatMap_cons, List.cons_append, List.flatMap_cons, hX]
            simp only [List.append_assoc] at this ⊢
            exact this
        | false =>
          simp only [Bool.false_eq_true, if_false]
          refine ⟨fun h => by cases h, fun _ => ?_⟩
          have ht : (if pushed = true then acc else { acc with nodes := acc.nodes ++ [mkRef L i] }).tuples = acc.tuples := by
            split <;> rfl
          rw [ht]
          apply allnil
          · intro kv hkv
            rw [entContent_val hval, List.mem_singleton] at hkv
            rw [hkv]; exact hr
          · intro e' he' kv hkv
            exact inRight_mono (c.later_gt (hsub' e' he') (hlater e' he') hkv) hr
    | none =>
      have h9 : e.kt.len = 9 := hv9.mp hval
      have hb : e.kt.bytes = e.kt.slice := bytes_of_link hw h9
      have hs8 : e.kt.slice.length = 8 := hw.1
      have hfk : L.pfx ++ e.kt.slice.take (Nat.min e.kt.len 8) = p ++ e.kt.slice := by
        rw [c.pfx]
        show p ++ e.kt.bytes = _
        rw [hb]
      rw [scanEnts_link cfg t fuel L i e es hval, hfk]
      cases hla : linkArgs lk le rk re e.kt.slice (p ++ e.kt.slice) with
      | skip =>
        simp only
        have hX : Xe t fuel p lk le rk re e = [] := by
          apply Xe_nil_of
          intro kv hkv
          obtain ⟨r', _, h2, _⟩ := c.keys he hkv
          have := linkArgs_skip hs8 hla r'
          simp [Jf, h2, hb, this]
        have := ih later acc pushed hsub' hsorted' hpre
        rw [List.flatMap_cons, List.cons_append, List.flatMap_cons, hX, List.nil_append, List.nil_append]
        exact this
      | stop =>
        simp only
        refine ⟨fun h => by cases h, fun _ => ?_⟩
        rw [recFix_tuples]
        obtain ⟨hre, hF⟩ := linkArgs_stop hla
        apply allnil
        · intro kv hkv
          have := c.link_gt he h9 hkv
          rw [hb] at this
          exact inRight_false_of_le hre hF this
        · intro e' he' kv hkv
          have := c.later_gt (hsub' e' he') (hlater e' he') hkv
          rw [hb] at this
          exact inRight_false_of_le hre hF this
      | go alk ale ark are =>
        have hdown : (lay t (p ++ e.kt.slice)).isSome := c.hF.down _ _ c.lay e he h9
        cases fuel with
        | zero =>
          exfalso
          have h1 := depth_bound c.hF hdown
          have h2 := c.hA
          simp only [List.length_append, hs8] at h1
          omega
        | succ f =>
          simp only
          obtain ⟨h0, hgo⟩ := linkArgs_go hs8 hla
          have hS := IH f rfl (p ++ e.kt.slice) alk ale ark are acc hdown (by simp [hs8]) h0 hpre
          have hcongr : (contentFrom t (f + 1) (p ++ e.kt.slice)).filter (Jf (p ++ e.kt.slice) alk ale ark are) =
              Xe t (f + 1) p lk le rk re e := by
            unfold Xe
            rw [entContent_link hval]
            apply List.filter_congr
            intro kv hkv
            have hkv' : kv ∈ entContent t (f + 1) p e := by rw [entContent_link hval]; exact hkv
            obtain ⟨r', h1, h2, h3⟩ := c.keys he hkv'
            rcases h3 with ⟨h8, _⟩ | ⟨_, _, _, hr'⟩
            · omega
            · obtain ⟨g1, g2⟩ := hgo r' hr'
              have h1' : kv.1 = (p ++ e.kt.slice) ++ r' := by rw [h1, hb, List.append_assoc]
              have hd : kv.1.drop (p ++ e.kt.slice).length = r' := by rw [h1']; simp
              unfold Jf
              rw [hd, h2, hb, g1, h1', g2]
          rw [hcongr] at hS
          cases hfull : full max (scanLayer cfg t f (p ++ e.kt.slice) alk ale ark are max false acc).1.tuples.length with
          | true =>
            simp only [if_true]
            refine ⟨fun h => by cases h, fun _ => ?_⟩
            rw [recFix_tuples, hS, List.cons_append, List.flatMap_cons, ← List.append_assoc]
            apply lim_extend
            rw [← hS]; exact hfull
          | false =>
            simp only [Bool.false_eq_true, if_false]
            have hS' : (scanLayer cfg t f (p ++ e.kt.slice) alk ale ark are max false acc).1.tuples =
                acc.tuples ++ Xe t (f + 1) p lk le rk re e := by
              rw [hS]; apply eq_of_lim_not_full; rw [← hS]; exact hfull
            have := ih later (scanLayer cfg t f (p ++ e.kt.slice) alk ale ark are max false acc).1 pushed
              hsub' hsorted' hfull
            rw [hS'] at this
            rw [List.flatMap_cons, List.cons_append, List.flatMap_cons]
            simp only [List.append_assoc] at this ⊢
            exact this

end Yak.Tree
