import YakModel.Scan
import YakModel.Proofs.TreeProofs
/-!
# Concrete witnesses for the two scan defects (D2, D5) on the unrepaired configurations

The trees are produced by `put` from the empty storage (`decide +kernel` evaluates the
well-founded `putAt`); `scan` is a mutual well-founded recursion the kernel does not evaluate, so
the scans are evaluated by `simp` with the defining equations on the explicit tree literal.
-/
namespace Yak.Tree
open Yak

private def ent1 (b : UInt8) : Ent := ⟨⟨[b, 0, 0, 0, 0, 0, 0, 0], 1⟩, some ⟨[], 8⟩⟩

/-- sixteen one-byte keys `[0] … [15]`: the root border has split once (two leaves). -/
def d5Tree : Tree :=
  (List.range 16).foldl (fun t i => (put t [UInt8.ofNat i] ⟨[], 8⟩ false).tree) Tree.empty

private def d5Lit : Tree :=
  [⟨[], [⟨none, 16, 1, false, [ent1 0, ent1 1, ent1 2, ent1 3, ent1 4, ent1 5, ent1 6, ent1 7]⟩,
    ⟨some ⟨[8, 0, 0, 0, 0, 0, 0, 0], 1⟩, 16, 1, false,
      [ent1 8, ent1 9, ent1 10, ent1 11, ent1 12, ent1 13, ent1 14, ent1 15]⟩]⟩]

private theorem d5Tree_eq : d5Tree = d5Lit := by decide +kernel

theorem d5Tree_inv : Inv d5Tree := (checkInv_iff d5Tree).mp (by decide +kernel)

private theorem d5_len_key : (scan cfgD5 d5Lit [11] .inf [] .inf 0 false).tuples.length = 8 := by
  simp [scan, scanLayer, scanLeaves, scanEnts, d5Lit, ent1, scanArgsOk, checkEmptyRange, findLayer,
    cfgD5, descentKT, route, routeFrom, routeLeft, beforeLeft, withinRight, padTo, memcmp]

private theorem d5_len_nokey : (scan cfgD5 d5Lit [] .inf [] .inf 0 false).tuples.length = 16 := by
  simp [scan, scanLayer, scanLeaves, scanEnts, d5Lit, ent1, scanArgsOk, checkEmptyRange, findLayer,
    cfgD5, descentKT, route, routeFrom, routeLeft, beforeLeft, withinRight, padTo]

/-- with a left INF the unrepaired scan still descends by `l_key`: it starts in the second leaf
    and misses the eight keys of the first. -/
theorem D5_counterexample :
    ∃ (t : Tree) (lk : Key), Inv t ∧
      (scan cfgD5 t lk .inf [] .inf 0 false).tuples ≠ (scan cfgD5 t [] .inf [] .inf 0 false).tuples := by
  refine ⟨d5Tree, [11], d5Tree_inv, ?_⟩
  rw [d5Tree_eq]
  intro h
  have := congrArg List.length h
  rw [d5_len_key, d5_len_nokey] at this
  cases this

/-- the single key `"aaaaaaaa" ++ "x"`: one link entry in layer `[]`, one entry in the next layer. -/
def d2Tree : Tree := (put Tree.empty [97, 97, 97, 97, 97, 97, 97, 97, 120] ⟨[], 8⟩ false).tree

private def d2Lit : Tree :=
  [⟨[], [⟨none, 1, 0, false, [⟨⟨[97, 97, 97, 97, 97, 97, 97, 97], 9⟩, none⟩]⟩]⟩,
   ⟨[97, 97, 97, 97, 97, 97, 97, 97], [⟨none, 1, 0, false, [⟨⟨[120, 0, 0, 0, 0, 0, 0, 0], 1⟩, some ⟨[], 8⟩⟩]⟩]⟩]

private theorem d2Tree_eq : d2Tree = d2Lit := by decide +kernel

theorem d2Tree_inv : Inv d2Tree := (checkInv_iff d2Tree).mp (by decide +kernel)

/-- the scan `["" incl, "a" incl]` stops at the link entry (right endpoint passed) without having
    recorded the leaf: the node set is empty although the scan covered `"a"`. -/
theorem D2_counterexample :
    ∃ (t : Tree) (lk rk : Key) (le re : EP), Inv t ∧ scanArgsOk lk le rk re 0 false = true ∧
      (scan cfgD2 t lk le rk re 0 false).nodes = [] := by
  refine ⟨d2Tree, [], [97], .incl, .incl, d2Tree_inv, by decide, ?_⟩
  rw [d2Tree_eq]
  simp [scan, scanLayer, scanLeaves, scanEnts, d2Lit, scanArgsOk, checkEmptyRange, lexLt, findLayer,
    cfgD2, route, routeFrom, linkArgs, padTo, memcmp, memcmpMin]

/-- a well-formed tree (`Inv`) that no sequence of operations produces: the second leaf's lower
    fence is the maximal tuple `(0xFF×8, link)`. The right-to-left descent routes by `(0xFF×8, 8)`,
    which is below that fence, and ends in the first leaf. -/
def r2lTree : Tree :=
  [⟨[], [⟨none, 1, 0, false, [⟨⟨[97, 0, 0, 0, 0, 0, 0, 0], 1⟩, some ⟨[], 8⟩⟩]⟩,
         ⟨some KT.max, 1, 0, false, [⟨KT.max, none⟩]⟩]⟩,
   ⟨[255, 255, 255, 255, 255, 255, 255, 255], [⟨none, 1, 0, false, [⟨⟨[120, 0, 0, 0, 0, 0, 0, 0], 1⟩, some ⟨[], 8⟩⟩]⟩]⟩]

theorem r2lTree_inv : Inv r2lTree := (checkInv_iff r2lTree).mp (by decide +kernel)

private theorem r2l_scan : (scan cfgFixed r2lTree [] .inf [] .inf 1 true).tuples = [([97], ⟨[], 8⟩)] := by
  simp [scan, scanLayer, scanLeaves, scanEnts, r2lTree, KT.max, scanArgsOk, checkEmptyRange, findLayer,
    cfgFixed, descentKT, route, routeFrom, routeLeft, beforeLeft, withinRight, memcmp]

private theorem r2l_spec :
    scanSpec r2lTree [] .inf [] .inf 1 true = [([255, 255, 255, 255, 255, 255, 255, 255, 120], ⟨[], 8⟩)] := by
  decide +kernel

/-- `Inv` alone does not make right-to-left scans correct: with a maximal-tuple fence the
    greatest key is missed (why `scan_spec` carries the hypothesis `NoMaxFence` for `r2l`). -/
theorem r2l_max_fence_counterexample :
    ∃ t : Tree, Inv t ∧ scanArgsOk [] .inf [] .inf 1 true = true ∧
      (scan cfgFixed t [] .inf [] .inf 1 true).tuples ≠ scanSpec t [] .inf [] .inf 1 true := by
  refine ⟨r2lTree, r2lTree_inv, by decide, ?_⟩
  rw [r2l_scan, r2l_spec]
  decide

end Yak.Tree
