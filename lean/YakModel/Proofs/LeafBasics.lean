import YakModel.Proto.Lin
/-!
# `Leaf`: relational presentation of `step?`, small-step bookkeeping

`Step c s s'` has one constructor per enabled branch of `step?` (28 of them), each with the guard as
hypotheses and the successor state as an explicit structure update. `step?_Step` turns an accepted
event into a `Step`; every invariant proof afterwards is a `cases` on `Step`.
-/
namespace Yak.Proto.Leaf

theorem upd_same {α} (f : Nat → α) (t : Nat) (v : α) : upd f t v t = v := by simp [upd]
theorem upd_other {α} (f : Nat → α) (t : Nat) (v : α) (i : Nat) (h : i ≠ t) : upd f t v i = f i := by
  simp [upd, h]

/-- which writers want the lock after a validated lookup -/
def wantsLock : OpKind → Option Slot → Bool
  | .put _ _ true, some _ => false
  | .put _ _ _, _ => true
  | .remove _, some _ => true
  | _, _ => false

inductive Step (c : Cfg) (s : State) : Nat → State → Prop
  | invoke {t : Nat} (op : OpKind)
      (hpc : s.pc t = .idle) :
      Step c s t { s with pc := upd s.pc t (.start op), inv := upd s.inv t s.now,
                          running := t :: s.running, now := s.now + 1 }
  | ldVer {t : Nat} (op : OpKind)  (hst : s.ver.stable = true)
      (hpc : s.pc t = .start op) :
      Step c s t { s with pc := upd s.pc t (.haveV op s.ver.vins), now := s.now + 1 }
  | ldPerm {t : Nat} (op : OpKind) (v1 : Nat)
      (hpc : s.pc t = .haveV op v1) :
      Step c s t { s with pc := upd s.pc t (.haveP op v1 s.perm), now := s.now + 1 }
  | ldKeys {t : Nat} (op : OpKind) (v1 : Nat) (p : List Slot)
      (hpc : s.pc t = .haveP op v1 p) :
      Step c s t { s with pc := upd s.pc t (.looked op v1 (lookupIn s.keys p (opKey op))), now := s.now + 1 }
  | ldVer2Ok {t : Nat} (op : OpKind) (v1 : Nat) (hit : Option Slot)
      (hst : s.ver.stable = true) (hv : s.ver.vins = v1)
      (hpc : s.pc t = .looked op v1 hit) :
      Step c s t { s with pc := upd s.pc t (.valid op v1 hit), now := s.now + 1 }
  | ldVer2Fail {t : Nat} (op : OpKind) (v1 : Nat) (hit : Option Slot)
      (hst : s.ver.stable = true) (hv : s.ver.vins ≠ v1)
      (hpc : s.pc t = .looked op v1 hit) :
      Step c s t { s with pc := upd s.pc t (.haveV op s.ver.vins), now := s.now + 1 }
  | ldValRefetch {t : Nat} (k : Key) (v1 : Nat) (sl : Slot)
      (hfix : c.fixD1 = true) (hnone : s.vals sl = none)
      (hpc : s.pc t = .valid (.get k) v1 (some sl)) :
      Step c s t { s with pc := upd s.pc t (.start (.get k)), now := s.now + 1 }
  | ldValOk {t : Nat} (k : Key) (v1 : Nat) (sl : Slot)
      (hfix : c.fixD1 = true → s.vals sl ≠ none)
      (hpc : s.pc t = .valid (.get k) v1 (some sl)) :
      Step c s t { s with pc := upd s.pc t (.gotVal (.get k) v1 (s.vals sl)), now := s.now + 1 }
  | getMiss {t : Nat} (k : Key) (v1 : Nat)
      (hpc : s.pc t = .valid (.get k) v1 none) :
      Step c s t { s with pc := upd s.pc t (.done (.get k) .notExist), now := s.now + 1 }
  | getFail {t : Nat} (k : Key) (v1 : Nat) (x : Option Val)
      (hst : s.ver.stable = true) (hv : s.ver.vins ≠ v1)
      (hpc : s.pc t = .gotVal (.get k) v1 x) :
      Step c s t { s with pc := upd s.pc t (.start (.get k)), now := s.now + 1 }
  | getOk {t : Nat} (k : Key) (v1 : Nat) (x : Option Val)
      (hst : s.ver.stable = true) (hv : s.ver.vins = v1)
      (hpc : s.pc t = .gotVal (.get k) v1 x) :
      Step c s t { s with pc := upd s.pc t (.done (.get k) (.ok x)), now := s.now + 1 }
  | remFail {t : Nat} (k : Key) (v1 : Nat)
      (hst : s.ver.stable = true) (hv : s.ver.vins ≠ v1)
      (hpc : s.pc t = .valid (.remove k) v1 none) :
      Step c s t { s with pc := upd s.pc t (.start (.remove k)), now := s.now + 1 }
  | remMiss {t : Nat} (k : Key) (v1 : Nat)
      (hst : s.ver.stable = true) (hv : s.ver.vins = v1)
      (hpc : s.pc t = .valid (.remove k) v1 none) :
      Step c s t { s with pc := upd s.pc t (.done (.remove k) .notFound), now := s.now + 1 }
  | uniqueHit {t : Nat} (k : Key) (v : Val) (v1 : Nat) (sl : Slot)
      (hpc : s.pc t = .valid (.put k v true) v1 (some sl)) :
      Step c s t { s with pc := upd s.pc t (.done (.put k v true) .uniqueRestriction), now := s.now + 1 }
  | lockFail {t : Nat} (op : OpKind) (v1 : Nat) (hit : Option Slot)
      (hw : wantsLock op hit = true) (hl : s.ver.locked = false) (hv : s.ver.vins ≠ v1)
      (hpc : s.pc t = .valid op v1 hit) :
      Step c s t { s with pc := upd s.pc t (.start op), now := s.now + 1 }
  | lockOk {t : Nat} (op : OpKind) (v1 : Nat) (hit : Option Slot)
      (hw : wantsLock op hit = true) (hl : s.ver.locked = false) (hv : s.ver.vins = v1)
      (hpc : s.pc t = .valid op v1 hit) :
      Step c s t { s with ver := { s.ver with locked := true }, pc := upd s.pc t (.locked op hit),
                          now := s.now + 1 }
  | relook {t : Nat} (op : OpKind) (sl : Slot)
      (hpc : s.pc t = .locked op (some sl)) :
      Step c s t { s with pc := upd s.pc t (.relooked op (lookupIn s.keys s.perm (opKey op))), now := s.now + 1 }
  | setIns {t : Nat} (k : Key) (v : Val) (u : Bool)
      (hcap : s.perm.length < c.cap)
      (hpc : s.pc t = .locked (.put k v u) none) :
      Step c s t { s with ver := { s.ver with ins := true }, pc := upd s.pc t (.insFlag (.put k v u)),
                          now := s.now + 1 }
  | stKey {t : Nat} (k : Key) (v : Val) (u : Bool) (sl : Slot)
      (hfree : freeSlot s c.cap = some sl)
      (hpc : s.pc t = .insFlag (.put k v u)) :
      Step c s t { s with keys := upd s.keys sl (some k), pc := upd s.pc t (.keyed (.put k v u) sl),
                          now := s.now + 1 }
  | stValIns {t : Nat} (k : Key) (v : Val) (u : Bool) (sl : Slot)
      (hpc : s.pc t = .keyed (.put k v u) sl) :
      Step c s t { s with vals := upd s.vals sl (some v), pc := upd s.pc t (.valued (.put k v u) sl),
                          now := s.now + 1 }
  | stValUpd {t : Nat} (k : Key) (v : Val) (sl : Slot)
      (hpc : s.pc t = .relooked (.put k v false) (some sl)) :
      Step c s t { s with vals := upd s.vals sl (some v),
                          pc := upd s.pc t (.published (.put k v false) (.ok none)), now := s.now + 1 }
  | stPermIns {t : Nat} (k : Key) (v : Val) (u : Bool) (sl : Slot)
      (hpc : s.pc t = .valued (.put k v u) sl) :
      Step c s t { s with perm := insertSorted s.keys s.perm sl k,
                          pc := upd s.pc t (.published (.put k v u) (.ok none)), now := s.now + 1 }
  | stPermRem {t : Nat} (k : Key) (sl : Slot)
      (hpc : s.pc t = .cleared (.remove k) sl) :
      Step c s t { s with perm := s.perm.filter (· != sl),
                          pc := upd s.pc t (.published (.remove k) (.ok none)), now := s.now + 1 }
  | clearVal {t : Nat} (k : Key) (sl : Slot)
      (hpc : s.pc t = .relooked (.remove k) (some sl)) :
      Step c s t { s with vals := upd s.vals sl none, pc := upd s.pc t (.cleared (.remove k) sl),
                          now := s.now + 1 }
  | unlockPub {t : Nat} (op : OpKind) (r : Res)
      (hpc : s.pc t = .published op r) :
      Step c s t { s with ver := { vins := if s.ver.ins then s.ver.vins + 1 else s.ver.vins,
                                   locked := false, ins := false },
                          pc := upd s.pc t (.done op r), now := s.now + 1 }
  | unlockRemMiss {t : Nat} (k : Key)
      (hpc : s.pc t = .relooked (.remove k) none) :
      Step c s t { s with ver := { s.ver with locked := false },
                          pc := upd s.pc t (.done (.remove k) .notFound), now := s.now + 1 }
  | unlockRetry {t : Nat} (k : Key) (v : Val)
      (hpc : s.pc t = .relooked (.put k v false) none) :
      Step c s t { s with ver := { s.ver with locked := false },
                          pc := upd s.pc t (.start (.put k v false)), now := s.now + 1 }
  | ret {t : Nat} (op : OpKind) (r : Res)
      (hpc : s.pc t = .done op r) :
      Step c s t { s with pc := upd s.pc t .idle, hist := s.hist ++ [(t, op, r, s.inv t, s.now)],
                          running := s.running.filter (· != t), now := s.now + 1 }

theorem step?_lock_eq (c : Cfg) (s : State) (t : Nat) (op v1 hit) (hpc : s.pc t = .valid op v1 hit) :
    step? c s (.lock t) =
        if !wantsLock op hit || s.ver.locked then none
        else if s.ver.vins != v1 then some { s with pc := upd s.pc t (.start op), now := s.now + 1 }
        else some { s with ver := { s.ver with locked := true }, pc := upd s.pc t (.locked op hit), now := s.now + 1 } := by
  simp only [step?, hpc]
  try (cases op <;> cases hit <;> first | rfl | (rename_i u _; cases u <;> rfl))

theorem step?_lock_none (c : Cfg) (s : State) (t : Nat) (h : ∀ op v1 hit, s.pc t ≠ .valid op v1 hit) :
    step? c s (.lock t) = none := by
  simp only [step?]

macro "fin" : tactic => `(tactic| first | assumption | (simp_all; done))

def Event.thread : Event → Nat
  | .invoke t _ | .ldVer t | .ldPerm t | .ldKeys t | .ldVer2 t | .ldVal t | .ldVer3 t | .lock t | .relook t
  | .setIns t | .stKey t | .stVal t | .stPerm t | .clearVal t | .unlock t | .ret t => t

theorem step?_Step {c s e s'} (h : step? c s e = some s') : Step c s e.thread s' := by
  cases e
  case lock t =>
    by_cases hv : ∃ op v1 hit, s.pc t = .valid op v1 hit
    case neg =>
      rw [step?_lock_none] at h
      · cases h
      · intro op v1 hit hpc; exact hv ⟨op, v1, hit, hpc⟩
    obtain ⟨op, v1, hit, hpc⟩ := hv
    rw [step?_lock_eq c s t op v1 hit hpc] at h
    (repeat' (split at h)) <;> (try (cases h; done)) <;> simp only [Option.some.injEq] at h <;> subst h
    · apply Step.lockFail (hpc := hpc) <;> fin
    · apply Step.lockOk (hpc := hpc) <;> fin
  all_goals
    simp only [step?] at h <;> (repeat' (split at h)) <;> (try (cases h; done)) <;>
    simp only [Option.some.injEq] at h <;> subst h
  all_goals first
    | (apply Step.invoke (hpc := by assumption) <;> fin)
    | (apply Step.ldVer (hpc := by assumption) <;> fin)
    | (apply Step.ldPerm (hpc := by assumption) <;> fin)
    | (apply Step.ldKeys (hpc := by assumption) <;> fin)
    | (apply Step.ldVer2Ok (hpc := by assumption) <;> fin)
    | (apply Step.ldVer2Fail (hpc := by assumption) <;> fin)
    | (apply Step.ldValRefetch (hpc := by assumption) <;> fin)
    | (apply Step.ldValOk (hpc := by assumption) <;> fin)
    | (apply Step.getMiss (hpc := by assumption) <;> fin)
    | (apply Step.getFail (hpc := by assumption) <;> fin)
    | (apply Step.getOk (hpc := by assumption) <;> fin)
    | (apply Step.remFail (hpc := by assumption) <;> fin)
    | (apply Step.remMiss (hpc := by assumption) <;> fin)
    | (apply Step.uniqueHit (hpc := by assumption) <;> fin)
    | (apply Step.relook (hpc := by assumption) <;> fin)
    | (apply Step.setIns (hpc := by assumption) <;> fin)
    | (apply Step.stKey (hpc := by assumption) <;> fin)
    | (apply Step.stValIns (hpc := by assumption) <;> fin)
    | (apply Step.stValUpd (hpc := by assumption) <;> fin)
    | (apply Step.stPermIns (hpc := by assumption) <;> fin)
    | (apply Step.stPermRem (hpc := by assumption) <;> fin)
    | (apply Step.clearVal (hpc := by assumption) <;> fin)
    | (apply Step.unlockRemMiss (hpc := by assumption) <;> fin)
    | (apply Step.unlockRetry (hpc := by assumption) <;> fin)
    | (apply Step.ret (hpc := by assumption) <;> fin)
    | (rename_i hi; have h2 := Step.unlockPub (c := c) _ _ (by assumption); simp only [hi] at h2; exact h2)

theorem reach_induction {c : Cfg} {P : State → Prop} (h0 : P init)
    (hs : ∀ s t s', Reach c s → P s → Step c s t s' → P s') : ∀ s, Reach c s → P s := by
  intro s h
  induction h with
  | init => exact h0
  | step hr he ih => exact hs _ _ _ hr ih (step?_Step he)

theorem reach_exec {c s} (h : Reach c s) : ∀ es s', exec c s es = some s' → Reach c s' := by
  intro es
  induction es generalizing s with
  | nil => intro s' h'; simp [exec] at h'; subst h'; exact h
  | cons e es ih =>
    intro s' h'
    simp only [exec] at h'
    cases hs : step? c s e with
    | none => simp [hs] at h'
    | some s1 => simp [hs] at h'; exact ih (Reach.step h hs) s' h'

end Yak.Proto.Leaf
