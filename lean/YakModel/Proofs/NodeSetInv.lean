import YakModel.Proofs.NodeSetBasics
/-!
# `NodeSet`: the invariants behind C06 and their frame lemmas

`ChainInv` (in `NodeSetBasics`) is the shape of the chain, `WInv` the lock discipline of the
writers, `CInv` the bookkeeping of completed inserts, `SInv` the scanner invariant: everything
below the scanner's frontier is covered by a collected pair (`cov`) and every stored key below
the frontier is in the result, unless a collected pair is stale or the key is still in flight on
a collected leaf (`seen`).
-/
namespace Yak.Proto.NodeSet

/-! ## invariants -/

def PresentC (ch : List Leaf) (k : Nat) : Prop := ∃ L ∈ ch, k ∈ L.keys

/-- leaves a writer pc holds locked -/
def WPc.Holds : WPc → Nat → Prop
  | .idle, _ => False
  | .held _ i, x => x = i
  | .published _ i, x => x = i
  | .splitDone _ i j, x => x = i ∨ x = j
  | .splitHalf _ j, x => x = j

structure WInv (ch : List Leaf) (w : Nat → WPc) : Prop where
  locked : ∀ t i, (w t).Holds i → ∃ L ∈ ch, L.id = i ∧ L.locked = true
  mutex : ∀ t1 t2 i, (w t1).Holds i → (w t2).Holds i → t1 = t2
  held : ∀ t k i, w t = .held k i → ∃ L ∈ ch, L.id = i ∧ Owns ch L k ∧ k ∉ L.keys
  pubDirty : ∀ t k i, w t = .published k i → ∃ L ∈ ch, L.id = i ∧ L.dirty = true
  splDirty : ∀ t k i j, w t = .splitDone k i j → i ≠ j ∧ ∃ L ∈ ch, L.id = i ∧ L.dirty = true

structure CInv (ch : List Leaf) (w : Nat → WPc) (comp : List Nat) : Prop where
  present : ∀ k ∈ comp, PresentC ch k
  flightPresent : ∀ t k, (w t).inFlight k → PresentC ch k
  flightNot : ∀ t k, (w t).inFlight k → k ∉ comp
  flightUniq : ∀ t1 t2 k, (w t1).inFlight k → (w t2).inFlight k → t1 = t2

/-- a key that its owner does not store is stored nowhere -/
theorem not_present_of_owner {ch : List Leaf} {nid : Nat} (hc : ChainInv ch nid) {L : Leaf}
    (hL : L ∈ ch) {k : Nat} (ho : Owns ch L k) (hk : k ∉ L.keys) : ¬ PresentC ch k := by
  rintro ⟨M, hM, hkM⟩
  have := owner_lo_unique hL hM ho (hc.keysIn M hM k hkM)
  have := hc.eq_of_lo hL hM this
  subst this
  exact hk hkM

/-- frame rule for the writer invariant: writer `t` moves to pc `x`, only leaf `i0` changes. -/
theorem winv_frame {ch ch' : List Leaf} {w : Nat → WPc} (hw : WInv ch w) (t : Nat) (x : WPc) (i0 : Nat)
    (hkeep : ∀ M ∈ ch, M.id ≠ i0 → M ∈ ch' ∧ ∀ y, Owns ch M y → Owns ch' M y)
    (hoth : ∀ t' i, t' ≠ t → (w t').Holds i → i ≠ i0)
    (hxm : ∀ t' i, t' ≠ t → x.Holds i → ¬ (w t').Holds i)
    (hxl : ∀ i, x.Holds i → ∃ M ∈ ch', M.id = i ∧ M.locked = true)
    (hxh : ∀ k i, x = .held k i → ∃ M ∈ ch', M.id = i ∧ Owns ch' M k ∧ k ∉ M.keys)
    (hxp : ∀ k i, x = .published k i → ∃ M ∈ ch', M.id = i ∧ M.dirty = true)
    (hxs : ∀ k i j, x = .splitDone k i j → i ≠ j ∧ ∃ M ∈ ch', M.id = i ∧ M.dirty = true) :
    WInv ch' (upd w t x) := by
  refine ⟨?_, ?_, ?_, ?_, ?_⟩
  · intro t' i h
    by_cases ht : t' = t
    · subst ht; rw [upd_same] at h; exact hxl i h
    · rw [upd_other _ _ _ _ ht] at h
      obtain ⟨L, hL, hid, hl⟩ := hw.locked t' i h
      exact ⟨L, (hkeep L hL (by rw [hid]; exact hoth t' i ht h)).1, hid, hl⟩
  · intro t1 t2 i h1 h2
    by_cases ht1 : t1 = t
    · by_cases ht2 : t2 = t
      · rw [ht1, ht2]
      · subst ht1
        rw [upd_same] at h1
        rw [upd_other _ _ _ _ ht2] at h2
        exact absurd h2 (hxm t2 i ht2 h1)
    · by_cases ht2 : t2 = t
      · subst ht2
        rw [upd_same] at h2
        rw [upd_other _ _ _ _ ht1] at h1
        exact absurd h1 (hxm t1 i ht1 h2)
      · rw [upd_other _ _ _ _ ht1] at h1
        rw [upd_other _ _ _ _ ht2] at h2
        exact hw.mutex t1 t2 i h1 h2
  · intro t' k i h
    by_cases ht : t' = t
    · subst ht; rw [upd_same] at h; exact hxh k i h
    · rw [upd_other _ _ _ _ ht] at h
      obtain ⟨L, hL, hid, ho, hk⟩ := hw.held t' k i h
      have hne : L.id ≠ i0 := by
        rw [hid]; exact hoth t' i ht (by rw [h]; exact rfl)
      exact ⟨L, (hkeep L hL hne).1, hid, (hkeep L hL hne).2 k ho, hk⟩
  · intro t' k i h
    by_cases ht : t' = t
    · subst ht; rw [upd_same] at h; exact hxp k i h
    · rw [upd_other _ _ _ _ ht] at h
      obtain ⟨L, hL, hid, hd⟩ := hw.pubDirty t' k i h
      have hne : L.id ≠ i0 := by
        rw [hid]; exact hoth t' i ht (by rw [h]; exact rfl)
      exact ⟨L, (hkeep L hL hne).1, hid, hd⟩
  · intro t' k i j h
    by_cases ht : t' = t
    · subst ht; rw [upd_same] at h; exact hxs k i j h
    · rw [upd_other _ _ _ _ ht] at h
      obtain ⟨hij, L, hL, hid, hd⟩ := hw.splDirty t' k i j h
      have hne : L.id ≠ i0 := by
        rw [hid]; exact hoth t' i ht (by rw [h]; exact Or.inl rfl)
      exact ⟨hij, L, (hkeep L hL hne).1, hid, hd⟩

/-- the completion bookkeeping: writer `t` moves to `x`, `comp'` adds at most its finished key. -/
theorem cinv_step {ch ch' : List Leaf} {w : Nat → WPc} {comp comp' : List Nat}
    (hci : CInv ch w comp) (t : Nat) (x : WPc)
    (hpres : ∀ y, PresentC ch y → PresentC ch' y)
    (hx : ∀ k, x.inFlight k → PresentC ch' k ∧ ((w t).inFlight k ∨ ¬ PresentC ch k))
    (hcomp : ∀ k ∈ comp', k ∈ comp ∨ ((w t).inFlight k ∧ ∀ k', ¬ x.inFlight k')) :
    CInv ch' (upd w t x) comp' := by
  refine ⟨?_, ?_, ?_, ?_⟩
  · intro k hk
    rcases hcomp k hk with h | ⟨h, _⟩
    · exact hpres k (hci.present k h)
    · exact hpres k (hci.flightPresent t k h)
  · intro t' k h
    by_cases ht : t' = t
    · subst ht; rw [upd_same] at h; exact (hx k h).1
    · rw [upd_other _ _ _ _ ht] at h
      exact hpres k (hci.flightPresent t' k h)
  · intro t' k h hk
    by_cases ht : t' = t
    · subst ht
      rw [upd_same] at h
      rcases hcomp k hk with h' | ⟨_, h'⟩
      · rcases (hx k h).2 with h'' | h''
        · exact hci.flightNot t' k h'' h'
        · exact h'' (hci.present k h')
      · exact h' k h
    · rw [upd_other _ _ _ _ ht] at h
      rcases hcomp k hk with h' | ⟨h', _⟩
      · exact hci.flightNot t' k h h'
      · exact ht (hci.flightUniq t' t k h h')
  · intro t1 t2 k h1 h2
    by_cases ht1 : t1 = t
    · by_cases ht2 : t2 = t
      · rw [ht1, ht2]
      · subst ht1
        rw [upd_same] at h1
        rw [upd_other _ _ _ _ ht2] at h2
        rcases (hx k h1).2 with h | h
        · exact hci.flightUniq t1 t2 k h h2
        · exact absurd (hci.flightPresent t2 k h2) h
    · by_cases ht2 : t2 = t
      · subst ht2
        rw [upd_same] at h2
        rw [upd_other _ _ _ _ ht1] at h1
        rcases (hx k h2).2 with h | h
        · exact hci.flightUniq t1 t2 k h1 h
        · exact absurd (hci.flightPresent t1 k h1) h
      · rw [upd_other _ _ _ _ ht1] at h1
        rw [upd_other _ _ _ _ ht2] at h2
        exact hci.flightUniq t1 t2 k h1 h2

/-! ## the scanner invariant -/

def RecIn (nodes : List NodeRec) (i : Nat) : Prop := ∃ r ∈ nodes, r.1 = i

def StaleC (ch : List Leaf) (nodes : List NodeRec) : Prop :=
  ∃ r ∈ nodes, ∃ L ∈ ch, L.id = r.1 ∧ (L.vins ≠ r.2.1 ∨ L.vsplit ≠ r.2.2)

structure SInv (ch : List Leaf) (w : Nat → WPc) (a b f : Nat) (keys : List Nat)
    (nodes : List NodeRec) : Prop where
  recs : ∀ r ∈ nodes, ∃ L ∈ ch, L.id = r.1 ∧ r.2.1 ≤ L.vins ∧ r.2.2 ≤ L.vsplit
  cov : ∀ L ∈ ch, L.lo < f → (∀ M ∈ ch, L.lo < M.lo → a < M.lo) →
    RecIn nodes L.id ∨ StaleC ch nodes ∨ ∃ t k i, w t = .splitDone k i L.id ∧ RecIn nodes i
  seen : ∀ L ∈ ch, ∀ k ∈ L.keys, a ≤ k → k ≤ b → k < f →
    k ∈ keys ∨ StaleC ch nodes ∨
      ∃ t i, RecIn nodes i ∧ (w t = .published k i ∨ ∃ j, w t = .splitDone k i j)
  sub : ∀ k ∈ keys, a ≤ k ∧ k ≤ b ∧ PresentC ch k

def PhInv (a b : Nat) (L : Leaf) : Phase → Prop
  | .fresh => True
  | .loaded vi vs => vi ≤ L.vins ∧ vs ≤ L.vsplit
  | .snapped vi vs snap => vi ≤ L.vins ∧ vs ≤ L.vsplit ∧
      (L.vins = vi → L.vsplit = vs → L.dirty = false → snap = L.keys.filter (inRange a b))

def ScInv (ch : List Leaf) (w : Nat → WPc) : SPc → Prop
  | .idle => True
  | .want _ _ => True
  | .run a b keys nodes cur ph => ∃ L ∈ ch, L.id = cur ∧ SInv ch w a b L.lo keys nodes ∧ PhInv a b L ph
  | .fin a b keys nodes => SInv ch w a b (b + 1) keys nodes

/-- every leaf persists with its id and fence; counters only grow -/
def Grow (ch ch' : List Leaf) : Prop :=
  ∀ M ∈ ch, ∃ M' ∈ ch', M'.id = M.id ∧ M'.lo = M.lo ∧ M.vins ≤ M'.vins ∧ M.vsplit ≤ M'.vsplit

theorem stale_mono {ch ch' : List Leaf} {nid : Nat} (hc : ChainInv ch nid) {nodes : List NodeRec}
    (hr : ∀ r ∈ nodes, ∃ L ∈ ch, L.id = r.1 ∧ r.2.1 ≤ L.vins ∧ r.2.2 ≤ L.vsplit)
    (hg : Grow ch ch') (h : StaleC ch nodes) : StaleC ch' nodes := by
  obtain ⟨r, hrn, L, hL, hid, hne⟩ := h
  obtain ⟨L2, hL2, hid2, h1, h2⟩ := hr r hrn
  have : L2 = L := hc.eq_of_id hL2 hL (by rw [hid, hid2])
  subst this
  obtain ⟨L', hL', e1, _, g1, g2⟩ := hg L2 hL
  exact ⟨r, hrn, L', hL', by rw [e1, hid], by omega⟩

theorem recs_mono {ch ch' : List Leaf} {nodes : List NodeRec}
    (hr : ∀ r ∈ nodes, ∃ L ∈ ch, L.id = r.1 ∧ r.2.1 ≤ L.vins ∧ r.2.2 ≤ L.vsplit)
    (hg : Grow ch ch') : ∀ r ∈ nodes, ∃ L ∈ ch', L.id = r.1 ∧ r.2.1 ≤ L.vins ∧ r.2.2 ≤ L.vsplit := by
  intro r hrn
  obtain ⟨L, hL, hid, h1, h2⟩ := hr r hrn
  obtain ⟨L', hL', e1, _, g1, g2⟩ := hg L hL
  exact ⟨L', hL', by rw [e1, hid], by omega, by omega⟩

/-- a collected leaf whose insert counter moved makes the collection stale -/
theorem stale_of_bump {ch ch' : List Leaf} {nid : Nat} (hc : ChainInv ch nid) {nodes : List NodeRec}
    (hr : ∀ r ∈ nodes, ∃ L ∈ ch, L.id = r.1 ∧ r.2.1 ≤ L.vins ∧ r.2.2 ≤ L.vsplit)
    {L L' : Leaf} (hL : L ∈ ch) (hrec : RecIn nodes L.id) (hL' : L' ∈ ch') (hid : L'.id = L.id)
    (hlt : L.vins < L'.vins) : StaleC ch' nodes := by
  obtain ⟨r, hrn, e⟩ := hrec
  obtain ⟨L2, hL2, hid2, h1, _⟩ := hr r hrn
  have : L2 = L := hc.eq_of_id hL2 hL (by rw [hid2, e])
  subst this
  exact ⟨r, hrn, L', hL', by rw [hid, e], Or.inl (by omega)⟩

theorem grow_setLeaf {ch : List Leaf} {nid : Nat} (hc : ChainInv ch nid) {L L' : Leaf} (hL : L ∈ ch)
    (hid : L'.id = L.id) (hlo : L'.lo = L.lo) (hv : L.vins ≤ L'.vins) (hs : L.vsplit ≤ L'.vsplit) :
    Grow ch (setLeaf ch L') := by
  intro M hM
  by_cases h : M.id = L.id
  · have : M = L := hc.eq_of_id hM hL h
    subst this
    exact ⟨L', (mem_setLeaf hL hid).mpr (Or.inl rfl), hid, hlo, hv, hs⟩
  · exact ⟨M, (mem_setLeaf hL hid).mpr (Or.inr ⟨hM, h⟩), rfl, rfl, Nat.le_refl _, Nat.le_refl _⟩

/-- the scanner invariant across a writer step that rewrites leaf `L` in place -/
theorem sinv_setLeaf {ch : List Leaf} {nid : Nat} {w : Nat → WPc} (hc : ChainInv ch nid)
    (hw : WInv ch w) {L L' : Leaf} (hL : L ∈ ch) (hid : L'.id = L.id) (hlo : L'.lo = L.lo)
    (hv : L.vins ≤ L'.vins) (hs : L.vsplit ≤ L'.vsplit) (t : Nat) (x : WPc)
    (hkeys : ∀ y ∈ L'.keys, y ∈ L.keys ∨
      (Owns ch L y ∧ x = .published y L.id ∧ (w t).Holds L.id ∧ ∀ k i j, w t ≠ .splitDone k i j))
    (hkeys2 : ∀ y ∈ L.keys, y ∈ L'.keys)
    (hwit1 : ∀ k i, w t = .published k i → i = L.id ∧ L.vins < L'.vins)
    (hwit2 : ∀ k i j, w t = .splitDone k i j → i = L.id ∧ L.vins < L'.vins)
    {a b f : Nat} {keys : List Nat} {nodes : List NodeRec}
    (h : SInv ch w a b f keys nodes) : SInv (setLeaf ch L') (upd w t x) a b f keys nodes := by
  have hg := grow_setLeaf hc hL hid hlo hv hs
  have hL'mem : L' ∈ setLeaf ch L' := (mem_setLeaf hL hid).mpr (Or.inl rfl)
  have hstale := stale_mono hc h.recs hg
  -- an old witness pc of writer `t` means the collection is stale now
  have hcovT : ∀ L1 ∈ ch, L1.lo < f → (∀ M ∈ ch, L1.lo < M.lo → a < M.lo) →
      RecIn nodes L1.id ∨ StaleC (setLeaf ch L') nodes ∨
        ∃ t0 k i, upd w t x t0 = .splitDone k i L1.id ∧ RecIn nodes i := by
    intro L1 hL1 hf hant
    rcases h.cov L1 hL1 hf hant with h1 | h1 | ⟨t0, k, i, h1, h2⟩
    · exact Or.inl h1
    · exact Or.inr (Or.inl (hstale h1))
    · by_cases ht : t0 = t
      · subst ht
        obtain ⟨e, hlt⟩ := hwit2 k i _ h1
        subst e
        exact Or.inr (Or.inl (stale_of_bump hc h.recs hL h2 hL'mem hid hlt))
      · exact Or.inr (Or.inr ⟨t0, k, i, by rw [upd_other _ _ _ _ ht]; exact h1, h2⟩)
  have hant : ∀ L1 : Leaf, (∀ M' ∈ setLeaf ch L', L1.lo < M'.lo → a < M'.lo) →
      ∀ M ∈ ch, L1.lo < M.lo → a < M.lo := by
    intro L1 hall M hM hlt
    obtain ⟨M', hM', _, e, _, _⟩ := hg M hM
    rw [← e]; exact hall M' hM' (by rw [e]; exact hlt)
  refine ⟨recs_mono h.recs hg, ?_, ?_, ?_⟩
  · intro L1 hL1 hf hall
    rcases (mem_setLeaf hL hid).mp hL1 with rfl | ⟨h1, _⟩
    · rw [hid]
      rw [hlo] at hf
      exact hcovT L hL hf (hant L (by rw [← hlo]; exact hall))
    · exact hcovT L1 h1 hf (hant L1 hall)
  · intro L1 hL1 y hy ha hb hf
    have hold : ∀ L0 ∈ ch, y ∈ L0.keys →
        y ∈ keys ∨ StaleC (setLeaf ch L') nodes ∨
          ∃ t0 i, RecIn nodes i ∧ (upd w t x t0 = .published y i ∨ ∃ j, upd w t x t0 = .splitDone y i j) := by
      intro L0 hL0 hy0
      rcases h.seen L0 hL0 y hy0 ha hb hf with h1 | h1 | ⟨t0, i, h1, h2⟩
      · exact Or.inl h1
      · exact Or.inr (Or.inl (hstale h1))
      · by_cases ht : t0 = t
        · subst ht
          rcases h2 with h2 | ⟨j, h2⟩
          · obtain ⟨e, hlt⟩ := hwit1 y i h2
            subst e
            exact Or.inr (Or.inl (stale_of_bump hc h.recs hL h1 hL'mem hid hlt))
          · obtain ⟨e, hlt⟩ := hwit2 y i j h2
            subst e
            exact Or.inr (Or.inl (stale_of_bump hc h.recs hL h1 hL'mem hid hlt))
        · refine Or.inr (Or.inr ⟨t0, i, h1, ?_⟩)
          rw [upd_other _ _ _ _ ht]; exact h2
    rcases (mem_setLeaf hL hid).mp hL1 with rfl | ⟨h1, _⟩
    · rcases hkeys y hy with hy' | ⟨ho, hx, hh, hns⟩
      · exact hold L hL hy'
      · -- a new key: its leaf is covered
        have hLf : L.lo < f := by have := ho.1; omega
        have hA : ∀ M ∈ ch, L.lo < M.lo → a < M.lo := by
          intro M hM hlt; have := ho.2 M hM hlt; omega
        rcases h.cov L hL hLf hA with h1 | h1 | ⟨t0, k, i, h1, h2⟩
        · exact Or.inr (Or.inr ⟨t, L.id, h1, Or.inl (by rw [upd_same]; exact hx)⟩)
        · exact Or.inr (Or.inl (hstale h1))
        · have : t0 = t := hw.mutex t0 t L.id (by rw [h1]; exact Or.inr rfl) hh
          subst this
          exact absurd h1 (hns k i L.id)
    · exact hold L1 h1 hy
  · intro y hy
    obtain ⟨h1, h2, M, hM, hyM⟩ := h.sub y hy
    refine ⟨h1, h2, ?_⟩
    by_cases hMid : M.id = L.id
    · have : M = L := hc.eq_of_id hM hL hMid
      subst this
      exact ⟨L', hL'mem, hkeys2 y hyM⟩
    · exact ⟨M, (mem_setLeaf hL hid).mpr (Or.inr ⟨hM, hMid⟩), hyM⟩

theorem ph_setLeaf {L L' : Leaf} (hv : L.vins ≤ L'.vins) (hs : L.vsplit ≤ L'.vsplit)
    (hd : L'.dirty = false → (L.dirty = false ∧ L'.keys = L.keys) ∨ L.vins < L'.vins)
    {a b : Nat} {ph : Phase} (h : PhInv a b L ph) : PhInv a b L' ph := by
  cases ph with
  | fresh => trivial
  | loaded vi vs => exact ⟨by have := h.1; omega, by have := h.2; omega⟩
  | snapped vi vs snap =>
    obtain ⟨h1, h2, h3⟩ := h
    refine ⟨by omega, by omega, ?_⟩
    intro e1 e2 e3
    rcases hd e3 with ⟨d, ek⟩ | hlt
    · rw [ek]; exact h3 (by omega) (by omega) d
    · omega

theorem grow_split {ch : List Leaf} {nid : Nat} (hc : ChainInv ch nid) {L L' R : Leaf} {k : Nat}
    (sp : SplitOf ch nid L L' R k) : Grow ch (insAfter (setLeaf ch L') L.id R) := by
  intro M hM
  by_cases h : M.id = L.id
  · have : M = L := hc.eq_of_id hM sp.hL h
    subst this
    exact ⟨L', (mem_split sp).mpr (Or.inr (Or.inl rfl)), sp.id', sp.lo',
      Nat.le_of_eq sp.vins'.symm, Nat.le_of_eq sp.vsplit'.symm⟩
  · exact ⟨M, (mem_split sp).mpr (Or.inr (Or.inr ⟨hM, h⟩)), rfl, rfl, Nat.le_refl _, Nat.le_refl _⟩

theorem present_split {ch : List Leaf} {nid : Nat} (hc : ChainInv ch nid) {L L' R : Leaf} {k : Nat}
    (sp : SplitOf ch nid L L' R k) :
    ∀ y, PresentC ch y ∨ y = k → PresentC (insAfter (setLeaf ch L') L.id R) y := by
  have hfromL : ∀ y, y ∈ L.keys ∨ y = k → PresentC (insAfter (setLeaf ch L') L.id R) y := by
    intro y hy
    rcases sp.keysAll y hy with h | h
    · exact ⟨L', (mem_split sp).mpr (Or.inr (Or.inl rfl)), h⟩
    · exact ⟨R, (mem_split sp).mpr (Or.inl rfl), h⟩
  rintro y (⟨M, hM, hy⟩ | rfl)
  · by_cases h : M.id = L.id
    · have : M = L := hc.eq_of_id hM sp.hL h
      subst this
      exact hfromL y (Or.inl hy)
    · exact ⟨M, (mem_split sp).mpr (Or.inr (Or.inr ⟨hM, h⟩)), hy⟩
  · exact hfromL y (Or.inr rfl)

/-- the scanner invariant across a split of leaf `L` by writer `t` -/
theorem sinv_split {ch : List Leaf} {nid : Nat} {w : Nat → WPc} (hc : ChainInv ch nid)
    (hw : WInv ch w) {L L' R : Leaf} {k : Nat} (sp : SplitOf ch nid L L' R k) (hok : Owns ch L k)
    (t : Nat) (hwt : w t = .held k L.id)
    {a b f : Nat} {keys : List Nat} {nodes : List NodeRec}
    (h : SInv ch w a b f keys nodes) :
    SInv (insAfter (setLeaf ch L') L.id R) (upd w t (.splitDone k L.id nid)) a b f keys nodes := by
  have hg := grow_split hc sp
  have hstale := stale_mono hc h.recs hg
  have hholds : (w t).Holds L.id := by rw [hwt]; exact rfl
  have hne : ∀ t0, t0 ≠ t → ∀ x, upd w t x t0 = w t0 := fun t0 ht x => upd_other _ _ _ _ ht
  have htne : ∀ t0 k0 i0 j0, w t0 = .splitDone k0 i0 j0 → t0 ≠ t := by
    intro t0 k0 i0 j0 h0 e
    subst e
    rw [hwt] at h0
    cases h0
  have htne' : ∀ t0 k0 i0, w t0 = .published k0 i0 → t0 ≠ t := by
    intro t0 k0 i0 h0 e
    subst e
    rw [hwt] at h0
    cases h0
  -- old coverage, transported
  have hcovT : ∀ L1 ∈ ch, L1.lo < f → (∀ M ∈ ch, L1.lo < M.lo → a < M.lo) →
      RecIn nodes L1.id ∨ StaleC (insAfter (setLeaf ch L') L.id R) nodes ∨
        ∃ t0 k0 i, upd w t (.splitDone k L.id nid) t0 = .splitDone k0 i L1.id ∧ RecIn nodes i := by
    intro L1 hL1 hf hant
    rcases h.cov L1 hL1 hf hant with h1 | h1 | ⟨t0, k0, i, h1, h2⟩
    · exact Or.inl h1
    · exact Or.inr (Or.inl (hstale h1))
    · exact Or.inr (Or.inr ⟨t0, k0, i, by rw [hne t0 (htne _ _ _ _ h1)]; exact h1, h2⟩)
  have hant : ∀ lo1 : Nat, (∀ M' ∈ insAfter (setLeaf ch L') L.id R, lo1 < M'.lo → a < M'.lo) →
      ∀ M ∈ ch, lo1 < M.lo → a < M.lo := by
    intro lo1 hall M hM hlt
    obtain ⟨M', hM', _, e, _, _⟩ := hg M hM
    rw [← e]; exact hall M' hM' (by rw [e]; exact hlt)
  -- the split leaf was collected, or the collection is stale: consequence for `R` and for `k`
  have hLcov : L.lo < f → (∀ M ∈ ch, L.lo < M.lo → a < M.lo) →
      RecIn nodes L.id ∨ StaleC (insAfter (setLeaf ch L') L.id R) nodes := by
    intro hf hA
    rcases h.cov L sp.hL hf hA with h1 | h1 | ⟨t0, k0, i, h1, _⟩
    · exact Or.inl h1
    · exact Or.inr (hstale h1)
    · have : t0 = t := hw.mutex t0 t L.id (by rw [h1]; exact Or.inr rfl) hholds
      exact absurd this (htne _ _ _ _ h1)
  refine ⟨recs_mono h.recs hg, ?_, ?_, ?_⟩
  · intro L1 hL1 hf hall
    rcases (mem_split sp).mp hL1 with rfl | rfl | ⟨h1, _⟩
    · -- the new leaf
      have hA : ∀ M ∈ ch, L.lo < M.lo → a < M.lo := by
        intro M hM hlt
        exact hant L1.lo hall M hM (sp.rown.2 M hM hlt)
      rcases hLcov (by have := sp.rlo; omega) hA with h1 | h1
      · exact Or.inr (Or.inr ⟨t, k, L.id, by rw [upd_same, sp.rid], h1⟩)
      · exact Or.inr (Or.inl h1)
    · rw [sp.id']
      rw [sp.lo'] at hf hall
      exact hcovT L sp.hL hf (hant L.lo hall)
    · exact hcovT L1 h1 hf (hant L1.lo hall)
  · intro L1 hL1 y hy ha hb hf
    have hold : ∀ L0 ∈ ch, y ∈ L0.keys →
        y ∈ keys ∨ StaleC (insAfter (setLeaf ch L') L.id R) nodes ∨
          ∃ t0 i, RecIn nodes i ∧ (upd w t (.splitDone k L.id nid) t0 = .published y i ∨
            ∃ j, upd w t (.splitDone k L.id nid) t0 = .splitDone y i j) := by
      intro L0 hL0 hy0
      rcases h.seen L0 hL0 y hy0 ha hb hf with h1 | h1 | ⟨t0, i, h1, h2⟩
      · exact Or.inl h1
      · exact Or.inr (Or.inl (hstale h1))
      · refine Or.inr (Or.inr ⟨t0, i, h1, ?_⟩)
        rcases h2 with h2 | ⟨j, h2⟩
        · rw [hne t0 (htne' _ _ _ h2)]; exact Or.inl h2
        · rw [hne t0 (htne _ _ _ _ h2)]; exact Or.inr ⟨j, h2⟩
    have hfromL : y ∈ L.keys ∨ y = k →
        y ∈ keys ∨ StaleC (insAfter (setLeaf ch L') L.id R) nodes ∨
          ∃ t0 i, RecIn nodes i ∧ (upd w t (.splitDone k L.id nid) t0 = .published y i ∨
            ∃ j, upd w t (.splitDone k L.id nid) t0 = .splitDone y i j) := by
      rintro (hyL | rfl)
      · exact hold L sp.hL hyL
      · have hLf : L.lo < f := by have := hok.1; omega
        have hA : ∀ M ∈ ch, L.lo < M.lo → a < M.lo := by
          intro M hM hlt; have := hok.2 M hM hlt; omega
        rcases hLcov hLf hA with h1 | h1
        · exact Or.inr (Or.inr ⟨t, L.id, h1, Or.inr ⟨nid, by rw [upd_same]⟩⟩)
        · exact Or.inr (Or.inl h1)
    rcases (mem_split sp).mp hL1 with rfl | rfl | ⟨h1, _⟩
    · exact hfromL (sp.keysR y hy).2
    · exact hfromL (sp.keysL y hy).2
    · exact hold L1 h1 hy
  · intro y hy
    obtain ⟨h1, h2, h3⟩ := h.sub y hy
    exact ⟨h1, h2, present_split hc sp y (Or.inl h3)⟩

/-- a scanner arriving at the leaf that owns `a` has nothing below its frontier -/
theorem sinv_enter {ch : List Leaf} {w : Nat → WPc} {L : Leaf} (hL : L ∈ ch) {a b : Nat}
    (ho : Owns ch L a) : SInv ch w a b L.lo [] [] := by
  refine ⟨fun r hr => (by cases hr), ?_, ?_, fun k hk => (by cases hk)⟩
  · intro L1 _ hf hall
    have := hall L hL hf
    have := ho.1
    omega
  · intro L1 _ y _ ha _ hf
    have := ho.1
    omega

/-- a successful validation of leaf `L` moves the frontier to `f'` -/
theorem sinv_validate {ch : List Leaf} {nid : Nat} {w : Nat → WPc} (hc : ChainInv ch nid)
    {L : Leaf} (hL : L ∈ ch) {a b f' vi vs : Nat} {keys snap : List Nat} {nodes : List NodeRec}
    (h : SInv ch w a b L.lo keys nodes) (hp : PhInv a b L (.snapped vi vs snap))
    (hd : L.dirty = false) (hv : L.vins = vi) (hs : L.vsplit = vs)
    (hf' : ∀ M ∈ ch, L.lo < M.lo → f' ≤ M.lo) :
    SInv ch w a b f' (keys ++ snap) (nodes ++ [(L.id, vi, vs)]) := by
  have hsnap : snap = L.keys.filter (inRange a b) := hp.2.2 hv hs hd
  have hrec : ∀ i, RecIn nodes i → RecIn (nodes ++ [(L.id, vi, vs)]) i := by
    rintro i ⟨r, hr, e⟩
    exact ⟨r, List.mem_append_left _ hr, e⟩
  have hst : StaleC ch nodes → StaleC ch (nodes ++ [(L.id, vi, vs)]) := by
    rintro ⟨r, hr, rest⟩
    exact ⟨r, List.mem_append_left _ hr, rest⟩
  refine ⟨?_, ?_, ?_, ?_⟩
  · intro r hr
    rcases List.mem_append.mp hr with hr' | hr'
    · exact h.recs r hr'
    · have : r = (L.id, vi, vs) := by simpa using hr'
      subst this
      exact ⟨L, hL, rfl, Nat.le_of_eq hv.symm, Nat.le_of_eq hs.symm⟩
  · intro L1 hL1 hf hall
    rcases Nat.lt_trichotomy L1.lo L.lo with hlt | heq | hgt
    · rcases h.cov L1 hL1 hlt hall with h1 | h1 | ⟨t0, k0, i, h1, h2⟩
      · exact Or.inl (hrec _ h1)
      · exact Or.inr (Or.inl (hst h1))
      · exact Or.inr (Or.inr ⟨t0, k0, i, h1, hrec _ h2⟩)
    · have : L1 = L := hc.eq_of_lo hL1 hL heq
      subst this
      exact Or.inl ⟨(L1.id, vi, vs), List.mem_append_right _ (by simp), rfl⟩
    · have := hf' L1 hL1 hgt
      omega
  · intro L1 hL1 y hy ha hb hf
    have hown := hc.keysIn L1 hL1 y hy
    rcases Nat.lt_trichotomy L1.lo L.lo with hlt | heq | hgt
    · have hyl : y < L.lo := hown.2 L hL hlt
      rcases h.seen L1 hL1 y hy ha hb hyl with h1 | h1 | ⟨t0, i, h1, h2⟩
      · exact Or.inl (List.mem_append_left _ h1)
      · exact Or.inr (Or.inl (hst h1))
      · exact Or.inr (Or.inr ⟨t0, i, hrec _ h1, h2⟩)
    · have : L1 = L := hc.eq_of_lo hL1 hL heq
      subst this
      refine Or.inl (List.mem_append_right _ ?_)
      rw [hsnap, List.mem_filter]
      exact ⟨hy, by simp [inRange, ha, hb]⟩
    · have := hf' L1 hL1 hgt
      have := hown.1
      omega
  · intro y hy
    rcases List.mem_append.mp hy with hy' | hy'
    · exact h.sub y hy'
    · rw [hsnap, List.mem_filter] at hy'
      have hr : a ≤ y ∧ y ≤ b := by simpa [inRange] using hy'.2
      exact ⟨hr.1, hr.2, L, hL, hy'.1⟩

end Yak.Proto.NodeSet
