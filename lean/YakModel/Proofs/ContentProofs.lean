import YakModel.Proofs.RemoveMain
/-!
# The in-order content: same keys and values as point lookups, strictly ascending
-/
namespace Yak.Tree
open Yak

/-! ### byte-string order -/

theorem lexLt_cons (x y : UInt8) (xs ys : List UInt8) :
    lexLt (x :: xs) (y :: ys) = if x < y then true else if x > y then false else lexLt xs ys := rfl

theorem lexLt_append_left (p x y : List UInt8) : lexLt (p ++ x) (p ++ y) = lexLt x y := by
  induction p with
  | nil => rfl
  | cons c p ih =>
    rw [List.cons_append, List.cons_append, lexLt_cons, if_neg (UInt8.lt_irrefl c),
      if_neg (UInt8.lt_irrefl c)]
    exact ih

theorem lexLt_append_right_of_lt : ∀ (a b r : List UInt8), lexLt a b = true → lexLt a (b ++ r) = true
  | [], [], _, h => by simp [lexLt] at h
  | [], _ :: _, _, _ => rfl
  | _ :: _, [], _, h => by simp [lexLt] at h
  | x :: xs, y :: ys, r, h => by
    rw [List.cons_append, lexLt_cons]
    rw [lexLt_cons] at h
    by_cases h1 : x < y
    · rw [if_pos h1]
    · rw [if_neg h1] at h ⊢
      by_cases h2 : x > y
      · rw [if_pos h2] at h; cases h
      · rw [if_neg h2] at h ⊢
        exact lexLt_append_right_of_lt xs ys r h

theorem lexLt_append_both : ∀ (a b r1 r2 : List UInt8), lexLt a b = true → b.length ≤ a.length →
    lexLt (a ++ r1) (b ++ r2) = true
  | [], [], _, _, h, _ => by simp [lexLt] at h
  | [], _ :: _, _, _, _, hl => by simp at hl
  | _ :: _, [], _, _, h, _ => by simp [lexLt] at h
  | x :: xs, y :: ys, r1, r2, h, hl => by
    rw [List.cons_append, List.cons_append, lexLt_cons]
    rw [lexLt_cons] at h
    by_cases h1 : x < y
    · rw [if_pos h1]
    · rw [if_neg h1] at h ⊢
      by_cases h2 : x > y
      · rw [if_pos h2] at h; cases h
      · rw [if_neg h2] at h ⊢
        exact lexLt_append_both xs ys r1 r2 h (by simpa using hl)

theorem lexLt_append_self : ∀ (a r : List UInt8), r ≠ [] → lexLt a (a ++ r) = true
  | [], [], h => absurd rfl h
  | [], _ :: _, _ => rfl
  | x :: xs, r, h => by
    rw [List.cons_append, lexLt_cons, if_neg (UInt8.lt_irrefl x), if_neg (UInt8.lt_irrefl x)]
    exact lexLt_append_self xs r h

/-! ### the bytes a tuple contributes -/

theorem bytes_len_of_short {k : KT} (hw : k.WF) (h : k.len ≤ 8) : k.bytes.length = k.len := by
  unfold KT.bytes
  have := hw.1
  simp only [List.length_take, Nat.min_def]
  split <;> split <;> omega

theorem ofKey_bytes {k : KT} (hw : k.WF) (h : k.len ≤ 8) : KT.ofKey k.bytes = k := by
  have hl := bytes_len_of_short hw h
  have hb : k.bytes = k.slice.take k.len := by
    unfold KT.bytes
    have : Nat.min k.len 8 = k.len := Nat.min_eq_left h
    rw [this]
  rw [ofKey_short (by omega), hl]
  have : padTo 8 k.bytes = k.slice := by
    unfold padTo
    rw [List.take_of_length_le (by omega), hl, hb, ← hw.2.2, List.take_append_drop]
  rw [this]

theorem bytes_of_link {k : KT} (hw : k.WF) (h : k.len = 9) : k.bytes = k.slice := by
  unfold KT.bytes
  rw [h]
  exact List.take_of_length_le (by rw [hw.1]; decide)

theorem bytes_ofKey_short {r : Key} (h : ¬ r.length > 8) : (KT.ofKey r).bytes = r := by
  rw [ofKey_short h]
  unfold KT.bytes
  simp only
  have : Nat.min r.length 8 = r.length := Nat.min_eq_left (by omega)
  rw [this]
  exact padTo_take r (by omega)

/-! ### depth of a layer is bounded by the number of layers -/

theorem nodup_subset_length {α : Type} [DecidableEq α] : ∀ (l₁ l₂ : List α), l₁.Nodup →
    (∀ a ∈ l₁, a ∈ l₂) → l₁.length ≤ l₂.length
  | [], _, _, _ => Nat.zero_le _
  | a :: l, l₂, hn, hs => by
    rw [List.nodup_cons] at hn
    have ha : a ∈ l₂ := hs a (by simp)
    have := nodup_subset_length l (l₂.erase a) hn.2 (by
      intro b hb
      have hne : b ≠ a := by intro e; subst e; exact hn.1 hb
      exact (List.mem_erase_of_ne hne).mpr (hs b (by simp [hb])))
    rw [List.length_erase_of_mem ha] at this
    have hpos : 0 < l₂.length := List.length_pos_of_mem ha
    simp only [List.length_cons]; omega

theorem anc_isSome {F : List UInt8 → Option (List Leaf)} (hF : FCore F) :
    ∀ (d : Nat) (p : List UInt8), p.length = 8 * d → (F p).isSome → ∀ j, j ≤ d → (F (p.take (8 * j))).isSome := by
  intro d
  induction d with
  | zero =>
    intro p hp hs j hj
    have : j = 0 := by omega
    subst this
    have : p = [] := List.eq_nil_of_length_eq_zero (by omega)
    subst this
    exact hs
  | succ d ih =>
    intro p hp hs j hj
    by_cases hjd : j = d + 1
    · subst hjd
      rw [List.take_of_length_le (by omega)]; exact hs
    · cases hx : F p with
      | none => rw [hx] at hs; cases hs
      | some ls =>
        have hpne : p ≠ [] := by intro e; rw [e] at hp; simp at hp
        obtain ⟨us, hus, _⟩ := hF.up _ _ hx hpne
        have hlen : (p.take (p.length - 8)).length = 8 * d := by
          simp only [List.length_take]; omega
        have := ih (p.take (p.length - 8)) hlen (by rw [hus]; rfl) j (by omega)
        rw [List.take_take] at this
        have hm : min (8 * j) (p.length - 8) = 8 * j := by omega
        rw [hm] at this
        exact this

theorem depth_bound {t : Tree} (hF : FCore (lay t)) {p : List UInt8} (hp : (lay t p).isSome) :
    p.length / 8 + 1 ≤ t.length := by
  cases hx : lay t p with
  | none => rw [hx] at hp; cases hp
  | some ls =>
    have h8 := hF.plen _ _ hx
    have hlen : p.length = 8 * (p.length / 8) := by omega
    have hanc := anc_isSome hF (p.length / 8) p hlen hp
    have hsub : ∀ a ∈ (List.range (p.length / 8 + 1)).map (fun j => p.take (8 * j)), a ∈ t.map (·.pfx) := by
      intro a ha
      obtain ⟨j, hj, rfl⟩ := List.mem_map.mp ha
      rw [List.mem_range] at hj
      rw [mem_pfx_iff, ← lay_isSome]
      exact hanc j (by omega)
    have hnd : ((List.range (p.length / 8 + 1)).map (fun j => p.take (8 * j))).Nodup := by
      rw [List.nodup_iff_pairwise_ne, List.pairwise_map]
      have := List.nodup_iff_pairwise_ne.mp (List.nodup_range (n := p.length / 8 + 1))
      refine this.imp_of_mem ?_
      intro a b ha hb hab e
      rw [List.mem_range] at ha hb
      have := congrArg List.length e
      simp only [List.length_take] at this
      omega
    have := nodup_subset_length _ _ hnd hsub
    simpa using this

/-! ### membership -/

theorem walk_nil_none {F : List UInt8 → Option (List Leaf)} (hF : FCore F) {q : List UInt8} (hq : q ≠ []) :
    walkM (lookF F) q [] = none := by
  cases hm : lookF F q (KT.ofKey []) with
  | none => exact walkM_none hm
  | some e =>
    exfalso
    cases hx : F q with
    | none => rw [lookF_of_none hx] at hm; cases hm
    | some ls =>
      obtain ⟨he, hek⟩ := (lookF_some_iff hx (hF.core _ _ hx) (KT.ofKey_wf _) e).mp hm
      apply hF.nz _ _ hx hq e he
      rw [hek]; rfl

/-- what one entry contributes to the content -/
def entContent (t : Tree) (fuel : Nat) (p : List UInt8) (e : Ent) : List (Key × Val) :=
  match e.val with
  | some v => [(p ++ e.kt.bytes, v)]
  | none => contentFrom t fuel (p ++ e.kt.slice)

theorem contentFrom_succ {t : Tree} {p : List UInt8} {L : Layer} (hL : findLayer t p = some L) (fuel : Nat) :
    contentFrom t (fuel + 1) p = (layerEnts L.leaves).flatMap (entContent t fuel p) := by
  rw [contentFrom, hL]
  simp only [layerEnts, List.flatMap_assoc]
  rfl

theorem mem_contentFrom {t : Tree} (hF : FCore (lay t)) : ∀ (fuel : Nat) (p : List UInt8),
    (lay t p).isSome → t.length + 1 ≤ fuel + p.length / 8 → ∀ (k : Key) (v : Val),
    ((k, v) ∈ contentFrom t fuel p ↔ ∃ r, k = p ++ r ∧ walkM (lookF (lay t)) p r = some v) := by
  intro fuel
  induction fuel with
  | zero =>
    intro p hp hb
    have := depth_bound hF hp
    omega
  | succ fuel ih =>
    intro p hp hb k v
    cases hL : findLayer t p with
    | none => rw [lay_isSome, hL] at hp; cases hp
    | some L =>
      have hlay := lay_of_findLayer hL
      have hc := hF.core _ _ hlay
      have hp8 := hF.plen _ _ hlay
      rw [contentFrom_succ hL, List.mem_flatMap]
      constructor
      · rintro ⟨e, he, hke⟩
        obtain ⟨hw, hv⟩ := layerEnts_wf hc he
        have hlook : lookF (lay t) p e.kt = some e := (lookF_some_iff hlay hc hw e).mpr ⟨he, rfl⟩
        unfold entContent at hke
        cases hval : e.val with
        | some v' =>
          rw [hval] at hke
          simp only [List.mem_singleton, Prod.mk.injEq] at hke
          obtain ⟨rfl, rfl⟩ := hke
          have h9 : e.kt.len ≤ 8 := by
            have : e.kt.len ≠ 9 := fun h => by rw [hv.mpr h] at hval; cases hval
            have := hw.2.1; omega
          refine ⟨e.kt.bytes, rfl, ?_⟩
          have hshort : ¬ e.kt.bytes.length > 8 := by rw [bytes_len_of_short hw h9]; omega
          rw [walkM_short (e := e) (by rw [ofKey_bytes hw h9]; exact hlook) hshort, hval]
        | none =>
          rw [hval] at hke
          have h9 := hv.mp hval
          have hdown := hF.down _ _ hlay e he h9
          have hs8 : e.kt.slice.length = 8 := hw.1
          obtain ⟨r', rfl, hwalk⟩ := (ih (p ++ e.kt.slice) hdown (by
            simp only [List.length_append, hs8]; omega) k v).mp hke
          have hr' : r' ≠ [] := by
            intro e0; subst e0
            rw [walk_nil_none hF (by intro e0; simp at e0; rw [e0.2] at hs8; cases hs8)] at hwalk
            cases hwalk
          have hlong : (e.kt.slice ++ r').length > 8 := by
            have : r'.length ≠ 0 := fun h => hr' (List.eq_nil_of_length_eq_zero h)
            simp only [List.length_append, hs8]; omega
          refine ⟨e.kt.slice ++ r', by simp, ?_⟩
          have hkt : KT.ofKey (e.kt.slice ++ r') = e.kt := by
            rw [ofKey_long hlong, List.take_left' hs8]
            cases hk : e.kt with
            | mk a b => rw [hk] at h9; simp only at h9; rw [h9]
          rw [walkM_long (e := e) (by rw [hkt]; exact hlook) hlong, List.take_left' hs8,
            List.drop_left' hs8]
          exact hwalk
      · rintro ⟨r, rfl, hwalk⟩
        cases hm : lookF (lay t) p (KT.ofKey r) with
        | none => rw [walkM_none hm] at hwalk; cases hwalk
        | some e =>
          obtain ⟨he, hek⟩ := (lookF_some_iff hlay hc (KT.ofKey_wf r) e).mp hm
          obtain ⟨hw, hv⟩ := layerEnts_wf hc he
          refine ⟨e, he, ?_⟩
          unfold entContent
          by_cases hl : r.length > 8
          · rw [walkM_long hm hl] at hwalk
            have h9 : e.kt.len = 9 := by rw [hek, ofKey_len_long hl]
            rw [hv.mpr h9]
            simp only
            have hsl : e.kt.slice = r.take 8 := by rw [hek, ofKey_slice_long hl]
            rw [hsl]
            have hdown := down_of_lookF hF hm hl
            refine (ih (p ++ r.take 8) hdown (by
              simp only [List.length_append, take8_len hl]; omega) _ v).mpr ⟨r.drop 8, ?_, hwalk⟩
            rw [List.append_assoc, List.take_append_drop]
          · rw [walkM_short hm hl] at hwalk
            rw [hwalk]
            simp only [List.mem_singleton, Prod.mk.injEq, and_true]
            rw [hek, bytes_ofKey_short hl]

theorem lookup_iff_content (t : Tree) (h : Inv t) (k : Key) (v : Val) :
    (get t k).val = some v ↔ (k, v) ∈ content t := by
  obtain ⟨_, hF, _⟩ := (inv_iff t).mp h
  unfold get content
  rw [getAt_val, mem_contentFrom hF (t.length + 1) [] hF.root (by simp) k v]
  constructor
  · intro hw; exact ⟨k, rfl, hw⟩
  · rintro ⟨r, hr, hw⟩
    simp only [List.nil_append] at hr
    rw [hr]; exact hw

/-! ### order -/

/-- the keys one entry contributes all start with `p ++ bytes`; a value entry contributes exactly
    that key, a link entry only proper extensions of it. -/
theorem keys_of_entContent {t : Tree} (hF : FCore (lay t)) {fuel : Nat} {p : List UInt8} {ls : List Leaf}
    (hlay : lay t p = some ls) (hb : t.length + 1 ≤ fuel + 1 + p.length / 8) {e : Ent}
    (he : e ∈ layerEnts ls) {k : Key} {v : Val} (hk : (k, v) ∈ entContent t fuel p e) :
    ∃ r', k = p ++ (e.kt.bytes ++ r') ∧
      ((e.kt.len ≤ 8 ∧ r' = []) ∨ (e.kt.len = 9 ∧ e.kt.bytes.length = 8 ∧ r' ≠ [])) := by
  have hc := hF.core _ _ hlay
  obtain ⟨hw, hv⟩ := layerEnts_wf hc he
  unfold entContent at hk
  cases hval : e.val with
  | some v' =>
    rw [hval] at hk
    simp only [List.mem_singleton, Prod.mk.injEq] at hk
    refine ⟨[], by rw [hk.1]; simp, Or.inl ⟨?_, rfl⟩⟩
    have : e.kt.len ≠ 9 := fun h => by rw [hv.mpr h] at hval; cases hval
    have := hw.2.1; omega
  | none =>
    rw [hval] at hk
    have h9 := hv.mp hval
    have hs8 : e.kt.slice.length = 8 := hw.1
    have hdown := hF.down _ _ hlay e he h9
    obtain ⟨r', rfl, hwalk⟩ := (mem_contentFrom hF fuel (p ++ e.kt.slice) hdown (by
      simp only [List.length_append, hs8]; omega) k v).mp hk
    refine ⟨r', by rw [bytes_of_link hw h9, List.append_assoc], Or.inr ⟨h9, by rw [bytes_of_link hw h9, hs8], ?_⟩⟩
    intro e0; subst e0
    rw [walk_nil_none hF (by intro e0; simp at e0; rw [e0.2] at hs8; cases hs8)] at hwalk
    cases hwalk

theorem sorted_contentFrom {t : Tree} (hF : FCore (lay t)) : ∀ (fuel : Nat) (p : List UInt8),
    (lay t p).isSome → t.length + 1 ≤ fuel + p.length / 8 →
    (contentFrom t fuel p).Pairwise (fun a b => lexLt a.1 b.1 = true) := by
  intro fuel
  induction fuel with
  | zero =>
    intro p hp hb
    have := depth_bound hF hp
    omega
  | succ fuel ih =>
    intro p hp hb
    cases hL : findLayer t p with
    | none => rw [lay_isSome, hL] at hp; cases hp
    | some L =>
      have hlay := lay_of_findLayer hL
      have hc := hF.core _ _ hlay
      rw [contentFrom_succ hL, List.pairwise_flatMap]
      refine ⟨?_, ?_⟩
      · intro e he
        obtain ⟨hw, hv⟩ := layerEnts_wf hc he
        unfold entContent
        cases hval : e.val with
        | some v' => simp
        | none =>
          have h9 := hv.mp hval
          simp only
          exact ih (p ++ e.kt.slice) (hF.down _ _ hlay e he h9) (by
            simp only [List.length_append, hw.1]; omega)
      · refine (layerEnts_sorted hc).imp_of_mem ?_
        intro e1 e2 he1 he2 hlt x hx y hy
        obtain ⟨k1, v1⟩ := x
        obtain ⟨k2, v2⟩ := y
        obtain ⟨r1, rfl, h1⟩ := keys_of_entContent hF hlay hb he1 hx
        obtain ⟨r2, rfl, h2⟩ := keys_of_entContent hF hlay hb he2 hy
        obtain ⟨hw1, _⟩ := layerEnts_wf hc he1
        obtain ⟨hw2, _⟩ := layerEnts_wf hc he2
        show lexLt (p ++ (e1.kt.bytes ++ r1)) (p ++ (e2.kt.bytes ++ r2)) = true
        rw [lexLt_append_left]
        unfold KT.ltSpec at hlt
        simp only [Bool.or_eq_true, Bool.and_eq_true, beq_iff_eq, decide_eq_true_eq] at hlt
        rcases hlt with hlt | ⟨hbe, hlen⟩
        · rcases h1 with ⟨_, rfl⟩ | ⟨_, hb8, _⟩
          · rw [List.append_nil]
            exact lexLt_append_right_of_lt _ _ _ hlt
          · apply lexLt_append_both _ _ _ _ hlt
            rw [hb8]
            rcases h2 with ⟨h2l, _⟩ | ⟨_, h2b, _⟩
            · rw [bytes_len_of_short hw2 h2l]; exact h2l
            · rw [h2b]; exact Nat.le_refl _
        · rw [hbe]
          rcases h2 with ⟨h2l, _⟩ | ⟨h29, h2b, hr2⟩
          · exfalso
            have hl1 : e1.kt.len ≤ 8 := by omega
            have := bytes_len_of_short hw1 hl1
            rw [hbe, bytes_len_of_short hw2 h2l] at this
            omega
          · rcases h1 with ⟨_, rfl⟩ | ⟨h19, _, _⟩
            · rw [List.append_nil]
              exact lexLt_append_self _ _ hr2
            · omega

theorem content_sorted (t : Tree) (h : Inv t) :
    (content t).Pairwise (fun a b => lexLt a.1 b.1 = true) := by
  obtain ⟨_, hF, _⟩ := (inv_iff t).mp h
  unfold content
  exact sorted_contentFrom hF (t.length + 1) [] hF.root (by simp)

end Yak.Tree
