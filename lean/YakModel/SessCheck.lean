import YakModel.Proto.Session
import YakModel.Util
/-!
# Trace acceptor for the session table (`yakmodel sess N`)

Reads the event trace `scheddrv` recorded on the real `thread_info_table` (lines
`T step tid kind field slot obj value`), translates the announced accesses into `Session.Event`s
and feeds them to `Session.step?`. The first event that is not enabled in the model is reported.

Translation notes: a load's observed value is not in the trace (the access is announced before it
is performed) — the acceptor supplies the model's current value, so what is checked is the *order
and kind* of accesses each thread performs and the outcome of every CAS. The repaired `enter`
publishes its begin epoch in a loop; only the last (load, store) pair is passed on (the model's
enter publishes once), and the model's epoch is advanced by `epochInc` to the value the real
store carried.
-/
namespace Yak.SessCheck
open Yak.Proto.Session Yak.Util

structure Th where
  casPending : Option Nat := none      -- slot of an announced CAS whose outcome is not yet known
  pendingBegin : Option (Nat × Nat) := none   -- (slot, epoch) of the last begin-epoch store inside enter
  inLeave : Bool := false
deriving Inhabited

structure St where
  cfg : Cfg
  s : State
  th : List (Nat × Th) := []
  events : Nat := 0
  enters : Nat := 0
  fulls : Nat := 0
  casFails : Nat := 0

def getTh (st : St) (t : Nat) : Th := ((st.th.find? (·.1 == t)).map (·.2)).getD {}
def setTh (st : St) (t : Nat) (x : Th) : St := { st with th := (t, x) :: st.th.filter (·.1 != t) }

def feed (st : St) (e : Event) : Except String St :=
  match step? st.cfg st.s e with
  | some s' => .ok { st with s := s', events := st.events + 1 }
  | none => .error s!"event not enabled in the model: {repr e}"

/-- resolve an announced CAS of thread `t` as failed (the thread went on without a success note) -/
def flushCas (st : St) (t : Nat) : Except String St :=
  match (getTh st t).casPending with
  | none => .ok st
  | some i => do
    let st ← feed st (.casRunning t i false)
    .ok (setTh { st with casFails := st.casFails + 1 } t { getTh st t with casPending := none })

partial def incTo (st : St) (e : Nat) : Except String St :=
  if st.s.epoch < e then do
    let st ← feed st .epochInc
    incTo st e
  else .ok st

/-- one trace line -/
def stepLine (st : St) (line : String) : Except String St :=
  match words line with
  | ["T", _, tid, kind, field, slot, _, val] =>
    match tid.toNat?, kind.toNat?, field.toNat?, val.toNat? with
    | some t, some k, some f, some v =>
      let sl := slot.toNat?       -- "-1" for accesses outside the table
      -- kinds: 0 load 1 store 2 cas 6 note 7 cas_ok; fields: 6 running 7 begin 8 epoch 16 enter 17 leave 100 op end
      -- a CAS executes as soon as its thread resumes; its success note follows at once. Any other
      -- line therefore means every still-pending CAS (of any thread) has failed by now.
      let resolve (st : St) : Except String St :=
        st.th.foldlM (fun st (t', x) =>
          if x.casPending.isSome && !(t' == t && f == 6 && k == 7) then flushCas st t' else .ok st) st
      match resolve st with
      | .error e => .error e
      | .ok st =>
      if f == 6 && k == 7 then
        match (getTh st t).casPending with
        | some i => do
          let st ← feed st (.casRunning t i true)
          .ok (setTh st t { getTh st t with casPending := none })
        | none => .error "cas_ok without an announced CAS"
      else do
        let st ← if k == 6 && f == 100 then .ok st else flushCas st t
        match sl with
        | none =>
          if k == 6 && f == 100 then
            -- operation boundary; value 1 = enter returned WARN_MAX_SESSIONS
            if v == 1 then do
              let st ← flushCas st t
              let st ← feed st (.enterRet t none)
              .ok { st with fulls := st.fulls + 1 }
            else .ok st
          else .ok st
        | some i =>
          if f == 6 && k == 0 then feed st (.ldRunning t i (st.s.running i))
          else if f == 6 && k == 2 then .ok (setTh st t { getTh st t with casPending := some i })
          else if f == 8 && k == 0 then .ok st       -- epoch load: passed on together with the store
          else if f == 7 && k == 1 then
            if (getTh st t).inLeave then feed st (.stBegin t i 0)
            else .ok (setTh st t { getTh st t with pendingBegin := some (i, v) })
          else if f == 16 && k == 6 then
            match (getTh st t).pendingBegin with
            | some (j, e) =>
              if j != i then .error "enter returned a slot other than the one it published" else do
              let st ← incTo st e
              let st ← feed st (.ldEpoch t e)
              let st ← feed st (.stBegin t i e)
              let st ← feed st (.enterRet t (some i))
              .ok (setTh { st with enters := st.enters + 1 } t { getTh st t with pendingBegin := none })
            | none => .error "enter returned without publishing a begin epoch"
          else if f == 17 && k == 6 then do
            let st ← feed st (.leaveCall t i)
            .ok (setTh st t { getTh st t with inLeave := true })
          else if f == 6 && k == 1 then do
            let st ← feed st (.stRunning t i false)
            let st ← feed st (.leaveRet t)
            .ok (setTh st t { getTh st t with inLeave := false })
          else .ok st
    | _, _, _, _ => .error "bad-line"
  | _ => .ok st        -- other transcript lines are not the acceptor's business

end Yak.SessCheck
