import Std.Data.HashSet
import YakModel.Util
import YakModel.Proto.Leaf
/-!
# Outcome enumeration for `Proto/Leaf` scenarios (`yakmodel leaf`)

The correspondence check of the `Leaf` model: for a small scenario — some preloaded keys and a few
threads each with a short program of `get` / `put` / unique `put` / `remove` — this enumerates
**every interleaving** of the model's events (`Proto.Leaf.step?`, nothing else: the events a thread
can take are found by asking `step?` about each event constructor) and prints the set of result
tuples the model can produce. The harness runs the same scenario on the real code under many
schedules and requires every observed tuple to be in this set.

Scenario lines:

    cap 15                 optional, default 15
    fix 1                  `Cfg.fixD1`, default 1
    pre <key> <val>        initial content: a complete `put k v false` of thread 0 run alone
    thread <ops…>          one line per thread; ops `get:k  put:k:v  uput:k:v  rem:k`
    go                     print `LOUT <tuple>|<tuple>|…` and reset the scenario

A tuple lists the results of all operations, thread by thread in program order: get → `v<val>` /
`vnull` (OK without a value: the unrepaired reader) / `ne`; put → `ok` / `uq`; remove → `ok` / `nf`.

The state graph has cycles (readers and writers retry) and many confluent paths, so the search
keeps a hash set of visited states. A state is identified by its non-ghost part: version word,
permutation, key and value cells, the program counters of the scenario's threads, the number of
operations each thread has left, and the results each thread has obtained so far (taken from the
ghost history `State.hist`, per thread — the order of returns *across* threads, the clock and the
invocation times are dropped).
-/
namespace Yak.LeafCheck
open Yak.Util Yak.Proto.Leaf

/-- a search node: the model state and the operations each thread has not invoked yet -/
structure Node where
  s : State
  rem : Array (List OpKind)

/-- every event of thread `t` other than `invoke` -/
def protoEvents (t : Nat) : List Event :=
  [.ldVer t, .ldPerm t, .ldKeys t, .ldVer2 t, .ldVal t, .ldVer3 t, .lock t, .relook t, .setIns t,
   .stKey t, .stVal t, .stPerm t, .clearVal t, .unlock t, .ret t]

/-- Same state, with the `upd` chains of the function-valued fields flattened into arrays (the
    chains grow by one closure per step otherwise). Slots `≥ cap` are never written (`freeSlot`);
    threads `≥ nT` never move. -/
def norm (cap nT : Nat) (s : State) : State :=
  let ks := (Array.range cap).map s.keys
  let vs := (Array.range cap).map s.vals
  let pcs := (Array.range nT).map s.pc
  let ivs := (Array.range nT).map s.inv
  { s with keys := fun i => (ks[i]?).getD none, vals := fun i => (vs[i]?).getD none,
           pc := fun i => (pcs[i]?).getD .idle, inv := fun i => (ivs[i]?).getD 0 }

/-- the protocol steps thread `t` can take now (typically one; none while it has to wait) -/
def enabled (c : Cfg) (s : State) (t : Nat) : List State :=
  (protoEvents t).filterMap (step? c s)

/-- results of thread `t`, in program order, among the history entries after the preload -/
def resultsOf (npre : Nat) (s : State) (t : Nat) : List (OpKind × Res) :=
  ((s.hist.drop npre).filter (fun h => h.1 == t)).map (fun h => (h.2.1, h.2.2.1))

/-! ## canonical form of a state -/

/-- prefix-free encoding of a natural number into characters -/
partial def pushNat (acc : String) (n : Nat) : String :=
  if n < 0x4000 then acc.push (Char.ofNat n)
  else pushNat (acc.push (Char.ofNat (0x4000 + n % 0x4000))) (n / 0x4000)

def pushOpt (acc : String) : Option Nat → String
  | none => pushNat acc 0
  | some n => pushNat acc (n + 1)

def pushList (acc : String) (l : List Nat) : String :=
  l.foldl pushNat (pushNat acc l.length)

def pushOp (acc : String) : OpKind → String
  | .get k => pushNat (pushNat acc 0) k
  | .put k v u => pushNat (pushNat (pushNat acc (if u then 2 else 1)) k) v
  | .remove k => pushNat (pushNat acc 3) k

def pushRes (acc : String) : Res → String
  | .ok x => pushOpt (pushNat acc 0) x
  | .notExist => pushNat acc 1
  | .notFound => pushNat acc 2
  | .uniqueRestriction => pushNat acc 3

def pushPc (acc : String) : Pc → String
  | .idle => pushNat acc 0
  | .start op => pushOp (pushNat acc 1) op
  | .haveV op v1 => pushNat (pushOp (pushNat acc 2) op) v1
  | .haveP op v1 p => pushList (pushNat (pushOp (pushNat acc 3) op) v1) p
  | .looked op v1 hit => pushOpt (pushNat (pushOp (pushNat acc 4) op) v1) hit
  | .valid op v1 hit => pushOpt (pushNat (pushOp (pushNat acc 5) op) v1) hit
  | .gotVal op v1 x => pushOpt (pushNat (pushOp (pushNat acc 6) op) v1) x
  | .locked op hit => pushOpt (pushOp (pushNat acc 7) op) hit
  | .relooked op hit => pushOpt (pushOp (pushNat acc 8) op) hit
  | .insFlag op => pushOp (pushNat acc 9) op
  | .keyed op s => pushNat (pushOp (pushNat acc 10) op) s
  | .valued op s => pushNat (pushOp (pushNat acc 11) op) s
  | .published op r => pushRes (pushOp (pushNat acc 12) op) r
  | .cleared op s => pushNat (pushOp (pushNat acc 13) op) s
  | .done op r => pushRes (pushOp (pushNat acc 14) op) r

/-- number of leading slots after which all key and value cells are empty -/
def usedSlots (cap : Nat) (s : State) : Nat :=
  (List.range cap).foldl (fun hi i => if (s.keys i).isSome || (s.vals i).isSome then i + 1 else hi) 0

def canon (cap nT npre : Nat) (n : Node) : String := Id.run do
  let s := n.s
  let mut a := pushNat "" s.ver.vins
  a := pushNat a ((if s.ver.locked then 1 else 0) + (if s.ver.ins then 2 else 0))
  a := pushList a s.perm
  let hi := usedSlots cap s
  a := pushNat a hi
  for i in [0:hi] do
    a := pushOpt (pushOpt a (s.keys i)) (s.vals i)
  for t in [0:nT] do
    a := pushPc a (s.pc t)
    a := pushNat a ((n.rem[t]?).getD []).length
    let rs := resultsOf npre s t
    a := pushNat a rs.length
    for (_, r) in rs do
      a := pushRes a r
  return a

/-! ## the search -/

/-- all moves of all threads: an idle thread with operations left invokes the next one, a thread
    inside an operation takes a protocol step that `step?` enables now -/
def succs (c : Cfg) (nT : Nat) (n : Node) : List Node := Id.run do
  let mut out : List Node := []
  for t in [0:nT] do
    match n.s.pc t with
    | .idle =>
      match n.rem[t]? with
      | some (op :: os) =>
        match step? c n.s (.invoke t op) with
        | some s' => out := ⟨norm c.cap nT s', n.rem.set! t os⟩ :: out
        | none => pure ()
      | _ => pure ()
    | _ =>
      for s' in enabled c n.s t do
        out := ⟨norm c.cap nT s', n.rem⟩ :: out
  return out

def finished (nT : Nat) (n : Node) : Bool :=
  (List.range nT).all (fun t => n.s.pc t == .idle && ((n.rem[t]?).getD []).isEmpty)

def showRes : OpKind × Res → String
  | (.get _, .ok (some v)) => s!"v{v}"
  | (.get _, .ok none) => "vnull"
  | (.get _, .notExist) => "ne"
  | (.put _ _ _, .ok _) => "ok"
  | (.put _ _ _, .uniqueRestriction) => "uq"
  | (.remove _, .ok _) => "ok"
  | (.remove _, .notFound) => "nf"
  | _ => "?"

def showTuple (nT npre : Nat) (s : State) : String :=
  String.intercalate "," ((List.range nT).flatMap (fun t => (resultsOf npre s t).map showRes))

structure Out where
  line : String
  /-- distinct states visited -/
  states : Nat
  /-- states that are not final and have no move (a full node under an insert): should be 0 -/
  stuck : Nat

/-- depth-first over the state graph with a visited set -/
def search (c : Cfg) (nT npre : Nat) (n0 : Node) : Out := Id.run do
  let mut stack : List Node := [n0]
  let mut seen : Std.HashSet String := (∅ : Std.HashSet String).insert (canon c.cap nT npre n0)
  let mut outs : Std.HashSet String := ∅
  let mut stuck := 0
  repeat
    match stack with
    | [] => break
    | n :: rest =>
      stack := rest
      if finished nT n then
        outs := outs.insert (showTuple nT npre n.s)
      else
        let next := succs c nT n
        if next.isEmpty then stuck := stuck + 1
        for n' in next do
          let k := canon c.cap nT npre n'
          if !seen.contains k then
            seen := seen.insert k
            stack := n' :: stack
  let sorted := outs.toArray.qsort (· < ·)
  return ⟨"LOUT " ++ String.intercalate "|" sorted.toList, seen.size, stuck⟩

/-! ## scenarios -/

/-- one complete operation of thread `t` running alone: invoke, then the unique enabled step until
    the thread is idle again -/
partial def runAlone (c : Cfg) (nT : Nat) (s : State) (t : Nat) (op : OpKind) : Option State :=
  let rec go (s : State) : Option State :=
    if s.pc t == .idle then some s
    else match enabled c s t with
      | [s'] => go (norm c.cap nT s')
      | _ => none
  (step? c s (.invoke t op)).bind go

structure Scen where
  cap : Nat := 15
  fix : Bool := true
  pres : List (Nat × Nat) := []
  threads : List (List OpKind) := []

def parseOp (w : String) : Option OpKind :=
  match w.splitOn ":" with
  | ["get", k] => k.toNat?.map .get
  | ["put", k, v] => match k.toNat?, v.toNat? with
    | some k, some v => some (.put k v false)
    | _, _ => none
  | ["uput", k, v] => match k.toNat?, v.toNat? with
    | some k, some v => some (.put k v true)
    | _, _ => none
  | ["rem", k] => k.toNat?.map .remove
  | _ => none

def runScen (sc : Scen) : Except String Out :=
  let c : Cfg := { fixD1 := sc.fix, cap := sc.cap }
  let nT := max 1 sc.threads.length
  let s0 := sc.pres.foldl (fun (s : Option State) (k, v) => s.bind (fun s => runAlone c nT s 0 (.put k v false)))
    (some init)
  match s0 with
  | none => .error "pre-stuck"
  | some s0 => .ok (search c sc.threads.length s0.hist.length ⟨s0, sc.threads.toArray⟩)

/-- one input line; `go` yields the outcome line -/
def stepLine (sc : Scen) (line : String) : Except String (Scen × Option Out) :=
  match words ((line.splitOn "--").headD "") with
  | ["cap", n] =>
    match n.toNat? with
    | some n => .ok ({ sc with cap := n }, none)
    | none => .error "bad-line"
  | ["fix", f] => .ok ({ sc with fix := f != "0" }, none)
  | ["pre", k, v] =>
    match k.toNat?, v.toNat? with
    | some k, some v => .ok ({ sc with pres := sc.pres ++ [(k, v)] }, none)
    | _, _ => .error "bad-line"
  | "thread" :: ops =>
    match ops.mapM parseOp with
    | some os => .ok ({ sc with threads := sc.threads ++ [os] }, none)
    | none => .error "bad-line"
  | ["go"] =>
    match runScen sc with
    | .ok o => .ok ({}, some o)
    | .error e => .ok ({}, some ⟨"LERR " ++ e, 0, 0⟩)
  | [] => .ok (sc, none)
  | _ => .error "bad-line"

end Yak.LeafCheck
