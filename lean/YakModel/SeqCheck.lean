import YakModel.Scan
import YakModel.Storage
import YakModel.Cursor
import YakModel.Shape
import YakModel.BTreeOps
/-!
# Transcript checker for `seqdrv` (`yakmodel seq`)

Replays every `> op` line on the Lean model (`Sys`), compares the model's answer with the
implementation's `< result` line, compares every structure dump (`D`/`Y` lines) with the model's
layers — fences, counters, flags, entries — evaluates the executable invariants on the
implementation's dump, and recomputes `mem_usage` from the dump.
The absorb direction of an unlinked middle leaf is the model's only nondeterminism; the checker
keeps all candidates until the next dump of that storage decides.
-/
namespace Yak.SeqCheck
open Yak Yak.Tree Yak.Util Yak.Shape

def fnv (bs : List UInt8) : UInt64 :=
  bs.foldl (fun (h : UInt64) b => (h ^^^ b.toUInt64) * 1099511628211) 14695981039346656037

def hexOfNat (n : Nat) : String :=
  if n == 0 then "0" else
    let rec go (n : Nat) (fuel : Nat) (acc : List Char) : List Char :=
      match fuel with
      | 0 => acc
      | f + 1 => if n == 0 then acc else go (n / 16) f (nibble (n % 16) :: acc)
    String.ofList (go n 17 [])

def valStr (v : Val) : String := s!"{v.bytes.length}:{hexOfNat (fnv v.bytes).toNat}"

def statusStr : Status → String
  | .OK => "OK" | .WARN_NOT_EXIST => "WARN_NOT_EXIST"
  | .WARN_UNIQUE_RESTRICTION => "WARN_UNIQUE_RESTRICTION" | .OK_NOT_FOUND => "OK_NOT_FOUND"
  | .OK_ROOT_IS_NULL => "OK_ROOT_IS_NULL" | .ERR_BAD_USAGE => "ERR_BAD_USAGE"
  | .WARN_STORAGE_NOT_EXIST => "WARN_STORAGE_NOT_EXIST" | .OK_SCAN_END => "OK_SCAN_END"
  | .ERR_MODEL => "ERR_MODEL"

def refFlags (r : NodeRef) : Nat := (if r.deleted then 8 else 0) + (if r.root then 16 else 0) + 32
def idStr (p : List UInt8) (i : Nat) : String := s!"{bytesHex p}#{i}"
def refStr (r : NodeRef) : String :=
  s!"{idStr r.pfx r.idx}:{r.vins % 2^29}:{r.vsplit % 2^29}:{refFlags r}"

structure Sys where
  cfg : Cfg := {}
  capacity : Nat := 8
  storages : List (List UInt8 × Tree) := []
  sessions : List String := []
  cursors : List (String × List UInt8 × Cursor) := []
deriving Inhabited

def Sys.tree? (s : Sys) (n : List UInt8) : Option Tree := Storage.find s.storages n
def Sys.setTree (s : Sys) (n : List UInt8) (t : Tree) : Sys :=
  { s with storages := Storage.set s.storages n t }

def parseEP : String → EP
  | "E" => .excl | "I" => .incl | _ => .inf

/-- model step for one op line: new system(s) and the expected result text. More than one system
    is returned only for a remove that unlinked middle leaves. -/
def stepOp (s : Sys) (w : List String) : List Sys × String :=
  match w with
  | ["init"] => ([{ s with storages := [], sessions := [], cursors := [] }], "ok")
  | ["fin"] => ([{ s with storages := [], sessions := [], cursors := [] }], "ok")
  | ["destroy"] =>
    if s.storages.isEmpty then ([s], "OK_ROOT_IS_NULL")
    else ([{ s with storages := [], cursors := [] }], "OK_DESTROY_ALL")
  | ["create", n] =>
    match hexBytes? n with
    | none => ([s], "bad-op")
    | some n =>
      let (st', rc) := Storage.create s.storages n
      ([{ s with storages := st' }], statusStr rc)
  | ["delete", n] =>
    match hexBytes? n with
    | none => ([s], "bad-op")
    | some n =>
      let (st', rc) := Storage.delete s.storages n
      ([{ s with storages := st' }], statusStr rc)
  | ["find", n] =>
    match hexBytes? n with
    | none => ([s], "bad-op")
    | some n => ([s], statusStr (Storage.findStatus s.storages n))
  | ["list"] =>
    if s.storages.isEmpty then ([s], "WARN_NOT_EXIST 0")
    else
      let names := Storage.list s.storages
      ([s], s!"OK {names.length}" ++ String.join (names.map (fun n => " " ++ bytesHex n)))
  | ["enter", id] =>
    if s.sessions.length < s.capacity then ([{ s with sessions := id :: s.sessions.filter (· != id) }], "OK")
    else ([s], "WARN_MAX_SESSIONS")
  | ["leave", id] =>
    if s.sessions.contains id then ([{ s with sessions := s.sessions.filter (· != id) }], "OK")
    else ([s], "no-session")
  | ["put", sess, n, k, v, al, uniq, info] =>
    match hexBytes? n, hexBytes? k, hexBytes? v, al.toNat? with
    | some n, some k, some v, some al =>
      if !s.sessions.contains sess then ([s], "no-session") else
      let infoStr (m c : Option (List UInt8 × Nat)) : String :=
        let f := fun (x : Option (List UInt8 × Nat)) => match x with | some (p, i) => idStr p i | none => "-"
        if info == "new" then s!" mod {f m} cre {f c} vchg ok" else if info == "legacy" then s!" mod {f m}" else ""
      match s.tree? n with
      | none => ([s], "WARN_STORAGE_NOT_EXIST" ++ infoStr none none)
      | some t =>
        let al' := if al < 8 then 8 else al
        let o := Tree.put t k ⟨v, al'⟩ (uniq == "1")
        let base := statusStr o.status ++ (if o.status == .OK then " cvp 1" else "")
        ([s.setTree n o.tree], base ++ infoStr o.modified o.created)
    | _, _, _, _ => ([s], "bad-op")
  | ["get", n, k, want] =>
    match hexBytes? n, hexBytes? k with
    | some n, some k =>
      match s.tree? n with
      | none => ([s], "WARN_STORAGE_NOT_EXIST")
      | some t =>
        let o := Tree.get t k
        match o.status, o.val with
        | .OK, some v => ([s], "OK " ++ valStr v)
        | st, _ =>
          let nv := if want == "1" then (match o.node with | some r => " nv " ++ refStr r | none => " nv -") else ""
          ([s], statusStr st ++ nv)
    | _, _ => ([s], "bad-op")
  | ["remove", sess, n, k] =>
    match hexBytes? n, hexBytes? k with
    | some n, some k =>
      if !s.sessions.contains sess then ([s], "no-session") else
      match s.tree? n with
      | none => ([s], "WARN_STORAGE_NOT_EXIST")
      | some t =>
        let o := Tree.remove t k []
        if o.choices == 0 then ([s.setTree n o.tree], statusStr o.status)
        else
          -- enumerate all direction vectors of length `choices`
          let rec dirs : Nat → List (List Bool)
            | 0 => [[]]
            | m + 1 => (dirs m).flatMap (fun d => [false :: d, true :: d])
          (((dirs o.choices).map (fun d => s.setTree n (Tree.remove t k d).tree)), statusStr o.status)
    | _, _ => ([s], "bad-op")
  | ["scan", n, lk, le, rk, re, mx, r2l, nodes] =>
    match hexBytes? n, hexBytes? lk, hexBytes? rk, mx.toNat? with
    | some n, some lk, some rk, some mx =>
      let nvEmpty := if nodes == "1" then " nv 0" else ""
      match s.tree? n with
      | none => ([s], "WARN_STORAGE_NOT_EXIST 0" ++ nvEmpty)
      | some t =>
        let o := Tree.scan s.cfg t lk (parseEP le) rk (parseEP re) mx (r2l == "1")
        let tl := String.join (o.tuples.map (fun kv => s!" {bytesHex kv.1}={valStr kv.2}"))
        let nv := if nodes == "1" then s!" nv {o.nodes.length}" ++ String.join (o.nodes.map (fun r => " " ++ refStr r)) else ""
        ([s], s!"{statusStr o.status} {o.tuples.length}" ++ tl ++ nv)
    | _, _, _, _ => ([s], "bad-op")
  | ["iopen", c, n, lk, le, rk, re, r2l, _early] =>
    match hexBytes? n, hexBytes? lk, hexBytes? rk with
    | some n, some lk, some rk =>
      let s0 := { s with cursors := s.cursors.filter (·.1 != c) }
      match Cursor.open? lk (parseEP le) rk (parseEP re) (r2l == "1") with
      | none => ([s0], "ERR_BAD_USAGE")
      | some cur =>
        match s.tree? n with
        | none => ([s0], "WARN_STORAGE_NOT_EXIST")
        | some t =>
          match cur.next t with
          | (some (k, v), cur') => ([{ s0 with cursors := (c, n, cur') :: s0.cursors }], s!"OK {bytesHex k}={valStr v}")
          | (none, cur') => ([{ s0 with cursors := (c, n, cur') :: s0.cursors }], "OK_SCAN_END")
    | _, _, _ => ([s], "bad-op")
  | ["inext", c] =>
    match s.cursors.find? (·.1 == c) with
    | none => ([s], "no-cursor")
    | some (_, n, cur) =>
      match s.tree? n with
      | none => ([s], "ERR_MODEL")
      | some t =>
        match cur.next t with
        | (some (k, v), cur') =>
          ([{ s with cursors := s.cursors.map (fun x => if x.1 == c then (c, n, cur') else x) }],
           s!"OK {bytesHex k}={valStr v}")
        | (none, _) => ([s], "OK_SCAN_END")
  | ["iclose", c] =>
    if (s.cursors.find? (·.1 == c)).isSome then ([{ s with cursors := s.cursors.filter (·.1 != c) }], "OK")
    else ([s], "no-cursor")
  | ["dump", _] => ([s], "ok")
  | ["nvcheck"] => ([s], "stale 1")
  | ["sleep", _] => ([s], "ok")
  | _ => ([s], "unmodelled")

/-! ### comparing a dump with the model -/

def dvalOf (v : Val) : DVal := ⟨v.bytes.length, (fnv v.bytes).toNat, v.align⟩

def leafMatches (m : Leaf) (single : Bool) (d : DLeaf) : Bool :=
  m.fence == d.fence && m.vins % 2^29 == d.v.vins && m.vsplit % 2^29 == d.v.vsplit &&
  d.v.flags == (if m.deleted then 8 else 0) + (if single then 16 else 0) + 32 &&
  m.ents.length == d.ents.length &&
  (m.ents.zip d.ents).all (fun (a, b) => a.kt == b.kt && a.val.map dvalOf == b.val)

def treeMatches (t : Tree) (dump : List (List UInt8 × BTree)) : Bool :=
  t.length == dump.length &&
  dump.all fun (p, bt) =>
    match findLayer t p with
    | none => false
    | some L =>
      let ch := chainOf bt none
      L.leaves.length == ch.length &&
      (L.leaves.zip ch).all (fun (m, d) => leafMatches m (L.leaves.length == 1) d)

/-- first difference, for the report -/
def describeMismatch (t : Tree) (dump : List (List UInt8 × BTree)) : String :=
  if t.length != dump.length then s!"layer count model={t.length} impl={dump.length}" else
  match dump.find? (fun (p, bt) =>
    match findLayer t p with
    | none => true
    | some L =>
      let ch := chainOf bt none
      !(L.leaves.length == ch.length && (L.leaves.zip ch).all (fun (m, d) => leafMatches m (L.leaves.length == 1) d))) with
  | none => "no difference"
  | some (p, bt) =>
    match findLayer t p with
    | none => s!"layer {bytesHex p} missing in model"
    | some L =>
      let ch := chainOf bt none
      if L.leaves.length != ch.length then s!"layer {bytesHex p}: leaves model={L.leaves.length} impl={ch.length}"
      else
        let idx := ((L.leaves.zip ch).zipIdx.find? (fun (md, _) => !leafMatches md.1 (L.leaves.length == 1) md.2)).map (·.2)
        match idx with
        | none => "?"
        | some i =>
          let m := L.leaves.getD i emptyLeaf
          let d := ch.getD i default
          s!"layer {bytesHex p} leaf {i}: model fence={repr m.fence} vins={m.vins} vsplit={m.vsplit} del={m.deleted} n={m.ents.length} keys={repr (m.ents.map (·.kt.slice))} / impl fence={repr d.fence} vins={d.v.vins} vsplit={d.v.vsplit} flags={d.v.flags} n={d.ents.length} keys={repr (d.ents.map (·.kt.slice))}"

def memStr (rows : List MemRow) : String :=
  s!"{rows.length}" ++ String.join (rows.map (fun r => s!" {r.count},{r.used},{r.reserved}"))

/-! ### the line-by-line state machine -/

structure St where
  cands : List Sys := [{}]
  op : List String := []
  expect : String := ""
  dumpName : Option (List UInt8) := none
  dumpLeft : Nat := 0
  dumpAcc : List (List UInt8 × BTree) := []
  lastDump : List (List UInt8 × List (List UInt8 × BTree)) := []
  stats : List (String × Nat) := []
deriving Inhabited

def bump (st : St) (k : String) : St :=
  if st.stats.any (·.1 == k) then { st with stats := st.stats.map (fun x => if x.1 == k then (k, x.2 + 1) else x) }
  else { st with stats := st.stats ++ [(k, 1)] }

/-- the structural step check (class "shape"): every layer present in the previous dump of this
    storage and in the new one must be related by the step `BTreeOps` computes from the C++ rules. -/
def shapeSteps (st : St) (prev dump : List (List UInt8 × BTree)) : St × List (String × String) :=
  dump.foldl (fun (acc : St × List (String × String)) (p, bt) =>
    match prev.find? (·.1 == p) with
    | none => acc
    | some (_, old) =>
      match BTreeOps.stepCheck old bt with
      | none => (bump acc.1 "shape_no_verdict", acc.2)
      | some (labels, err) =>
        let st := labels.foldl bump (bump acc.1 "shape_steps")
        (st, acc.2 ++ (match err with
          | some m => [("shape", s!"layer {bytesHex p}: {m}")]
          | none => []))) (st, [])

/-- returns the differences found as (class, message): class "dump" as before, then class "shape" -/
def finishDump (st : St) (n : List UInt8) : St × List (String × String) :=
  let dump := st.dumpAcc.reverse
  let prev := match st.lastDump.find? (·.1 == n) with | some (_, d) => d | none => []
  let st := { st with dumpName := none, dumpAcc := [], lastDump := (n, dump) :: st.lastDump.filter (·.1 != n) }
  -- invariants on the implementation's own structure
  let invOk := dump.all (fun (p, bt) => checkLayer p bt) && checkLinks dump
  let good := st.cands.filter (fun s => match s.tree? n with | some t => treeMatches t dump | none => false)
  let st := bump st "dumps"
  let st := if dump.any (fun (_, bt) => match bt with | .interior .. => true | _ => false) then bump st "dumps_with_interior" else st
  let st := if dump.length > 1 then bump st "dumps_multi_layer" else st
  let (st, shapeErrs) := shapeSteps st prev dump
  if !invOk then (st, ("dump", s!"invariant check failed on the implementation's dump of storage {bytesHex n}") :: shapeErrs)
  else match good with
  | [] =>
    let msg := match st.cands.head? with
      | some s => (match s.tree? n with | some t => describeMismatch t dump | none => "storage missing in model")
      | none => "no candidate"
    (st, ("dump", s!"dump of storage {bytesHex n} differs from the model: {msg}") :: shapeErrs)
  | g => ({ st with cands := g }, shapeErrs)

def splitAtTok (s : String) (tok : String) : String × String :=
  match s.splitOn tok with
  | a :: rest => (a, String.intercalate tok rest)
  | [] => (s, "")

/-- split "status rest" style results into comparable parts: returns (class, model, impl) triples -/
def partsOf (opn : String) (exp got : String) : List (String × String × String) :=
  let cut (s : String) (tok : String) : String × String :=
    match s.splitOn tok with
    | a :: rest => (a, if rest.isEmpty then "" else tok ++ String.intercalate tok rest)
    | [] => (s, "")
  match opn with
  | "put" =>
    let (e1, e2) := cut exp " mod "
    let (g1, g2) := cut got " mod "
    let (e2a, e2b) := cut e2 " vchg "
    let (g2a, g2b) := cut g2 " vchg "
    [("kv", e1, g1), ("putinfo", e2a, g2a), ("vchg", e2b, g2b)]
  | "get" =>
    let (e1, e2) := cut exp " nv "
    let (g1, g2) := cut got " nv "
    [("kv", e1, g1), ("getnv", e2, g2)]
  | "remove" => [("kv", exp, got)]
  | "scan" =>
    let (e1, e2) := cut exp " nv "
    let (g1, g2) := cut got " nv "
    [("scan", e1, g1), ("scannv", e2, g2)]
  | "iopen" | "inext" | "iclose" => [("iscan", exp, (cut got " cb ").1)]
  | "create" | "delete" | "find" | "list" => [("storage", exp, got)]
  | "nvcheck" => [("phantom", exp, (cut got " of ").1)]
  | "enter" | "leave" => [("session", exp, got)]
  | "fin" => [("balance", exp, got)]
  | _ => [("misc", exp, got)]

/-- one transcript line; returns the differences found as (class, message) -/
def stepLine (st : St) (line : String) : St × List (String × String) :=
  if line.startsWith "> " then
    let w := words (line.drop 2).toString
    let cur := st.cands.headD {}
    let (nexts, exp) := stepOp cur w
    let st := { st with cands := nexts, op := w, expect := exp }
    let st := bump st ("op:" ++ w.headD "")
    let st := if nexts.length > 1 then bump st "absorb_choice" else st
    (st, [])
  else if line.startsWith "< " then
    let got := (line.drop 2).toString
    let opn := st.op.headD ""
    if st.expect == "unmodelled" then
      if opn == "mem" then
        let (a, b) := splitAtTok got " walker "
        let n := (hexBytes? (st.op.getD 1 "")).getD []
        let fromDump := match st.lastDump.find? (·.1 == n) with
          | some (_, d) => memStr (memUsage d)
          | none => "no-dump"
        if a != b then (st, [("mem", s!"mem_usage {a} differs from the walker's count {b}")])
        else if fromDump != a then (st, [("mem", s!"mem_usage {a} differs from the model over the dump {fromDump}")])
        else (bump st "mem_checked", [])
      else if opn == "balance" then
        let w := words got
        let errs := w.getD 7 "?"
        let strict := st.op.getD 1 "" == "strict"
        if errs != "0" then (st, [("balance", s!"allocation ledger error: {got}")])
        else if strict && (w.getD 1 "" != w.getD 4 "x" || w.getD 2 "" != w.getD 5 "x") then
          (st, [("balance", s!"live allocations differ from reachable objects: {got}")])
        else (bump st "balance_checked", [])
      else if opn == "epoch" then (st, [])
      else if opn == "flipcheck" then
        -- an overwrite that only changes the representation of the value (out-of-line → inline):
        -- `put_update_changes_nothing` — no version word may move
        if got == "absent" || got.endsWith "vchg ok" then (bump st "flip_checked", [])
        else (st, [("vchg", s!"an overwrite changed a node version: {got}")])
      else (st, [("misc", s!"unmodelled op {opn}")])
    else
      let ps := partsOf opn st.expect got
      let bad := ps.filter (fun (_, e, g) => e != g)
      let st := if opn == "scan" && (words got).getD 1 "0" != "0" then bump st "scan_nonempty" else st
      (st, bad.map (fun (c, e, g) => (c, s!"model={e} impl={g}")))
  else if line.startsWith "D " then
    match words line with
    | ["D", n, k] =>
      match hexBytes? n, k.toNat? with
      | some n, some k =>
        if k == 0 then
          if st.cands.all (fun s => (s.tree? n).isNone) then (st, [])
          else (st, [("storage", s!"storage {bytesHex n} exists in the model but not in the implementation")])
        else ({ st with dumpName := some n, dumpLeft := k, dumpAcc := [] }, [])
      | _, _ => (st, [("misc", "bad-line")])
    | _ => (st, [("misc", "bad-line")])
  else if line.startsWith "Y " then
    match st.dumpName with
    | none => (st, [("misc", "Y line outside a dump")])
    | some n =>
      match parseLayerLine (words line) with
      | none =>
        if line.startsWith "Y - NULLROOT" then (st, [("dump", "null root in dump")]) else (st, [("misc", "bad-line")])
      | some pl =>
        let st := { st with dumpAcc := pl :: st.dumpAcc, dumpLeft := st.dumpLeft - 1 }
        if st.dumpLeft == 0 then
          finishDump st n
        else (st, [])
  else if line.startsWith "WALKERR" then (st, [("walker", line)])
  else (st, [("misc", "bad-line")])

end Yak.SeqCheck
