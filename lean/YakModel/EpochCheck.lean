import YakModel.Util
/-!
# Invariant monitor for the reclamation protocol on real traces (`yakmodel epoch`)

`YakProps/C07.lean` proves, for every reachable state of `Proto/Epoch` (repaired enter):
* `epoch_window`: an active session has `1 ≤ begin ≤ E ≤ begin + 1` and `G < begin`;
* `retire_tag_is_recent`: a retire tag (the retirer's begin epoch) is `≥ E − 1`, and every session
  active at the retire has `begin ≤ tag + 1`;
* `no_premature_free`: an object is freed only after every session that was active when it was
  unlinked has left.
This monitor reconstructs `E`, `G`, the published begin epochs and the open sessions from the event
trace `scheddrv` records on the real code (lines `T step tid kind field slot obj value`, preceded by
`EPOCH0 e g` per run) and evaluates exactly these statements at the corresponding real events. A
violation means either the code breaks the protocol or the model is not a faithful abstraction of
it; both are reported.
-/
namespace Yak.EpochCheck
open Yak.Util

structure St where
  E : Nat := 1
  G : Nat := 0
  begin : List (Nat × Nat) := []          -- slot ↦ published begin epoch (0 entries removed)
  active : List (Nat × Nat) := []         -- slot ↦ session generation (enter returned, leave not called)
  gen : Nat := 0
  witness : List (String × List (Nat × Nat)) := []   -- retired object ↦ sessions active at its retire
  retired : Nat := 0
  reclaimed : Nat := 0
  incs : Nat := 0
  checks : Nat := 0

def bg (st : St) (i : Nat) : Nat := ((st.begin.find? (·.1 == i)).map (·.2)).getD 0

def windowOk (st : St) : Option String :=
  st.active.findSome? fun (i, _) =>
    let b := bg st i
    if b == 0 then some s!"active session on slot {i} has no begin epoch"
    else if !(b ≤ st.E ∧ st.E ≤ b + 1) then some s!"epoch_window violated: slot {i} begin={b} E={st.E}"
    else if !(st.G < b) then some s!"epoch_window violated: slot {i} begin={b} G={st.G}"
    else none

def stepLine (st : St) (line : String) : Except String St :=
  match words line with
  | ["EPOCH0", e, g] =>
    match e.toNat?, g.toNat? with
    | some e, some g => .ok { E := e, G := g }
    | _, _ => .error "bad-line"
  | ["T", _, _, kind, field, slot, obj, val] =>
    match kind.toNat?, field.toNat?, val.toNat? with
    | some k, some f, some v =>
      let sl := slot.toNat?
      if k == 3 && f == 8 then
        -- the epoch thread increments: every active session must sit at the current epoch
        let bad := st.active.find? (fun (i, _) => bg st i != st.E)
        match bad with
        | some (i, _) => .error s!"epoch incremented from {st.E} while the active session on slot {i} has begin {bg st i}"
        | none => .ok { st with E := st.E + 1, incs := st.incs + 1, checks := st.checks + 1 }
      else if k == 1 && f == 9 then
        -- The monitor's E comes from `EPOCH0` (read by the harness just before the run is put under
        -- the scheduler) plus the increments seen in the trace; the free-running epoch thread can
        -- tick once in between, unseen. A gc epoch equal to our E therefore means "E is one behind":
        -- resynchronise. Anything larger cannot be explained by that and is an error.
        let st := if v == st.E then { st with E := v + 1 } else st
        let st' := { st with G := v, checks := st.checks + 1 }
        if !(v < st.E) then .error s!"gc epoch {v} not below the global epoch {st.E}"
        else match windowOk st' with
          | some e => .error e
          | none => .ok st'
      else match sl with
      | none => .ok st
      | some i =>
        if k == 1 && f == 7 then
          -- a published begin epoch above our E: increments that happened before the library's
          -- epoch thread came under the scheduler (not in the trace); resynchronise
          let st := if v > st.E then { st with E := v } else st
          .ok { st with begin := if v == 0 then st.begin.filter (·.1 != i) else (i, v) :: st.begin.filter (·.1 != i) }
        else if k == 6 && f == 16 then
          let st' := { st with active := (i, st.gen + 1) :: st.active.filter (·.1 != i), gen := st.gen + 1, checks := st.checks + 1 }
          match windowOk st' with
          | some e => .error ("at enter return: " ++ e)
          | none => .ok st'
        else if k == 6 && f == 17 then
          let g := ((st.active.find? (·.1 == i)).map (·.2)).getD 0
          .ok { st with active := st.active.filter (·.1 != i),
                        witness := st.witness.map (fun (o, ws) => (o, ws.filter (· != (i, g)))) }
        else .ok st
    | _, _, _ =>
      .error "bad-line"
  | _ => .ok st

/-- retire / reclaim notes carry the object in the `obj` column and the tag in `value`; they have
    no slot (`-1`), so they are handled on the raw words. -/
def stepNotes (st : St) (line : String) : Except String St :=
  match words line with
  | ["T", _, _, "6", field, _, obj, val] =>
    match field.toNat?, val.toNat? with
    | some f, some tag =>
      if f == 12 || f == 13 then
        if !(st.E ≤ tag + 1) then .error s!"retire_tag_is_recent violated: tag {tag} at E={st.E}"
        else match st.active.find? (fun (j, _) => !(bg st j ≤ tag + 1)) with
          | some (j, _) => .error s!"retire with tag {tag} while the active session on slot {j} has begin {bg st j}"
          | none => .ok { st with witness := (obj, st.active) :: st.witness.filter (·.1 != obj), retired := st.retired + 1, checks := st.checks + 1 }
      else if f == 14 || f == 15 then
        match st.witness.find? (·.1 == obj) with
        | some (_, ws) =>
          if ws.isEmpty then .ok { st with witness := st.witness.filter (·.1 != obj), reclaimed := st.reclaimed + 1, checks := st.checks + 1 }
          else .error s!"no_premature_free violated: object {obj} (tag {tag}) reclaimed while sessions {ws.map (·.1)} that were active at its retire are still open (G={st.G})"
        | none => .ok { st with reclaimed := st.reclaimed + 1 }
      else .ok st
    | _, _ => .ok st
  | _ => .ok st

def step (st : St) (line : String) : Except String St := do
  let st ← stepLine st line
  stepNotes st line

end Yak.EpochCheck
