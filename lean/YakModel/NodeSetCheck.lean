import Std.Data.HashSet
import YakModel.Util
import YakModel.Proto.NodeSet
/-!
# Outcome enumeration for `Proto/NodeSet` scenarios (`yakmodel nodeset`)

The correspondence check of the `NodeSet` model (a chain of fenced leaves under inserting writers,
including leaf splits, and a version-collecting range scanner), sibling of `LeafCheck`: for a small
scenario this enumerates **every interleaving** of the model's events (`Proto.NodeSet.step?`,
nothing else: the events a thread can take are found by asking `step?` about each event
constructor, with every leaf id of the current chain as candidate for `wLock` / `sEnter`) and
prints the set of key lists the scan can return. The harness runs the same scenario on the real
code under many schedules and requires every observed key list to be in this set.

Scenario lines:

    cap 15                 optional, default 15
    pre <k1> <k2> …        keys inserted one after the other by writer thread 100 running alone,
                           with the model's own events (so fences, ids and counters are the model's);
                           several `pre` lines accumulate
    scan <a> <b>           the scanner (model thread 0) scans [a, b]
    writer <k1> <k2> …     one line per writer (model threads 1, 2, …): inserts in program order
    go                     print `NOUT <keys>|<keys>|…` and `NCHAIN <chain> || <chain> …`, reset

`NOUT`: the key lists of all reachable `SPc.fin a b keys nodes` of the scanner, each as comma
separated numbers (`-` = empty), sorted as strings, without duplicates. The invocation of the scan
(`sStart`) is an interleaved event too, so the scan may start after any number of writer steps.

`NCHAIN`: the chain of every reachable quiescent end state (scanner returned, all writers idle
with nothing left), each leaf as `lo:vins:vsplit:k1,k2,…` (`-` = no key), leaves separated by `|`,
different chains by ` || `.

The state graph has cycles (the scanner retries) and many confluent paths, so the search keeps a
hash set of visited states. A state is identified by its non-ghost part: the chain (ids, fences,
keys, counters, lock and dirty bits), `nextId`, the scanner's pc with everything it collected, the
pc and the remaining keys of every writer. Once the scanner has returned, its result is recorded
and no longer part of the identity (it cannot influence anything).
-/
namespace Yak.NodeSetCheck
open Yak.Util Yak.Proto.NodeSet

/-- a search node: the model state and the keys each writer has not started to insert yet
    (indexed by model thread id; slot 0, the scanner, stays empty) -/
structure Node where
  s : State
  rem : Array (List Nat)

/-- Same state, with the `upd` chains of the function-valued fields flattened (the chains grow by
    one closure per step otherwise). Threads `≥ nT` never move; thread 0 is the only scanner. -/
def norm (nT : Nat) (s : State) : State :=
  let ws := (Array.range nT).map s.w
  let p := s.sc 0
  { s with w := fun i => (ws[i]?).getD .idle, sc := fun i => if i = 0 then p else .idle }

def leafIds (s : State) : List Nat := s.chain.map (·.id)

/-- the steps the scanner can take now; `scan` = the interval of a scan that may still be invoked -/
def scanMoves (c : Cfg) (scan : Option (Nat × Nat)) (s : State) : List State :=
  match s.sc 0 with
  | .idle =>
    match scan with
    | some (a, b) => (step? c s (.sStart 0 a b)).toList
    | none => []
  | _ =>
    let evs : List Event := (leafIds s).map (fun i => Event.sEnter 0 i) ++ [.sLoadVer 0, .sSnapshot 0, .sValidate 0]
    evs.filterMap (step? c s)

/-- the ways idle writer `t` can lock a leaf for the insert of `k` (the owner of `k`, if unlocked) -/
def lockMoves (c : Cfg) (s : State) (t k : Nat) : List State :=
  (leafIds s).filterMap (fun i => step? c s (.wLock t k i))

/-- the protocol steps writer `t` can take inside an insert (one, by construction of the model) -/
def writerMoves (c : Cfg) (s : State) (t : Nat) : List State :=
  [Event.wInsert t, .wUnlock t, .wSplit t, .wUnlockL t, .wUnlockR t].filterMap (step? c s)

/-! ## canonical form of a state -/

/-- prefix-free encoding of a natural number into characters -/
partial def pushNat (acc : String) (n : Nat) : String :=
  if n < 0x4000 then acc.push (Char.ofNat n)
  else pushNat (acc.push (Char.ofNat (0x4000 + n % 0x4000))) (n / 0x4000)

def pushList (acc : String) (l : List Nat) : String :=
  l.foldl pushNat (pushNat acc l.length)

def pushLeaf (acc : String) (L : Leaf) : String :=
  pushList (pushNat (pushNat (pushNat (pushNat (pushNat acc L.id) L.lo) L.vins) L.vsplit)
    ((if L.locked then 1 else 0) + (if L.dirty then 2 else 0))) L.keys

def pushWPc (acc : String) : WPc → String
  | .idle => pushNat acc 0
  | .held k i => pushNat (pushNat (pushNat acc 1) k) i
  | .published k i => pushNat (pushNat (pushNat acc 2) k) i
  | .splitDone k i j => pushNat (pushNat (pushNat (pushNat acc 3) k) i) j
  | .splitHalf k j => pushNat (pushNat (pushNat acc 4) k) j

def pushPhase (acc : String) : Phase → String
  | .fresh => pushNat acc 0
  | .loaded vi vs => pushNat (pushNat (pushNat acc 1) vi) vs
  | .snapped vi vs snap => pushList (pushNat (pushNat (pushNat acc 2) vi) vs) snap

def pushRecs (acc : String) (ns : List NodeRec) : String :=
  ns.foldl (fun a r => pushNat (pushNat (pushNat a r.1) r.2.1) r.2.2) (pushNat acc ns.length)

/-- a returned scanner is one state whatever it returned -/
def pushSPc (acc : String) : SPc → String
  | .idle => pushNat acc 0
  | .want a b => pushNat (pushNat (pushNat acc 1) a) b
  | .run a b ks ns cur ph =>
    pushPhase (pushNat (pushRecs (pushList (pushNat (pushNat (pushNat acc 2) a) b) ks) ns) cur) ph
  | .fin .. => pushNat acc 3

def canon (nT : Nat) (n : Node) : String := Id.run do
  let s := n.s
  let mut a := pushNat (pushNat "" s.nextId) s.chain.length
  for L in s.chain do
    a := pushLeaf a L
  a := pushSPc a (s.sc 0)
  for t in [1:nT] do
    a := pushWPc a (s.w t)
    a := pushList a ((n.rem[t]?).getD [])
  return a

/-! ## the search -/

/-- all moves of all threads: the scanner's enabled steps, an idle writer with keys left locks the
    owner of its next key, a writer inside an insert takes the step that `step?` enables now -/
def succs (c : Cfg) (nT : Nat) (scan : Option (Nat × Nat)) (n : Node) : List Node := Id.run do
  let mut out : List Node := []
  for s' in scanMoves c scan n.s do
    out := ⟨norm nT s', n.rem⟩ :: out
  for t in [1:nT] do
    match n.s.w t with
    | .idle =>
      match n.rem[t]? with
      | some (k :: ks) =>
        for s' in lockMoves c n.s t k do
          out := ⟨norm nT s', n.rem.set! t ks⟩ :: out
      | _ => pure ()
    | _ =>
      for s' in writerMoves c n.s t do
        out := ⟨norm nT s', n.rem⟩ :: out
  return out

def scanReturned : SPc → Bool
  | .fin .. => true
  | _ => false

/-- nothing left to do: the scan (if any) has returned and every writer is idle without keys -/
def quiescent (nT : Nat) (scan : Option (Nat × Nat)) (n : Node) : Bool :=
  (scan.isNone || scanReturned (n.s.sc 0)) &&
    (List.range nT).all (fun t => n.s.w t == .idle && ((n.rem[t]?).getD []).isEmpty)

def showKeys (l : List Nat) : String :=
  if l.isEmpty then "-" else String.intercalate "," (l.map toString)

def showLeaf (L : Leaf) : String := s!"{L.lo}:{L.vins}:{L.vsplit}:{showKeys L.keys}"

def showChain (ch : List Leaf) : String := String.intercalate "|" (ch.map showLeaf)

def strictAsc : List Nat → Bool
  | a :: b :: rest => decide (a < b) && strictAsc (b :: rest)
  | _ => true

/-- the statements of C04/C06 evaluated on one result: strictly ascending, inside the interval,
    made of preloaded and writers' keys only, no preloaded key of the interval missing -/
def resultOk (a b : Nat) (pre new res : List Nat) : Bool :=
  strictAsc res && res.all (fun k => inRange a b k && (pre.contains k || new.contains k)) &&
    pre.all (fun k => !inRange a b k || res.contains k)

structure Out where
  lines : List String
  /-- distinct states visited -/
  states : Nat
  /-- states that are not quiescent and have no move: should be 0 -/
  stuck : Nat
  /-- results that violate `resultOk`: should be 0 -/
  viol : Nat

/-- depth-first over the state graph with a visited set -/
def search (c : Cfg) (nT : Nat) (scan : Option (Nat × Nat)) (pre new : List Nat) (n0 : Node) : Out := Id.run do
  let mut stack : List Node := [n0]
  let mut seen : Std.HashSet String := (∅ : Std.HashSet String).insert (canon nT n0)
  let mut outs : Std.HashSet String := ∅
  let mut chains : Std.HashSet String := ∅
  let mut stuck := 0
  let mut viol := 0
  repeat
    match stack with
    | [] => break
    | n :: rest =>
      stack := rest
      if quiescent nT scan n then
        chains := chains.insert (showChain n.s.chain)
      else
        let next := succs c nT scan n
        if next.isEmpty then stuck := stuck + 1
        for n' in next do
          -- results are recorded when they are produced: returned scanners share one identity
          match n.s.sc 0, n'.s.sc 0 with
          | .run .., .fin a b ks _ =>
            let o := showKeys ks
            if !outs.contains o then
              outs := outs.insert o
              if !resultOk a b pre new ks then viol := viol + 1
          | _, _ => pure ()
          let k := canon nT n'
          if !seen.contains k then
            seen := seen.insert k
            stack := n' :: stack
  let sorted := outs.toArray.qsort (· < ·)
  let sortedCh := chains.toArray.qsort (· < ·)
  return ⟨["NOUT " ++ String.intercalate "|" sorted.toList,
           "NCHAIN " ++ String.intercalate " || " sortedCh.toList], seen.size, stuck, viol⟩

/-! ## scenarios -/

/-- one complete insert of `k` by writer `t` running alone: lock the owner, then the unique enabled
    step until the writer is idle again -/
partial def runAlone (c : Cfg) (s : State) (t k : Nat) : Option State :=
  let rec go (s : State) : Option State :=
    if s.w t == .idle then some s
    else match writerMoves c s t with
      | [s'] => go s'
      | _ => none
  match lockMoves c s t k with
  | [s'] => go s'
  | _ => none

/-- the thread of the preload -/
def preThread : Nat := 100

structure Scen where
  cap : Nat := 15
  pres : List Nat := []
  scan : Option (Nat × Nat) := none
  writers : List (List Nat) := []

def runScen (sc : Scen) : Except String Out :=
  let c : Cfg := { cap := sc.cap }
  let nT := sc.writers.length + 1
  let s0 := sc.pres.foldl
    (fun (s : Option State) k => s.bind (fun s => (runAlone c s preThread k).map (norm nT))) (some init)
  match s0 with
  | none => .error "pre-stuck"
  | some s0 =>
    .ok (search c nT sc.scan sc.pres sc.writers.flatten ⟨norm nT s0, (#[[]] : Array (List Nat)) ++ sc.writers.toArray⟩)

/-- one input line; `go` yields the outcome lines -/
def stepLine (sc : Scen) (line : String) : Except String (Scen × Option Out) :=
  match words ((line.splitOn "--").headD "") with
  | ["cap", n] =>
    match n.toNat? with
    | some n => .ok ({ sc with cap := n }, none)
    | none => .error "bad-line"
  | "pre" :: ks =>
    match ks.mapM String.toNat? with
    | some ks => .ok ({ sc with pres := sc.pres ++ ks }, none)
    | none => .error "bad-line"
  | ["scan", a, b] =>
    match a.toNat?, b.toNat? with
    | some a, some b => .ok ({ sc with scan := some (a, b) }, none)
    | _, _ => .error "bad-line"
  | "writer" :: ks =>
    match ks.mapM String.toNat? with
    | some ks => .ok ({ sc with writers := sc.writers ++ [ks] }, none)
    | none => .error "bad-line"
  | ["go"] =>
    match runScen sc with
    | .ok o => .ok ({}, some o)
    | .error e => .ok ({}, some ⟨["NERR " ++ e], 0, 0, 0⟩)
  | [] => .ok (sc, none)
  | _ => .error "bad-line"

end Yak.NodeSetCheck
