import YakModel.Tree
/-!
# Well-formedness of the layered leaf chains (`Inv`, property C08)

`Inv t` is a decidable proposition; `checkInv` is its decision procedure. Everything here is
executable (no Mathlib): the file is linked into `yakmodel`.
-/
namespace Yak.Tree
open Yak

/-- all entries of a layer, in chain order -/
def layerEnts (leaves : List Leaf) : List Ent := leaves.flatMap (·.ents)

/-- one leaf on its own: at most 15 entries; every tuple well formed; an entry is a link iff its
    tuple has length 9; tuples strictly increasing; no entry below the leaf's own fence. -/
def LeafOK (l : Leaf) : Prop :=
  l.ents.length ≤ 15 ∧
  (∀ e ∈ l.ents, e.kt.WF ∧ (e.val = none ↔ e.kt.len = 9)) ∧
  l.ents.Pairwise (fun a b => KT.ltSpec a.kt b.kt = true) ∧
  (∀ f ∈ l.fence, ∀ e ∈ l.ents, KT.ltSpec e.kt f = false)

instance (l : Leaf) : Decidable (LeafOK l) := by unfold LeafOK; infer_instance

/-- leaf `a` is somewhere left of leaf `b` in a chain: `a`'s fence and all of `a`'s entries are
    strictly below `b`'s fence. -/
def Before (a b : Leaf) : Prop :=
  ∀ f ∈ b.fence, (∀ g ∈ a.fence, KT.ltSpec g f = true) ∧ ∀ e ∈ a.ents, KT.ltSpec e.kt f = true

instance (a b : Leaf) : Decidable (Before a b) := by unfold Before; infer_instance

/-- fences of a chain: the first leaf has none, every later leaf has a well-formed one that is
    not the empty tuple. -/
def FencesOK : List Leaf → Prop
  | [] => False
  | l :: ls => l.fence = none ∧ ∀ l' ∈ ls, ∃ f ∈ l'.fence, f.WF ∧ f.len ≠ 0

instance : (ls : List Leaf) → Decidable (FencesOK ls)
  | [] => by unfold FencesOK; infer_instance
  | _ :: _ => by unfold FencesOK; infer_instance

/-- the chain of one layer, without the emptiness clauses: at least one leaf, fences as above and
    strictly increasing, every leaf's entries inside its fence interval. -/
def LayerCore (leaves : List Leaf) : Prop :=
  FencesOK leaves ∧ leaves.Pairwise Before ∧ ∀ l ∈ leaves, LeafOK l

instance (ls : List Leaf) : Decidable (LayerCore ls) := by unfold LayerCore; infer_instance

/-- a leaf is empty only if it is the single leaf of layer `[]`; `deleted` only on an empty leaf
    (hence only on that root leaf). -/
def EmptOK (root : Bool) (leaves : List Leaf) : Prop :=
  ∀ l ∈ leaves, (l.ents = [] → root = true ∧ leaves.length = 1) ∧ (l.deleted = true → l.ents = [])

instance (r : Bool) (ls : List Leaf) : Decidable (EmptOK r ls) := by unfold EmptOK; infer_instance

/-- per layer `L` of tree `t`: prefix length a multiple of 8; the chain is well formed; every link
    entry has its layer; a layer with non-empty prefix holds no empty tuple (its keys continue a
    longer key) and is the target of a link entry in the layer one slice up. -/
def LayerOK (t : Tree) (L : Layer) : Prop :=
  L.pfx.length % 8 = 0 ∧ LayerCore L.leaves ∧ EmptOK L.pfx.isEmpty L.leaves ∧
  (∀ e ∈ layerEnts L.leaves, e.kt.len = 9 → ∃ L' ∈ t, L'.pfx = L.pfx ++ e.kt.slice) ∧
  (L.pfx ≠ [] →
    (∀ e ∈ layerEnts L.leaves, e.kt.len ≠ 0) ∧
    ∃ U ∈ t, U.pfx = L.pfx.take (L.pfx.length - 8) ∧
      ∃ e ∈ layerEnts U.leaves, e.kt = ⟨L.pfx.drop (L.pfx.length - 8), 9⟩)

instance (t : Tree) (L : Layer) : Decidable (LayerOK t L) := by unfold LayerOK; infer_instance

/-- the tree invariant: prefixes pairwise distinct, layer `[]` exists, every layer is `LayerOK`. -/
def Inv (t : Tree) : Prop :=
  (t.map (·.pfx)).Nodup ∧ (∃ L ∈ t, L.pfx = []) ∧ ∀ L ∈ t, LayerOK t L

instance (t : Tree) : Decidable (Inv t) := by unfold Inv; infer_instance

/-! ### the executable check

`Inv` states the order of a chain pairwise (every leaf against every later leaf), which is what the
proofs use. The check only compares neighbours — equivalent because fences are transitive
(`checkInv_iff` in `YakModel/Proofs/TreeProofs.lean`) — so it is linear in the length of a chain. -/

def beforeChain : List Leaf → Bool
  | [] => true
  | [_] => true
  | a :: b :: r => decide (Before a b) && beforeChain (b :: r)

def LayerCoreFast (leaves : List Leaf) : Prop :=
  FencesOK leaves ∧ beforeChain leaves = true ∧ ∀ l ∈ leaves, LeafOK l

instance (ls : List Leaf) : Decidable (LayerCoreFast ls) := by unfold LayerCoreFast; infer_instance

def LayerOKFast (t : Tree) (L : Layer) : Prop :=
  L.pfx.length % 8 = 0 ∧ LayerCoreFast L.leaves ∧ EmptOK L.pfx.isEmpty L.leaves ∧
  (∀ e ∈ layerEnts L.leaves, e.kt.len = 9 → ∃ L' ∈ t, L'.pfx = L.pfx ++ e.kt.slice) ∧
  (L.pfx ≠ [] →
    (∀ e ∈ layerEnts L.leaves, e.kt.len ≠ 0) ∧
    ∃ U ∈ t, U.pfx = L.pfx.take (L.pfx.length - 8) ∧
      ∃ e ∈ layerEnts U.leaves, e.kt = ⟨L.pfx.drop (L.pfx.length - 8), 9⟩)

instance (t : Tree) (L : Layer) : Decidable (LayerOKFast t L) := by unfold LayerOKFast; infer_instance

def InvFast (t : Tree) : Prop :=
  (t.map (·.pfx)).Nodup ∧ (∃ L ∈ t, L.pfx = []) ∧ ∀ L ∈ t, LayerOKFast t L

instance (t : Tree) : Decidable (InvFast t) := by unfold InvFast; infer_instance

def checkInv (t : Tree) : Bool := decide (InvFast t)

end Yak.Tree
