import YakModel.Scan
/-!
# Storages: a map from byte-string names to independent trees (`storage.h`, `storage_impl.h`)

The implementation keeps the directory in a tree of its own (names are keys, values are
`tree_instance`s); at this level only its map behaviour matters. The sequential checker
(`SeqCheck.stepOp`) uses exactly these functions.
-/
namespace Yak.Storage
open Yak Yak.Tree

abbrev Name := List UInt8
abbrev Stores := List (Name × Tree)

def find (s : Stores) (n : Name) : Option Tree := (s.find? (·.1 == n)).map (·.2)

/-- `create_storage`: unique insert of the name with a fresh (empty root) tree. -/
def create (s : Stores) (n : Name) : Stores × Status :=
  if (find s n).isSome then (s, .WARN_UNIQUE_RESTRICTION) else (s ++ [(n, Tree.empty)], .OK)

/-- `delete_storage`: removes the name and everything below it. -/
def delete (s : Stores) (n : Name) : Stores × Status :=
  if (find s n).isSome then (s.filter (·.1 != n), .OK) else (s, .WARN_NOT_EXIST)

def findStatus (s : Stores) (n : Name) : Status := if (find s n).isSome then .OK else .WARN_NOT_EXIST

/-- replace the tree of an existing storage (after a data operation on it) -/
def set (s : Stores) (n : Name) (t : Tree) : Stores := s.map (fun x => if x.1 == n then (n, t) else x)

/-- `list_storages`: all names in ascending bytewise order. -/
def list (s : Stores) : List Name := (s.map (·.1)).mergeSort (fun a b => !lexLt b a)

def listStatus (s : Stores) : Status := if s.isEmpty then .WARN_NOT_EXIST else .OK

/-- a data operation addressed by name: `WARN_STORAGE_NOT_EXIST` on an unknown name. -/
def withTree {α} (s : Stores) (n : Name) (missing : α) (f : Tree → α) : α :=
  match find s n with
  | none => missing
  | some t => f t

end Yak.Storage
