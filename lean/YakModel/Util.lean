/-! Small parsing / printing helpers shared by the transcript checkers (not part of any proof). -/
namespace Yak.Util

def hexDigit? (c : Char) : Option Nat :=
  if '0' ≤ c ∧ c ≤ '9' then some (c.toNat - '0'.toNat)
  else if 'a' ≤ c ∧ c ≤ 'f' then some (c.toNat - 'a'.toNat + 10)
  else if 'A' ≤ c ∧ c ≤ 'F' then some (c.toNat - 'A'.toNat + 10)
  else none

def hexToNat? (s : String) : Option Nat :=
  if s.isEmpty then none
  else s.foldl (fun acc c => match acc, hexDigit? c with
    | some a, some d => some (a * 16 + d)
    | _, _ => none) (some 0)

def hexW? (s : String) : Option (BitVec 64) := (hexToNat? s).map (BitVec.ofNat 64)

/-- "-" is the empty byte string; otherwise pairs of hex digits. -/
def hexBytes? (s : String) : Option (List UInt8) :=
  if s == "-" then some []
  else
    let cs := s.toList
    let rec go : List Char → List UInt8 → Option (List UInt8)
      | [], acc => some acc.reverse
      | [_], _ => none
      | a :: b :: rest, acc =>
        match hexDigit? a, hexDigit? b with
        | some x, some y => go rest (UInt8.ofNat (x * 16 + y) :: acc)
        | _, _ => none
    go cs []

def nibble (n : Nat) : Char :=
  if n < 10 then Char.ofNat ('0'.toNat + n) else Char.ofNat ('a'.toNat + n - 10)

def bytesHex (l : List UInt8) : String :=
  if l.isEmpty then "-"
  else String.ofList (l.flatMap (fun b => [nibble (b.toNat / 16), nibble (b.toNat % 16)]))

def natHex16 (n : Nat) : String :=
  String.ofList ((List.range 16).reverse.map (fun i => nibble ((n >>> (4 * i)) % 16)))

def wHex (w : BitVec 64) : String := natHex16 w.toNat

def words (s : String) : List String :=
  (s.splitOn " ").filter (· ≠ "")

end Yak.Util
