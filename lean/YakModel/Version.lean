import YakModel.Generated.Constants
/-!
# The node version word (`version.h`)

`Body` is `node_version64_body` as the source declares it (bit-fields); `encode`/`decode` give the
64-bit word GCC lays them out in, with shifts taken from `Generated/Constants.lean`.
Word-level operations are the ones `node_version64` performs: each computes `desired` from
`expected` exactly as the C++ does, field by field.
-/
namespace Yak.Version
open Yak.Const

abbrev W := BitVec 64

structure Body where
  vinsert : BitVec 29
  locked : Bool
  inserting : Bool
  splitting : Bool
  vsplit : BitVec 29
  deleted : Bool
  root : Bool
  border : Bool
deriving DecidableEq, Repr, Inhabited

/-- layout: LSB first `vinsert_delete:29, locked, inserting_deleting, splitting, vsplit:29,
    deleted, root, border`. -/
def encode (b : Body) : W :=
  BitVec.ofBool b.border ++ BitVec.ofBool b.root ++ BitVec.ofBool b.deleted ++ b.vsplit ++
  BitVec.ofBool b.splitting ++ BitVec.ofBool b.inserting ++ BitVec.ofBool b.locked ++ b.vinsert

def decode (w : W) : Body where
  vinsert := w.extractLsb' vinsertShift 29
  locked := w.getLsbD lockedBit
  inserting := w.getLsbD insertingBit
  splitting := w.getLsbD splittingBit
  vsplit := w.extractLsb' vsplitShift 29
  deleted := w.getLsbD deletedBit
  root := w.getLsbD rootBit
  border := w.getLsbD borderBit

/-- `node_version64_body::init()` / value-initialised body. -/
def Body.zero : Body := ⟨0, false, false, false, 0, false, false, false⟩

/-- what `node_version64::unlock` computes as `desired` from `expected`. -/
def Body.unlock (b : Body) : Body :=
  let b1 := if b.inserting then { b with vinsert := b.vinsert + 1, inserting := false } else b
  let b2 := if b1.splitting then { b1 with vsplit := b1.vsplit + 1, splitting := false } else b1
  { b2 with locked := false }

/-- `lock()`'s `desired` (only taken when `expected.locked` is false). -/
def Body.lock (b : Body) : Body := { b with locked := true }
def Body.incVinsert (b : Body) : Body := { b with vinsert := b.vinsert + 1 }
def Body.setBorder (b : Body) (tf : Bool) : Body := { b with border := tf }
def Body.setDeleted (b : Body) (tf : Bool) : Body := { b with deleted := tf }
def Body.setInserting (b : Body) (tf : Bool) : Body := { b with inserting := tf }
def Body.setRoot (b : Body) (tf : Bool) : Body := { b with root := tf }
def Body.setSplitting (b : Body) (tf : Bool) : Body := { b with splitting := tf }

/-- the condition under which `get_stable_version` returns. -/
def Body.stable (b : Body) : Bool := !b.inserting && !b.locked && !b.splitting

def unlockW (w : W) : W := encode (decode w).unlock
def lockW (w : W) : W := encode (decode w).lock
def incVinsertW (w : W) : W := encode (decode w).incVinsert
def setBorderW (w : W) (tf : Bool) : W := encode ((decode w).setBorder tf)
def setDeletedW (w : W) (tf : Bool) : W := encode ((decode w).setDeleted tf)
def setInsertingW (w : W) (tf : Bool) : W := encode ((decode w).setInserting tf)
def setRootW (w : W) (tf : Bool) : W := encode ((decode w).setRoot tf)
def setSplittingW (w : W) (tf : Bool) : W := encode ((decode w).setSplitting tf)
def stableW (w : W) : Bool := (decode w).stable

/-- pure word arithmetic for the same step: what a compiler emits for the bit-field code.
    Used to show the field view and the word view agree (`unlockW_eq_arith`). -/
def unlockArith (w : W) : W :=
  let m29 : W := 0x1FFFFFFF#64
  let w1 := if w.getLsbD insertingBit
            then ((w &&& ~~~m29) ||| ((w + 1#64) &&& m29)) &&& ~~~(1#64 <<< insertingBit)
            else w
  let w2 := if w1.getLsbD splittingBit
            then ((w1 &&& ~~~(m29 <<< vsplitShift)) |||
                  ((w1 + (1#64 <<< vsplitShift)) &&& (m29 <<< vsplitShift))) &&&
                 ~~~(1#64 <<< splittingBit)
            else w1
  w2 &&& ~~~(1#64 <<< lockedBit)

end Yak.Version
