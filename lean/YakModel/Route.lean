import YakModel.Shape
/-!
# Routing through interior nodes vs. routing by fences

The sequential model (`Tree.lean`) has no interior nodes: a layer is the chain of its leaves with
lower fences and a lookup goes to the last leaf whose fence is `≤` the key. The implementation
descends through interior nodes with `interior_node::get_child_of` (`routeIdx`). This file holds the
two executable definitions that are compared in `Proofs/RouteProofs.lean`:

* `descend`  — `find_border` on a dumped `BTree`: follow `routeIdx` until a border node;
* `byFence`  — the fence rule on the flattened chain `chainOf t lo`.

and the well-formedness predicates the comparison needs (`RouteWF`, `fencesSorted`).
-/
namespace Yak.Route
open Yak Yak.Shape

mutual
/-- `find_border`: descend by `get_child_of` until a border node is reached; returns the leaf's
    (version, entries). A malformed interior node (no child at the chosen index) returns `none`. -/
def descend : BTree → KT → Option (DVer × List DEnt)
  | .border v ents, _ => some (v, ents)
  | .interior _ keys children, k => descendAt children (routeIdx k keys) k

/-- `children.at(i)` followed by the descent into it. -/
def descendAt : List BTree → Nat → KT → Option (DVer × List DEnt)
  | [], _, _ => none
  | c :: _, 0, k => descend c k
  | _ :: cs, i + 1, k => descendAt cs i k
end

/-- `fence ≤ k`, i.e. `¬ k < fence` with `key_tuple::operator<`; no fence = −∞. -/
def fenceLe (f : Option KT) (k : KT) : Bool :=
  match f with
  | none => true
  | some f => !KT.lt k f

/-- the fence rule of the proof model: the last leaf of the chain whose fence is `≤ k`. -/
def byFence (ch : List DLeaf) (k : KT) : Option DLeaf :=
  (ch.filter (fun l => fenceLe l.fence k)).getLast?

/-- what `descend` reports about a leaf -/
def leafOut (l : DLeaf) : DVer × List DEnt := (l.v, l.ents)

/-- strict order on fences with `none` = −∞ as the least element (`key_tuple::operator<` on tuples). -/
def fenceLt : Option KT → Option KT → Bool
  | _, none => false
  | none, some _ => true
  | some f, some h => KT.lt f h

/-- the fences of a chain are strictly increasing (in particular only the first may be `none`).
    For `chainOf t lo` the first fence is `lo`, so this also says that every other fence — every
    separator inside `t` — is above the lower bound inherited from above. -/
def fencesSorted (ch : List DLeaf) : Prop :=
  ch.Pairwise (fun a b => fenceLt a.fence b.fence = true)

instance (ch : List DLeaf) : Decidable (fencesSorted ch) := by unfold fencesSorted; infer_instance

mutual
/-- what routing needs of the interior nodes: one more child than separators, separators strictly
    increasing and well formed — recursively. (All of it is evaluated by `checkInteriors`.) -/
def RouteWF : BTree → Prop
  | .border _ _ => True
  | .interior _ keys children =>
    children.length = keys.length + 1 ∧ sortedKTs keys = true ∧ (∀ s ∈ keys, s.WF) ∧
      RouteWFList children
def RouteWFList : List BTree → Prop
  | [] => True
  | c :: cs => RouteWF c ∧ RouteWFList cs
end

end Yak.Route
