import YakModel.Util
import YakModel.Version
import YakModel.Perm
import YakModel.KeyOrder
import YakModel.Value
/-!
Transcript checker for `unitdrv`: for a line `fn args = result` recompute `result` with the model.
`expected` returns `none` for a line it cannot parse (reported as bad-line, never defaulted).
-/
namespace Yak.UnitCheck
open Yak Yak.Util

def b2s (b : Bool) : String := if b then "1" else "0"

def parseKT? (s : String) : Option KT :=
  match s.splitOn "/" with
  | [h, l] => do
    let bs ← hexBytes? h
    let n ← l.toNat?
    if bs.length == 8 then some ⟨bs, n⟩ else none
  | _ => none

def ktStr (k : KT) : String := bytesHex k.slice ++ "/" ++ toString k.len

def parseKTs? (ws : List String) : Option (List KT) := ws.mapM parseKT?

/-- split `a b | c d | e` into groups at the "|" tokens -/
def groups (ws : List String) : List (List String) :=
  let r := ws.foldl (fun (acc : List (List String)) w =>
    if w == "|" then [] :: acc
    else match acc with
      | [] => [[w]]
      | g :: gs => (g ++ [w]) :: gs) [[]]
  r.reverse

def permOfSlots (l : List Nat) : Perm.W := Perm.ofList l

def expected (lhs : List String) : Option String :=
  match lhs with
  | ["ver.fields", w] => do
    let w ← hexW? w
    let b := Version.decode w
    some s!"{b.vinsert.toNat} {b2s b.locked} {b2s b.inserting} {b2s b.splitting} {b.vsplit.toNat} {b2s b.deleted} {b2s b.root} {b2s b.border}"
  | ["ver.unlock", w] => do let w ← hexW? w; some (wHex (Version.unlockW w))
  | ["ver.lock", w] => do let w ← hexW? w; some (wHex (Version.lockW w))
  | ["ver.incv", w] => do let w ← hexW? w; some (wHex (Version.incVinsertW w))
  | ["ver.setb", w, tf] => do let w ← hexW? w; some (wHex (Version.setBorderW w (tf == "1")))
  | ["ver.setd", w, tf] => do let w ← hexW? w; some (wHex (Version.setDeletedW w (tf == "1")))
  | ["ver.seti", w, tf] => do let w ← hexW? w; some (wHex (Version.setInsertingW w (tf == "1")))
  | ["ver.setr", w, tf] => do let w ← hexW? w; some (wHex (Version.setRootW w (tf == "1")))
  | ["ver.sets", w, tf] => do let w ← hexW? w; some (wHex (Version.setSplittingW w (tf == "1")))
  | ["ver.gsv", w] => do
    let w ← hexW? w
    if Version.stableW w then some (wHex w) else some "spins"
  | ["ver.init"] => some (wHex (Version.encode Version.Body.zero))
  | ["perm.cnk", w] => do let w ← hexW? w; some (toString (Perm.cnk w))
  | ["perm.empty", w] => do let w ← hexW? w; some (toString (Perm.getEmptySlot w))
  | ["perm.low", w] => do let w ← hexW? w; some (toString (Perm.lowestKeyPos w))
  | ["perm.idx", w, r] => do let w ← hexW? w; let r ← r.toNat?; some (toString (Perm.indexOfRank w r))
  | ["perm.del", w, r] => do let w ← hexW? w; let r ← r.toNat?; some (wHex (Perm.deleteRank w r))
  | ["perm.ins", w, r, p] => do
    let w ← hexW? w; let r ← r.toNat?; let p ← p.toNat?
    some (wHex (Perm.insertRank w r p))
  | ["perm.setcnk", w, c] => do let w ← hexW? w; let c ← c.toNat?; some (wHex (Perm.setCnk w c))
  | ["perm.split", n] => do let n ← n.toNat?; some (wHex (Perm.splitDest n))
  -- every mutator of the model is a function word → word: one publication of one word
  | ["perm.stores", _, _, _] => some "1"
  | "perm.rearr" :: "|" :: ents => do
    let es ← parseKTs? ents
    some (wHex (Perm.ofList (rearrangeOrder es)))
  | ["kt.lt", s1, l1, s2, l2] => do
    let a ← parseKT? (s1 ++ "/" ++ l1); let b ← parseKT? (s2 ++ "/" ++ l2)
    some (b2s (KT.lt a b))
  | ["kt.of", k] => do
    let k ← hexBytes? k
    let t := KT.ofKey k
    some s!"{bytesHex t.slice} {t.len}"
  | ["kt.min"] => some s!"{bytesHex KT.min.slice} {KT.min.len}"
  | ["kt.max"] => some s!"{bytesHex KT.max.slice} {KT.max.len}"
  | "bn.lookup" :: k :: "|" :: ents => do
    let k ← parseKT? k; let es ← parseKTs? ents
    match leafLookup k es with
    | some i => some (toString i)
    | none => some "-"
  | "bn.lookupnb" :: k :: "|" :: ents => do
    let k ← parseKT? k; let es ← parseKTs? ents
    match leafLookupNoBreak k es with
    | some i => some (toString i)
    | none => some "-"
  | "bn.rank" :: k :: "|" :: ents => do
    let k ← parseKT? k; let es ← parseKTs? ents
    some (toString (rankIfInsert k es))
  | "in.route" :: k :: "|" :: keys => do
    let k ← parseKT? k; let ks ← parseKTs? keys
    some (toString (routeIdx k ks))
  | "in.insert" :: k :: "|" :: keys => do
    let k ← parseKT? k; let ks ← parseKTs? keys
    let p := interiorInsertPos k ks
    let after := ks.take p ++ [k] ++ ks.drop p
    some (toString (p + 1) ++ " |" ++ String.join (after.map (fun x => " " ++ ktStr x)))
  | ["val.create", len, al] => do
    let len ← len.toNat?; let al ← al.toNat?
    let h := Value.mkHeader len al
    let (gsz, gal) := Value.gcInfo h
    some s!"new {Value.totalLen len al} {Value.effAlign al} tagdiff {wHex Value.valPtrFlag} isptr 1 bodyoff {h.align} bodymod 0 len {Value.getLen h} gc {gsz} {gal} need 1 bytes 1"
  | ["val.inline", x] => do
    let x ← hexW? x
    match Value.classify x with
    | .inlineVal v => some s!"{wHex v} isptr 0 len 8 body {wHex v}"
    | _ => some "not-inline"
  | ["lv.classify", w] => do
    let w ← hexW? w
    match Value.classify w with
    | .link c => some s!"{wHex c} {wHex 0} 0"
    | .empty => some s!"{wHex 0} {wHex 0} 0"
    | .outOfLine _ => some s!"{wHex 0} {wHex w} 1"
    | .inlineVal v => some s!"{wHex 0} {wHex v} 0"
  | ["lv.init"] => some (wHex Value.valPtrFlag)
  | ["lv.setnext", c] => do let c ← hexW? c; some (wHex (Value.setNextLayer c))
  | _ => none

/-- `ok` / diff message for one transcript line. -/
def checkLine (line : String) : Except String Unit :=
  match line.splitOn " = " with
  | [l, r] =>
    match expected (words l) with
    | some e => if e == r.trimAscii.toString then .ok () else .error s!"model={e} impl={r}"
    | none => .error "bad-line"
  | [l] =>
    -- lines such as "sizeof …" carry no model obligation here
    if l.startsWith "sizeof" then .ok () else .error "bad-line"
  | _ => .error "bad-line"

end Yak.UnitCheck
