/**
 * SIDE FINDING (not a mutant): a defect of the UNMODIFIED library that the first
 * version of demo.cpp ran into.  Same race as demo.cpp (two threads empty the two
 * border nodes L and S under a one-key root R at the same time), but the SAME
 * storage is refilled and reused for the next trial.
 *
 *  1. A (owner of S, S now empty) locks prev = L, sets L.next = nullptr, unlocks L.
 *     S.prev_ keeps pointing to L.  A then waits for R's lock.
 *  2. B (owner of L, L now empty) sees L.prev == nullptr and L.next == nullptr, so it
 *     updates nobody's prev_.  B gets R first and collapses it: S is promoted to
 *     Masstree root.  L goes to the garbage collector.
 *  3. A's lock_parent finds that S is the root now, so S is kept as the "empty
 *     deleted root" - with S.prev_ == L (deleted).
 *  4. The tree is refilled: insert_lv resurrects S (cnk == 0), S splits, S is a
 *     leftmost border again but with the stale prev_.  The next time S becomes
 *     empty, border_node::delete_of does
 *         retry_prev_lock: prev = get_prev(); prev->lock();
 *         if (prev->get_version_deleted() || ...) { unlock; goto retry_prev_lock; }
 *     forever (prev_ never changes), while holding S's lock; every other thread
 *     that needs S blocks behind it.  (Once L's memory is recycled it is a
 *     use-after-free instead.)
 *
 * Observed on the unmodified library: exits 1 ("did not terminate") after 1e3..2e4
 * trials (< 2 s) in 5 of 5 runs; gdb shows one remover looping in delete_of at
 * prev->lock() and the other one waiting for the first one's node.
 */
#include <atomic>
#include <chrono>
#include <cstdio>
#include <cstdlib>
#include <string>
#include <thread>
#include <unistd.h>

#include "kvs.h"

using namespace yakushima;

namespace {

constexpr const char* st = "s";
std::atomic<int> phase{0};       // trial number published to the workers
std::atomic<int> ready{0};       // workers that reached the start line
std::atomic<int> done{0};        // workers that finished the trial
std::atomic<bool> stop{false};
std::atomic<int> delay_a{0};
std::atomic<int> delay_b{0};
tree_instance* ti{};

std::string key_of(int i) { return std::string(1, static_cast<char>(0x10 + i)); }

[[noreturn]] void fail(const char* what, long trial) {
    std::printf("FAIL (trial %ld): %s\n", trial, what);
    std::fflush(stdout);
    _exit(1);
}

void spin(int n) {
    for (int i = 0; i < n; ++i) { _mm_pause(); }
}

void worker(int id, const std::string& my_key) {
    int seen = 0;
    for (;;) {
        // wait for the next trial
        while (phase.load(std::memory_order_acquire) == seen) {
            if (stop.load()) { return; }
        }
        seen = phase.load(std::memory_order_acquire);
        Token t{};
        if (enter(t) != status::OK) { fail("enter", seen); }
        ready.fetch_add(1);
        while (ready.load(std::memory_order_acquire) < 2) {}
        spin(id == 0 ? delay_a.load(std::memory_order_relaxed)
                     : delay_b.load(std::memory_order_relaxed));
        status rc = remove(t, ti, my_key);
        if (rc != status::OK) { fail("remove did not return OK", seen); }
        leave(t);
        done.fetch_add(1);
    }
}

// runs f in a helper thread; returns false if it did not finish in time
template<class F>
bool finishes(F f, int ms) {
    auto* fin_flag = new std::atomic<bool>(false);
    std::thread th([f, fin_flag] {
        f();
        fin_flag->store(true);
    });
    auto lim = std::chrono::steady_clock::now() + std::chrono::milliseconds(ms);
    while (!fin_flag->load()) {
        if (std::chrono::steady_clock::now() > lim) {
            th.detach();
            return false;
        }
        std::this_thread::sleep_for(std::chrono::microseconds(50));
    }
    th.join();
    delete fin_flag;
    return true;
}

} // namespace

int main(int argc, char** argv) {
    double budget_s = argc > 1 ? std::atof(argv[1]) : 25.0;
    FLAGS_stderrthreshold = 3; // keep glog quiet
    init();
    create_storage(st);
    if (storage::find_storage(st, &ti) != status::OK) { fail("find_storage", 0); }

    const std::string kL = key_of(0);   // stays in the left border
    const std::string kS = key_of(15);  // stays in the right border
    std::thread ta(worker, 0, kS);
    std::thread tb(worker, 1, kL);

    Token m{};
    enter(m);
    char v = 'v';
    auto t0 = std::chrono::steady_clock::now();
    long trial = 0;
    for (;;) {
        ++trial;
        double el = std::chrono::duration<double>(
                            std::chrono::steady_clock::now() - t0)
                            .count();
        if (el > budget_s) { break; }

        // ---- fresh storage for every trial (see README: the unmodified library
        //      must not be asked to reuse a tree after this race), then
        //      build R -> [L{kL}, S{kS}]
        for (int i = 0; i < 16; ++i) {
            if (put(m, ti, key_of(i), &v, false, 1) != status::OK) {
                fail("setup put", trial);
            }
        }
        for (int i = 1; i < 15; ++i) {
            if (remove(m, ti, key_of(i)) != status::OK) {
                fail("setup remove", trial);
            }
        }
        base_node* r = ti->load_root_ptr();
        if (r->get_version_border()) { fail("setup: root is not interior", trial); }

        // ---- race
        int d = static_cast<int>(trial % 97);
        delay_a.store((trial & 1) != 0 ? d : 0);
        delay_b.store((trial & 1) != 0 ? 0 : d);
        ready.store(0);
        done.store(0);
        phase.store(static_cast<int>(trial), std::memory_order_release);
        auto lim = std::chrono::steady_clock::now() + std::chrono::seconds(5);
        while (done.load() < 2) {
            if (std::chrono::steady_clock::now() > lim) {
                fail("the two concurrent remove() calls did not terminate", trial);
            }
        }

        // ---- quiescent checks
        base_node* root = ti->load_root_ptr();
        node_version64_body rv = root->get_version();
        if (rv.get_locked() || rv.get_inserting_deleting() || rv.get_splitting()) {
            fail("a lock / dirty bit is left on the root node at quiescence", trial);
        }
        if (!rv.get_root()) {
            std::printf("trial %ld: node %p is stored in the root pointer but its "
                        "root flag is false (deleted=%d border=%d): every later "
                        "operation restarts from the root forever.\n",
                        trial, static_cast<void*>(root), rv.get_deleted() ? 1 : 0,
                        rv.get_border() ? 1 : 0);
            bool ok = finishes(
                    [&] {
                        Token t{};
                        enter(t);
                        char c = 'x';
                        put(t, ti, "zz", &c, false, 1);
                        leave(t);
                    },
                    3000);
            if (!ok) { fail("put() issued at quiescence did not terminate within 3 s", trial); }
            fail("root flag lost", trial);
        }
        // cheap liveness probe every trial (terminates immediately when healthy)
        std::pair<char*, std::size_t> out{};
        (void) get<char>(ti, kL, out);
    }
    stop.store(true);
    ta.join();
    tb.join();
    leave(m);
    fin();
    std::printf("OK: %ld trials, no lock left held, all operations terminated\n", trial - 1);
    return 0;
}
