// Demonstration for mutant C04 / patch.diff  (scan_check_retry no longer restarts on a
// deleted border node)
//
// Stable keys "a000" .. "a049" are inserted once and never touched again.
// Churn threads keep inserting runs of keys that are larger than every stable
// key ("x...", "y...", "z...") and removing them again, so the border nodes at
// the right end of the tree are split, emptied, marked deleted and unlinked
// all the time.
//
// Scanner threads run right-to-left scans (max_size 1; unbounded, or with an
// inclusive left bound that is a stable key).  C04 for such a scan: the result
// must be exactly one entry, its key must not be smaller than the largest
// stable key "a049" (that key is present with an unchanged binding during the
// whole scan), and the value must be the value bound to the returned key.
//
// exit 0: no violation in RUN_SECONDS (default 15); exit 1: violation; exit 3: hang.
//
// (DEMO_FORWARD=1 additionally runs forward scans with an ordering / stable-key
// check.  It is off by default because the *unmodified* library has a known
// ordering problem of forward scans under this workload, see README.md.)

#include <atomic>
#include <chrono>
#include <cstdio>
#include <cstdlib>
#include <random>
#include <set>
#include <string>
#include <thread>
#include <unistd.h>
#include <vector>

#include "kvs.h"

using namespace yakushima;

static const std::string st{"demo"};
static constexpr int STABLE = 50;
static constexpr int CHURN_PER_BATCH = 40;
static constexpr int CHURN_THREADS = 3;
static constexpr int SCAN_THREADS = 4;

static std::atomic<bool> stop{false};
static std::atomic<bool> failed{false};
static std::atomic<bool> all_joined{false};
static std::atomic<std::uint64_t> n_scans{0};
static std::atomic<std::uint64_t> n_batches{0};
static bool with_forward{false};

using result_type = std::vector<std::tuple<std::string, char*, std::size_t>>;

static std::string stable_key(int i) {
    char b[16];
    snprintf(b, sizeof b, "a%03d", i);
    return b;
}
static std::string churn_key(int th, int i) {
    char b[16];
    snprintf(b, sizeof b, "%c%03d", "xyz"[th], i);
    return b;
}
static std::string value_of(const std::string& k) { return "v:" + k + ":v"; }

static std::vector<std::string> stable_keys; // sorted

static void do_put(Token t, const std::string& k) {
    std::string v = value_of(k);
    status rc = put(t, st, k, v.data(), v.size());
    if (rc != status::OK) {
        fprintf(stderr, "put(%s) failed rc=%d\n", k.c_str(), static_cast<int>(rc));
        std::abort();
    }
}

static void churn(int id) {
    std::mt19937 rng(1234 + id);
    while (!stop.load()) {
        Token t{};
        while (enter(t) != status::OK) { _mm_pause(); }
        int n = 1 + static_cast<int>(rng() % CHURN_PER_BATCH);
        for (int i = 0; i < n; ++i) { do_put(t, churn_key(id, i)); }
        // remove in ascending or descending order
        bool asc = (rng() & 1U) != 0;
        for (int j = 0; j < n; ++j) {
            int i = asc ? j : n - 1 - j;
            status rc = remove(t, st, churn_key(id, i));
            if (rc != status::OK) {
                fprintf(stderr, "remove failed rc=%d\n", static_cast<int>(rc));
                std::abort();
            }
        }
        leave(t);
        ++n_batches;
    }
}

static void report(const char* what, const std::string& detail, const result_type& res,
                   const std::string& l, bool r2l) {
    bool expected{false};
    if (!failed.compare_exchange_strong(expected, true)) { return; }
    fprintf(stderr,
            "C04 VIOLATION: %s (%s)\n  %s scan, left end %s: returned %zu entries, "
            "first=%s last=%s\n",
            what, detail.c_str(), r2l ? "right-to-left max_size=1" : "forward",
            l.empty() ? "-inf" : l.c_str(), res.size(),
            res.empty() ? "-" : std::get<0>(res.front()).c_str(),
            res.empty() ? "-" : std::get<0>(res.back()).c_str());
    stop.store(true);
}

static bool value_ok(const std::tuple<std::string, char*, std::size_t>& e) {
    std::string v = value_of(std::get<0>(e));
    return std::get<1>(e) != nullptr && std::get<2>(e) == v.size() &&
           memcmp(std::get<1>(e), v.data(), v.size()) == 0;
}

static void scanner(int id) {
    std::mt19937 rng(99 + id);
    result_type res;
    const std::string& max_stable = stable_keys.back();
    while (!stop.load()) {
        std::string l;
        scan_endpoint le = scan_endpoint::INF;
        if ((rng() & 1U) != 0) {
            l = stable_key(static_cast<int>(rng() % STABLE));
            le = scan_endpoint::INCLUSIVE;
        }
        bool forward = with_forward && (rng() % 4 == 0);
        Token t{};
        while (enter(t) != status::OK) { _mm_pause(); }
        if (!forward) {
            status rc = scan<char>(st, l, le, "", scan_endpoint::INF, res, nullptr, 1, true);
            ++n_scans;
            if (rc != status::OK) {
                report("scan failed", std::to_string(static_cast<int>(rc)), res, l, true);
            } else if (res.size() != 1) {
                report("right-to-left scan lost the stable keys",
                       "returned " + std::to_string(res.size()) +
                               " entries, expected 1 entry >= " + max_stable,
                       res, l, true);
            } else if (std::get<0>(res[0]) < max_stable) {
                report("right-to-left scan returned a key below a stable key",
                       std::get<0>(res[0]), res, l, true);
            } else if (!value_ok(res[0])) {
                report("value is not a binding of the key", std::get<0>(res[0]), res, l, true);
            }
        } else {
            status rc = scan<char>(st, l, le, "", scan_endpoint::INF, res);
            ++n_scans;
            if (rc != status::OK) {
                report("scan failed", std::to_string(static_cast<int>(rc)), res, l, false);
            }
            std::set<std::string> got;
            for (std::size_t i = 0; i < res.size(); ++i) {
                const std::string& k = std::get<0>(res[i]);
                got.insert(k);
                if (i > 0 && !(std::get<0>(res[i - 1]) < k)) {
                    report("not strictly ascending", k, res, l, false);
                }
                if (le != scan_endpoint::INF && k < l) {
                    report("key outside interval", k, res, l, false);
                }
                if (!value_ok(res[i])) {
                    report("value is not a binding of the key", k, res, l, false);
                }
            }
            for (auto& k : stable_keys) {
                if (le != scan_endpoint::INF && k < l) { continue; }
                if (got.count(k) == 0) {
                    report("stable key lost", k, res, l, false);
                    break;
                }
            }
        }
        leave(t);
    }
}

int main() {
    int run_seconds = 15;
    if (const char* e = getenv("RUN_SECONDS"); e != nullptr) { run_seconds = atoi(e); }
    with_forward = getenv("DEMO_FORWARD") != nullptr;
    init();
    create_storage(st);
    {
        Token t{};
        while (enter(t) != status::OK) { _mm_pause(); }
        for (int i = 0; i < STABLE; ++i) { stable_keys.push_back(stable_key(i)); }
        for (auto& k : stable_keys) { do_put(t, k); }
        leave(t);
    }
    std::vector<std::thread> th;
    for (int i = 0; i < CHURN_THREADS; ++i) { th.emplace_back(churn, i); }
    for (int i = 0; i < SCAN_THREADS; ++i) { th.emplace_back(scanner, i); }
    auto t0 = std::chrono::steady_clock::now();
    while (!stop.load() &&
           std::chrono::steady_clock::now() - t0 < std::chrono::seconds(run_seconds)) {
        std::this_thread::sleep_for(std::chrono::milliseconds(20));
    }
    stop.store(true);
    std::thread watchdog([] {
        for (int i = 0; i < 100 && !all_joined.load(); ++i) {
            std::this_thread::sleep_for(std::chrono::milliseconds(100));
        }
        if (!all_joined.load()) {
            fprintf(stderr, "HANG: worker threads did not finish within 10 s\n");
            _exit(3);
        }
    });
    for (auto& x : th) { x.join(); }
    all_joined.store(true);
    watchdog.join();
    double secs = std::chrono::duration<double>(std::chrono::steady_clock::now() - t0).count();
    fprintf(stderr, "%s after %.2f s: %llu scans, %llu insert/remove batches\n",
            failed.load() ? "FAILED" : "ok", secs,
            static_cast<unsigned long long>(n_scans.load()),
            static_cast<unsigned long long>(n_batches.load()));
    fin();
    return failed.load() ? 1 : 0;
}
