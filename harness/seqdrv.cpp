// seqdrv: drives the public API of /repo/include from a line protocol (one operation per line on
// stdin) and writes a transcript:
//   > <op line>            the operation, echoed
//   < <result>             what the implementation answered (canonical form)
//   Y <prefix> <tokens>    structure dump of one layer (after "dump"), preceded by "D <storage>"
//   WALKERR <msg>          a pointer-level inconsistency found by the walker
// `yakmodel seq` replays the ">" lines on the Lean model and compares every "<" and "Y" line.
#include <algorithm>
#include <functional>
#include <iostream>

#include "kvs.h"

#include "common.h"

using namespace yakushima;
using vh::hex;

static std::map<std::string, Token> g_sessions;
struct Cursor {
    iscan_context* ctx{nullptr};
    std::string storage;
    std::vector<std::pair<node_version64*, node_version64_body>> cbs;
    bool done{false};
};
static std::map<std::string, Cursor> g_cursors;

// (version, node) pairs collected by the most recent read that asked for them
static std::vector<std::pair<node_version64_body, node_version64*>> g_last_nv;

static std::map<const void*, std::uint64_t> version_snapshot(const std::string& name_raw) {
    std::map<const void*, std::uint64_t> m;
    tree_instance* ti{};
    if (find_storage(name_raw, &ti) != status::OK) return m;
    vh::Walker wk;
    wk.walk_tree(ti);
    for (auto& e : wk.vptr_id) {
        node_version64_body b = reinterpret_cast<const node_version64*>(e.first)->get_body();
        std::uint64_t x;
        std::memcpy(&x, &b, 8);
        m[e.first] = x;
    }
    return m;
}

static std::vector<std::string> split(const std::string& s) {
    std::vector<std::string> out;
    std::istringstream is(s);
    std::string w;
    while (is >> w) out.push_back(w);
    return out;
}

static scan_endpoint ep(const std::string& s) {
    if (s == "E") return scan_endpoint::EXCLUSIVE;
    if (s == "I") return scan_endpoint::INCLUSIVE;
    return scan_endpoint::INF;
}

static std::string st(status s) { return std::string(to_string_view(s)); }

static std::string ver_str(node_version64_body v) {
    std::ostringstream o;
    o << v.get_vinsert_delete() << ":" << v.get_vsplit() << ":" << vh::flags_of(v);
    return o.str();
}

static tree_instance* ti_of(const std::string& name_raw) {
    tree_instance* ti{};
    if (find_storage(name_raw, &ti) != status::OK) return nullptr;
    return ti;
}

static void walk_storage(const std::string& name_raw, vh::Walker& w) {
    tree_instance* ti = ti_of(name_raw);
    if (ti == nullptr) return;
    w.walk_tree(ti);
}

static std::string val_str(const char* p, std::size_t len) {
    std::ostringstream o;
    o << len << ":" << std::hex << vh::fnv(p, len);
    return o.str();
}

int main(int argc, char** argv) {
    FLAGS_logtostderr = true;
    FLAGS_minloglevel = 1;
    bool auto_dump = false;
    for (int i = 1; i < argc; ++i)
        if (std::string(argv[i]) == "--autodump") auto_dump = true;
    vh::ledger().enabled = true;
    std::string line;
    long base_n = 0, base_bytes = 0;
    std::vector<std::string> pending; // macro expansions, consumed before stdin
    for (;;) {
        if (!pending.empty()) {
            line = pending.back();
            pending.pop_back();
        } else if (!std::getline(std::cin, line)) {
            break;
        }
        auto w = split(line);
        if (w.empty() || w[0][0] == '#') continue;
        if (w[0] == "idrain" && w.size() == 3) {
            // call inext until it stops answering OK, at most n times (never after OK_SCAN_END)
            auto it = g_cursors.find(w[1]);
            std::size_t n = std::strtoull(w[2].c_str(), nullptr, 10);
            if (it != g_cursors.end() && it->second.ctx != nullptr && !it->second.done && n > 0) {
                pending.push_back("idrain " + w[1] + " " + std::to_string(n - 1));
                pending.push_back("inext " + w[1]);
            }
            continue;
        }
        if (w[0] == "phantom" && w.size() == 10) {
            // phantom <sess> <storage> <lkey> <lend> <rkey> <rend> <max> <r2l> <nprobe>
            // Runs the scan (silently) to learn what it covers, then expands into
            //   scan … 1 ; put probe ; nvcheck ; remove probe      for absent keys of the covered interval
            std::string n, lk, rk;
            vh::unhex(w[2], n); vh::unhex(w[3], lk); vh::unhex(w[5], rk);
            std::size_t mx = std::strtoull(w[7].c_str(), nullptr, 10);
            bool r2l = w[8] == "1";
            std::size_t nprobe = std::strtoull(w[9].c_str(), nullptr, 10);
            std::vector<std::tuple<std::string, char*, std::size_t>> tl;
            auto rc = scan<char>(n, lk, ep(w[4]), rk, ep(w[6]), tl, nullptr, mx, r2l);
            std::string scan_line = "scan " + w[2] + " " + w[3] + " " + w[4] + " " + w[5] + " " + w[6] + " " + w[7] + " " + w[8] + " 1";
            if (rc != status::OK) { pending.push_back(scan_line); continue; }
            // covered interval: the whole interval, or up to the last produced entry when limited
            auto in_iv = [&](const std::string& k) {
                if (w[4] == "I" && k < lk) return false;
                if (w[4] == "E" && k <= lk) return false;
                if (w[6] == "I" && k > rk) return false;
                if (w[6] == "E" && k >= rk) return false;
                bool limited = (mx != 0 && tl.size() >= mx) || r2l;
                if (limited) {
                    if (tl.empty()) return false;
                    const std::string& last = std::get<0>(tl.back());
                    if (!r2l && k > last) return false;
                    if (r2l && k < last) return false;
                }
                return true;
            };
            std::vector<std::string> cands;
            auto add_around = [&](const std::string& k) {
                cands.push_back(k + std::string(1, '\0'));
                cands.push_back(k + "a");
                if (!k.empty()) { cands.push_back(k.substr(0, k.size() - 1)); std::string z = k; z.back() = static_cast<char>(z.back() - 1); cands.push_back(z); z.push_back('\xff'); cands.push_back(z); }
                if (k.size() > 8) { cands.push_back(k.substr(0, 8)); cands.push_back(k.substr(0, 8) + std::string(1, '\0')); }
                // short keys that land in the border holding the link of k's layer, not in the layer
                if (k.size() >= 8) { cands.push_back(k.substr(0, 7)); cands.push_back(k.substr(0, 7) + "\xff"); cands.push_back(k.substr(0, 1)); }
            };
            add_around(lk); add_around(rk);
            for (auto& e : tl) add_around(std::get<0>(e));
            cands.push_back("");
            cands.push_back("m");
            // which candidates become probes varies with the read (deterministically)
            if (!cands.empty()) std::rotate(cands.begin(), cands.begin() + static_cast<long>(vh::fnv(scan_line.data(), scan_line.size()) % cands.size()), cands.end());
            std::vector<std::string> probes;
            for (auto& c : cands) {
                if (probes.size() >= nprobe) break;
                if (!in_iv(c) || c.size() > 200) continue;
                std::pair<char*, std::size_t> g{};
                if (get<char>(n, c, g) != status::WARN_NOT_EXIST) continue;
                if (std::find(probes.begin(), probes.end(), c) != probes.end()) continue;
                probes.push_back(c);
            }
            // expansion is consumed from the back
            for (auto it = probes.rbegin(); it != probes.rend(); ++it) {
                pending.push_back("remove " + w[1] + " " + w[2] + " " + hex(*it));
                pending.push_back("nvcheck");
                pending.push_back("put " + w[1] + " " + w[2] + " " + hex(*it) + " 70 1 0 none");
                pending.push_back(scan_line);
            }
            if (probes.empty()) pending.push_back(scan_line);
            continue;
        }
        if (w[0] == "phantom_iscan" && w.size() == 9) {
            // phantom_iscan <sess> <storage> <lkey> <lend> <rkey> <rend> <r2l> <nprobe>: a cursor drained to
            // the end with a callback that collects node versions, then inserts of absent keys of the interval
            std::string n, lk, rk;
            vh::unhex(w[2], n); vh::unhex(w[3], lk); vh::unhex(w[5], rk);
            std::size_t nprobe = std::strtoull(w[8].c_str(), nullptr, 10);
            std::vector<std::tuple<std::string, char*, std::size_t>> tl;
            auto rc = scan<char>(n, lk, ep(w[4]), rk, ep(w[6]), tl, nullptr, 0, false);
            std::string open_line = "iopen pc " + w[2] + " " + w[3] + " " + w[4] + " " + w[5] + " " + w[6] + " " + w[7] + " 0";
            if (rc != status::OK) { pending.push_back("iclose pc"); pending.push_back(open_line); continue; }
            auto in_iv = [&](const std::string& k) {
                if (w[4] == "I" && k < lk) return false;
                if (w[4] == "E" && k <= lk) return false;
                if (w[6] == "I" && k > rk) return false;
                if (w[6] == "E" && k >= rk) return false;
                return true;
            };
            std::vector<std::string> cands;
            auto add_around = [&](const std::string& k) {
                cands.push_back(k);
                cands.push_back(k + std::string(1, '\0'));
                cands.push_back(k + "a");
                if (!k.empty()) { cands.push_back(k.substr(0, k.size() - 1)); std::string z = k; z.back() = static_cast<char>(z.back() - 1); cands.push_back(z); z.push_back('\xff'); cands.push_back(z); }
                if (k.size() > 8) { cands.push_back(k.substr(0, 8)); cands.push_back(k.substr(0, 8) + std::string(1, '\0')); }
                if (k.size() >= 8) { cands.push_back(k.substr(0, 7)); cands.push_back(k.substr(0, 7) + "\xff"); cands.push_back(k.substr(0, 1)); }
            };
            add_around(lk); add_around(rk);
            for (auto& e : tl) add_around(std::get<0>(e));
            cands.push_back("m");
            if (!cands.empty()) std::rotate(cands.begin(), cands.begin() + static_cast<long>(vh::fnv(w[3].data(), w[3].size()) % cands.size()), cands.end());
            std::vector<std::string> probes;
            for (auto& c : cands) {
                if (probes.size() >= nprobe) break;
                if (!in_iv(c) || c.size() > 200) continue;
                std::pair<char*, std::size_t> g{};
                if (get<char>(n, c, g) != status::WARN_NOT_EXIST) continue;
                if (std::find(probes.begin(), probes.end(), c) != probes.end()) continue;
                probes.push_back(c);
            }
            for (auto it = probes.rbegin(); it != probes.rend(); ++it) {
                pending.push_back("remove " + w[1] + " " + w[2] + " " + hex(*it));
                pending.push_back("nvcheck");
                pending.push_back("put " + w[1] + " " + w[2] + " " + hex(*it) + " 70 1 0 none");
                pending.push_back("iclose pc");
                pending.push_back("idrain pc 1000000");
                pending.push_back(open_line);
            }
            if (probes.empty()) { pending.push_back("iclose pc"); pending.push_back("idrain pc 1000000"); pending.push_back(open_line); }
            continue;
        }
        if (w[0] == "phantom_get" && w.size() == 4) {
            // phantom_get <sess> <storage> <key>: a miss with checked_version, then the same key inserted
            std::string n, k;
            vh::unhex(w[2], n); vh::unhex(w[3], k);
            std::pair<char*, std::size_t> g{};
            bool miss = get<char>(n, k, g) == status::WARN_NOT_EXIST;
            if (miss) {
                pending.push_back("remove " + w[1] + " " + w[2] + " " + w[3]);
                pending.push_back("nvcheck");
                pending.push_back("put " + w[1] + " " + w[2] + " " + w[3] + " 70 1 0 none");
            }
            pending.push_back("get " + w[2] + " " + w[3] + " 1");
            continue;
        }
        std::cout << "> " << line << "\n";
        const std::string& op = w[0];
        std::ostringstream r;
        std::string dump_after;
        if (op == "init") {
            init();
            base_n = vh::ledger().n_aligned;
            base_bytes = vh::ledger().bytes_aligned;
            r << "ok";
        } else if (op == "fin") {
            for (auto& c : g_cursors) if (c.second.ctx) iscan_close(c.second.ctx);
            g_cursors.clear();
            g_sessions.clear();
            fin();
            // everything the library allocated (nodes, values: the aligned allocations) must be gone
            if (vh::ledger().n_aligned == 0) r << "ok";
            else r << "ok LEAK " << vh::ledger().n_aligned << " blocks " << vh::ledger().bytes_aligned << " bytes still allocated after fin()";
        } else if (op == "destroy") {
            r << st(destroy());
        } else if (op == "create" && w.size() == 2) {
            std::string n; vh::unhex(w[1], n);
            r << st(create_storage(n));
        } else if (op == "delete" && w.size() == 2) {
            std::string n; vh::unhex(w[1], n);
            r << st(delete_storage(n));
        } else if (op == "find" && w.size() == 2) {
            std::string n; vh::unhex(w[1], n);
            r << st(find_storage(n));
        } else if (op == "list") {
            std::vector<std::pair<std::string, tree_instance*>> out;
            auto rc = list_storages(out);
            r << st(rc) << " " << out.size();
            for (auto& e : out) r << " " << hex(e.first);
        } else if (op == "enter" && w.size() == 2) {
            Token t{};
            auto rc = enter(t);
            if (rc == status::OK) g_sessions[w[1]] = t;
            r << st(rc);
        } else if (op == "leave" && w.size() == 2) {
            auto it = g_sessions.find(w[1]);
            if (it == g_sessions.end()) r << "no-session";
            else { r << st(leave(it->second)); g_sessions.erase(it); }
        } else if (op == "put" && w.size() == 8) {
            // put <sess> <storage> <key> <val> <align> <unique> <info>
            std::string n, k, v;
            vh::unhex(w[2], n); vh::unhex(w[3], k); vh::unhex(w[4], v);
            std::size_t al = std::strtoull(w[5].c_str(), nullptr, 10);
            bool uniq = w[6] == "1";
            Token t = g_sessions.count(w[1]) ? g_sessions[w[1]] : nullptr;
            if (t == nullptr) { r << "no-session"; }
            else {
                char* created = nullptr;
                status rc{};
                inserted_node_info ini{nullptr, nullptr};
                node_version64* legacy = nullptr;
                std::map<const void*, std::uint64_t> vbefore;
                if (w[7] == "new") vbefore = version_snapshot(n);
                if (w[7] == "new") {
                    rc = put<char>(t, n, k, v.data(), v.size(), &created, static_cast<value_align_type>(al), uniq, &ini);
                } else if (w[7] == "legacy") {
                    rc = put<char>(t, n, k, v.data(), v.size(), &created, static_cast<value_align_type>(al), uniq, &legacy);
                } else {
                    rc = put<char>(t, n, k, v.data(), v.size(), &created, static_cast<value_align_type>(al), uniq,
                                   static_cast<inserted_node_info*>(nullptr));
                }
                r << st(rc);
                if (rc == status::OK) {
                    // created_value_ptr must designate the stored copy
                    std::pair<char*, std::size_t> g{};
                    auto grc = get<char>(n, k, g);
                    bool same = grc == status::OK && g.first == created && g.second == v.size() &&
                                std::memcmp(g.first, v.data(), v.size()) == 0 &&
                                (reinterpret_cast<std::uintptr_t>(created) % (al ? al : 1)) == 0;
                    r << " cvp " << (same ? 1 : 0);
                }
                if (w[7] == "new" || w[7] == "legacy") {
                    vh::Walker wk;
                    walk_storage(n, wk);
                    for (auto& e : wk.errors) std::cout << "WALKERR " << e << "\n";
                    if (w[7] == "new") {
                        r << " mod " << (ini.modified_nvp ? wk.id_of(ini.modified_nvp) : "-") << " cre "
                          << (ini.created_nvp ? wk.id_of(ini.created_nvp) : "-");
                        // direct oracle (C12): the border nodes whose version word differs before and
                        // after the call are exactly {modified}; `created` is a node that did not exist
                        auto vafter = version_snapshot(n);
                        std::vector<const void*> changed;
                        for (auto& e : vafter) {
                            auto it = vbefore.find(e.first);
                            if (it != vbefore.end() && it->second != e.second) changed.push_back(e.first);
                        }
                        bool ok = true;
                        if (ini.modified_nvp == nullptr) ok = changed.empty() && ini.created_nvp == nullptr;
                        else {
                            // the very first insert into a never-used root reports that root
                            ok = (changed.size() == 1 && changed[0] == ini.modified_nvp) ||
                                 (changed.empty() && vbefore.find(ini.modified_nvp) == vbefore.end());
                            if (ini.created_nvp != nullptr)
                                ok = ok && vbefore.find(ini.created_nvp) == vbefore.end() && vafter.find(ini.created_nvp) != vafter.end();
                        }
                        r << " vchg " << (ok ? "ok" : "BAD") ;
                        if (!ok) r << "(" << changed.size() << " changed)";
                    } else {
                        r << " mod " << (legacy ? wk.id_of(legacy) : "-");
                    }
                }
                dump_after = n;
            }
        } else if (op == "get" && w.size() == 4) {
            std::string n, k;
            vh::unhex(w[1], n); vh::unhex(w[2], k);
            std::pair<char*, std::size_t> g{};
            std::pair<node_version64_body, node_version64*> cv{};
            bool want = w[3] == "1";
            auto rc = get<char>(n, k, g, want ? &cv : nullptr);
            r << st(rc);
            if (rc == status::OK) {
                if (g.first == nullptr) r << " NULLVALUE";
                else r << " " << val_str(g.first, g.second);
            }
            if (want && rc == status::WARN_NOT_EXIST) {
                g_last_nv.clear();
                if (cv.second != nullptr) g_last_nv.emplace_back(cv.first, cv.second);
                if (cv.second == nullptr) r << " nv -";
                else {
                    vh::Walker wk;
                    walk_storage(n, wk);
                    r << " nv " << wk.id_of(cv.second) << ":" << ver_str(cv.first);
                }
            }
        } else if (op == "remove" && w.size() == 4) {
            std::string n, k;
            vh::unhex(w[2], n); vh::unhex(w[3], k);
            Token t = g_sessions.count(w[1]) ? g_sessions[w[1]] : nullptr;
            if (t == nullptr) r << "no-session";
            else { r << st(remove(t, n, k)); dump_after = n; }
        } else if (op == "scan" && w.size() == 9) {
            // scan <storage> <lkey> <lend> <rkey> <rend> <max> <r2l> <nodes>
            std::string n, lk, rk;
            vh::unhex(w[1], n); vh::unhex(w[2], lk); vh::unhex(w[4], rk);
            std::size_t mx = std::strtoull(w[6].c_str(), nullptr, 10);
            bool r2l = w[7] == "1", nodes = w[8] == "1";
            std::vector<std::tuple<std::string, char*, std::size_t>> tl;
            std::vector<std::pair<node_version64_body, node_version64*>> nv;
            auto rc = scan<char>(n, lk, ep(w[3]), rk, ep(w[5]), tl, nodes ? &nv : nullptr, mx, r2l);
            r << st(rc) << " " << tl.size();
            for (auto& e : tl) {
                r << " " << hex(std::get<0>(e)) << "=";
                if (std::get<1>(e) == nullptr) r << "NULLVALUE";
                else r << val_str(std::get<1>(e), std::get<2>(e));
            }
            if (nodes) {
                g_last_nv = nv;
                vh::Walker wk;
                walk_storage(n, wk);
                r << " nv " << nv.size();
                for (auto& e : nv) r << " " << wk.id_of(e.second) << ":" << ver_str(e.first);
            }
        } else if ((op == "iopen" && w.size() == 9) || (op == "inext" && w.size() == 2)) {
            // iopen <cur> <storage> <lkey> <lend> <rkey> <rend> <r2l> <early>
            Cursor* c = nullptr;
            status rc{};
            void* out = nullptr;
            std::vector<std::pair<node_version64*, node_version64_body>> cbs;
            auto cb = [&cbs](node_version64* p, node_version64_body b) { cbs.emplace_back(p, b); return false; };
            if (op == "iopen") {
                std::string n, lk, rk;
                vh::unhex(w[2], n); vh::unhex(w[3], lk); vh::unhex(w[5], rk);
                if (g_cursors.count(w[1]) && g_cursors[w[1]].ctx) iscan_close(g_cursors[w[1]].ctx);
                c = &g_cursors[w[1]];
                c->storage = n;
                g_last_nv.clear();
                rc = iscan_open(n, lk, ep(w[4]), rk, ep(w[6]), w[7] == "1", w[8] == "1", c->ctx, out, cb);
            } else {
                auto it = g_cursors.find(w[1]);
                if (it == g_cursors.end() || it->second.ctx == nullptr || it->second.done) { std::cout << "< no-cursor\n"; continue; }
                c = &it->second;
                rc = iscan_next(c->ctx, out, cb);
            }
            c->done = rc != status::OK;
            for (auto& e : cbs) g_last_nv.emplace_back(e.second, e.first);
            r << st(rc);
            if (rc == status::OK) {
                std::string fk = c->ctx->full_key();
                r << " " << hex(fk) << "=";
                std::pair<char*, std::size_t> g{};
                auto grc = get<char>(c->storage, fk, g);
                if (out == nullptr) r << "NULLVALUE";
                else if (grc != status::OK || g.first != out) r << "VALUE-MISMATCH";
                else r << val_str(g.first, g.second);
            }
            if (c->ctx != nullptr) {
                vh::Walker wk;
                walk_storage(c->storage, wk);
                r << " cb " << cbs.size();
                for (auto& e : cbs) r << " " << wk.id_of(e.first) << ":" << ver_str(e.second);
            } else {
                r << " cb " << cbs.size();
            }
        } else if (op == "iclose" && w.size() == 2) {
            auto it = g_cursors.find(w[1]);
            if (it == g_cursors.end() || it->second.ctx == nullptr) r << "no-cursor";
            else { r << st(iscan_close(it->second.ctx)); g_cursors.erase(it); }
        } else if (op == "mem" && w.size() == 2) {
            std::string n; vh::unhex(w[1], n);
            {
                // the dump the model recomputes mem_usage from
                vh::Walker wd;
                walk_storage(n, wd);
                std::cout << "D " << hex(n) << " " << wd.lines.size() << "\n";
                for (auto& l : wd.lines) std::cout << l << "\n";
                for (auto& e : wd.errors) std::cout << "WALKERR " << e << "\n";
            }
            auto ms = mem_usage(n);
            r << ms.size();
            for (auto& [cnt, used, res] : ms) r << " " << cnt << "," << used << "," << res;
            // independent oracle: the walker's own per-depth count
            vh::Walker wk;
            walk_storage(n, wk);
            r << " walker " << wk.depth.size();
            for (auto& [cnt, used, res] : wk.depth) r << " " << cnt << "," << used << "," << res;
        } else if (op == "dump" && w.size() == 2) {
            std::string n; vh::unhex(w[1], n);
            dump_after = n;
            r << "ok";
        } else if (op == "balance") {
            // live aligned allocations since init, against what the walker can reach
            std::size_t reach_nodes = 0, reach_vals = 0, reach_bytes = 0;
            std::vector<std::pair<std::string, tree_instance*>> out;
            list_storages(out);
            for (auto& e : out) {
                vh::Walker wk;
                wk.walk_tree(e.second);
                reach_nodes += wk.n_border + wk.n_interior;
                reach_vals += wk.n_values;
                reach_bytes += wk.value_bytes + wk.n_border * sizeof(border_node) + wk.n_interior * sizeof(interior_node);
            }
            {
                vh::Walker wk;
                wk.walk_tree(storage::get_storages());
                reach_nodes += wk.n_border + wk.n_interior;
                reach_vals += wk.n_values;
                reach_bytes += wk.value_bytes + wk.n_border * sizeof(border_node) + wk.n_interior * sizeof(interior_node);
            }
            r << "live " << (vh::ledger().n_aligned - base_n) << " " << (vh::ledger().bytes_aligned - base_bytes)
              << " reach " << (reach_nodes + reach_vals) << " " << reach_bytes << " errs " << vh::ledger().errors;
            if (vh::ledger().errors) r << " first: " << vh::ledger().first_error;
        } else if (op == "flipcheck" && w.size() == 4) {
            // flipcheck <sess> <storage> <key>: overwrite the (out-of-line) value of an existing key by an
            // inline, pointer-sized one. Only the representation of the value changes: no node version
            // may move. The generator follows this with an ordinary put of the same key.
            std::string n, k;
            vh::unhex(w[2], n); vh::unhex(w[3], k);
            Token t = g_sessions.count(w[1]) ? g_sessions[w[1]] : nullptr;
            std::pair<char*, std::size_t> g{};
            if (t == nullptr) r << "no-session";
            else if (get<char>(n, k, g) != status::OK) r << "absent";
            else {
                auto vb = version_snapshot(n);
                static std::uintptr_t ctr = 0x1000;
                std::uintptr_t x = (ctr += 16);
                auto rc = put<std::uintptr_t>(t, n, k, &x, sizeof(x));
                auto va = version_snapshot(n);
                std::size_t changed = 0;
                for (auto& e : va) {
                    auto it = vb.find(e.first);
                    if (it == vb.end() || it->second != e.second) ++changed;
                }
                r << st(rc) << " vchg " << (changed == 0 && va.size() == vb.size() ? "ok" : "BAD");
                if (changed) r << "(" << changed << " changed)";
            }
        } else if (op == "nvcheck") {
            // re-read the stable version of every collected node: at least one must differ
            std::size_t stale = 0;
            for (auto& e : g_last_nv) if (e.second->get_stable_version() != e.first) ++stale;
            r << "stale " << (stale > 0 ? 1 : 0) << " of " << g_last_nv.size();
        } else if (op == "sleep" && w.size() == 2) {
            std::this_thread::sleep_for(std::chrono::milliseconds(std::strtoull(w[1].c_str(), nullptr, 10)));
            r << "ok";
        } else if (op == "epoch") {
            r << epoch_management::get_epoch() << " " << garbage_collection::get_gc_epoch();
        } else {
            r << "bad-op";
        }
        std::cout << "< " << r.str() << "\n";
        if (!dump_after.empty() && (auto_dump || op == "dump")) {
            vh::Walker wk;
            walk_storage(dump_after, wk);
            std::cout << "D " << hex(dump_after) << " " << wk.lines.size() << "\n";
            for (auto& l : wk.lines) std::cout << l << "\n";
            for (auto& e : wk.errors) std::cout << "WALKERR " << e << "\n";
        }
    }
    std::cout.flush();
    return 0;
}
