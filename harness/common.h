// Shared pieces of the harnesses: allocation ledger (operator new/delete interposer), hex helpers,
// structure walker. Include exactly once per program, after "kvs.h".
#pragma once
#include <atomic>
#include <cinttypes>
#include <cstdio>
#include <cstdlib>
#include <cstring>
#include <map>
#include <mutex>
#include <new>
#include <sstream>
#include <string>
#include <unordered_map>
#include <vector>

namespace vh {

// ---------- allocation ledger ----------
struct Ledger {
    std::mutex mu;
    std::unordered_map<void*, std::pair<std::size_t, std::size_t>> live; // ptr -> (size, align)
    std::atomic<long> n_aligned{0};
    std::atomic<long> bytes_aligned{0};
    std::atomic<long> n_plain{0};
    std::atomic<long> errors{0};
    std::string first_error;
    bool enabled{false};
    void err(const std::string& s) {
        if (errors.fetch_add(1) == 0) first_error = s;
    }
};
inline Ledger& ledger() {
    static Ledger* l = new (malloc(sizeof(Ledger))) Ledger(); // never destroyed
    return *l;
}
static thread_local bool g_in_ledger = false;

inline void* aligned_alloc_tracked(std::size_t sz, std::size_t al) {
    void* p = nullptr;
    std::size_t a = al < sizeof(void*) ? sizeof(void*) : al;
    if (posix_memalign(&p, a, sz ? sz : 1) != 0) throw std::bad_alloc();
    Ledger& L = ledger();
    if (L.enabled && !g_in_ledger) {
        g_in_ledger = true;
        {
            std::lock_guard<std::mutex> g(L.mu);
            L.live[p] = {sz, al};
        }
        L.n_aligned++;
        L.bytes_aligned += static_cast<long>(sz);
        g_in_ledger = false;
    }
    return p;
}
inline void aligned_free_tracked(void* p, std::size_t sz, std::size_t al, bool sized) {
    if (p == nullptr) return;
    Ledger& L = ledger();
    if (L.enabled && !g_in_ledger) {
        g_in_ledger = true;
        {
            std::lock_guard<std::mutex> g(L.mu);
            auto it = L.live.find(p);
            if (it == L.live.end()) {
                L.err("free of untracked or already freed block");
            } else {
                if (sized && (it->second.first != sz || it->second.second != al)) {
                    std::ostringstream o;
                    o << "sized delete mismatch: allocated (" << it->second.first << "," << it->second.second
                      << ") freed (" << sz << "," << al << ")";
                    L.err(o.str());
                }
                L.n_aligned--;
                L.bytes_aligned -= static_cast<long>(it->second.first);
                L.live.erase(it);
            }
        }
        g_in_ledger = false;
    }
    free(p);
}

// is `p` inside a live tracked block? (inline values come back from get/scan as a "pointer" that is
// the value itself and must not be dereferenced)
inline bool ptr_is_heap(const void* p) {
    Ledger& L = ledger();
    auto a = reinterpret_cast<std::uintptr_t>(p);
    std::lock_guard<std::mutex> g(L.mu);
    for (auto& e : L.live) {
        auto b = reinterpret_cast<std::uintptr_t>(e.first);
        if (a >= b && a < b + e.second.first) return true;
    }
    return false;
}

// size and alignment the library asked for when it allocated the live block that contains `p`
inline bool block_info(const void* p, std::size_t& sz, std::size_t& al) {
    Ledger& L = ledger();
    auto a = reinterpret_cast<std::uintptr_t>(p);
    std::lock_guard<std::mutex> g(L.mu);
    for (auto& e : L.live) {
        auto b = reinterpret_cast<std::uintptr_t>(e.first);
        if (a >= b && a < b + e.second.first) { sz = e.second.first; al = e.second.second; return true; }
    }
    return false;
}

// ---------- hex ----------
inline std::string hex(std::string_view s) {
    if (s.empty()) return "-";
    static const char* d = "0123456789abcdef";
    std::string o;
    o.reserve(s.size() * 2);
    for (unsigned char c : s) {
        o.push_back(d[c >> 4]);
        o.push_back(d[c & 15]);
    }
    return o;
}
inline bool unhex(const std::string& h, std::string& out) {
    out.clear();
    if (h == "-") return true;
    if (h.size() % 2) return false;
    auto v = [](char c) -> int {
        if (c >= '0' && c <= '9') return c - '0';
        if (c >= 'a' && c <= 'f') return c - 'a' + 10;
        if (c >= 'A' && c <= 'F') return c - 'A' + 10;
        return -1;
    };
    for (std::size_t i = 0; i < h.size(); i += 2) {
        int a = v(h[i]), b = v(h[i + 1]);
        if (a < 0 || b < 0) return false;
        out.push_back(static_cast<char>(a * 16 + b));
    }
    return true;
}
inline std::uint64_t fnv(const void* p, std::size_t n) {
    std::uint64_t h = 14695981039346656037ULL;
    const auto* b = static_cast<const unsigned char*>(p);
    for (std::size_t i = 0; i < n; ++i) {
        h ^= b[i];
        h *= 1099511628211ULL;
    }
    return h;
}
inline std::string slice_hex(std::uint64_t s) {
    return hex(std::string_view(reinterpret_cast<const char*>(&s), 8));
}

} // namespace vh

// global replacement of the aligned forms (nodes are alignas(64), values use aligned new)
void* operator new(std::size_t sz, std::align_val_t al) {
    return vh::aligned_alloc_tracked(sz, static_cast<std::size_t>(al));
}
void operator delete(void* p, std::size_t sz, std::align_val_t al) noexcept {
    vh::aligned_free_tracked(p, sz, static_cast<std::size_t>(al), true);
}
void operator delete(void* p, std::align_val_t al) noexcept {
    vh::aligned_free_tracked(p, 0, static_cast<std::size_t>(al), false);
}

namespace vh {
using namespace yakushima;

inline unsigned flags_of(node_version64_body v) {
    return (v.get_locked() ? 1u : 0u) | (v.get_inserting_deleting() ? 2u : 0u) | (v.get_splitting() ? 4u : 0u) |
           (v.get_deleted() ? 8u : 0u) | (v.get_root() ? 16u : 0u) | (v.get_border() ? 32u : 0u);
}

// ---------- structure walker ----------
// Emits, per layer, one line  "Y <prefixhex> <pre-order tokens>"  and checks the pointer-level facts
// the functional model has by construction. node ids: "<prefixhex>#<leaf index in chain order>".
struct Walker {
    std::vector<std::string> lines;
    std::vector<std::string> errors;
    std::map<const void*, std::string> vptr_id; // version ptr -> id
    std::size_t n_border{0}, n_interior{0}, n_values{0};
    std::size_t value_bytes{0};
    // per-depth counts for the independent mem_usage oracle: (nodes, used, reserved)
    std::vector<std::tuple<std::size_t, std::size_t, std::size_t>> depth;
    bool quiet_values{false};

    void err(const std::string& s) { errors.push_back(s); }

    void bump(std::size_t level, std::size_t used, std::size_t reserved, bool node) {
        if (depth.size() <= level) depth.resize(level + 1, {0, 0, 0});
        auto& [n, u, r] = depth[level];
        if (node) ++n;
        u += used;
        r += reserved;
    }

    void walk_node(base_node* n, base_node* expect_parent, bool is_layer_root, std::ostringstream& o,
                   std::vector<border_node*>& leaves, std::size_t level,
                   std::vector<std::pair<std::string, std::pair<base_node*, std::size_t>>>& links,
                   const std::string& pfx) {
        if (n == nullptr) {
            err("null child in layer " + hex(pfx));
            o << " NULL";
            return;
        }
        node_version64_body v = n->get_version();
        unsigned fl = flags_of(v);
        if (fl & 7u) err("node left locked or dirty in layer " + hex(pfx));
        if (n->get_parent() != expect_parent) err("parent pointer mismatch in layer " + hex(pfx));
        if (((fl & 16u) != 0) != is_layer_root) err("root flag inconsistent in layer " + hex(pfx));
        if (v.get_border()) {
            auto* b = dynamic_cast<border_node*>(n);
            if (b == nullptr) { err("border flag on non-border"); return; }
            ++n_border;
            permutation perm{b->get_permutation().get_body()};
            std::size_t cnk = perm.get_cnk();
            o << " B " << v.get_vinsert_delete() << " " << v.get_vsplit() << " " << fl << " " << cnk;
            bump(level, sizeof(border_node) - (key_slice_length - cnk) * sizeof(link_or_value), sizeof(border_node), true);
            if ((fl & 8u) && !(is_layer_root && pfx.empty() && cnk == 0)) err("deleted node reachable in layer " + hex(pfx));
            if (cnk == 0 && !(is_layer_root && pfx.empty())) err("empty non-root border reachable in layer " + hex(pfx));
            std::uint32_t seen = 0;
            for (std::size_t r = 0; r < cnk; ++r) {
                std::size_t idx = perm.get_index_of_rank(r);
                if (idx >= 15 || (seen & (1u << idx))) err("permutation lists a slot twice or out of range in layer " + hex(pfx));
                seen |= 1u << idx;
                if (idx >= 15) continue;
                key_slice_type ks = b->get_key_slice_at(idx);
                key_length_type kl = b->get_key_length_at(idx);
                link_or_value* lv = b->get_lv_at(idx);
                o << " " << slice_hex(ks) << "/" << static_cast<unsigned>(kl);
                base_node* nl = lv->get_next_layer();
                value* vp = lv->get_value();
                if (kl > 8) {
                    if (nl == nullptr) { err("link entry without next layer in layer " + hex(pfx)); o << " L"; continue; }
                    o << " L";
                    std::string cp = pfx;
                    cp.append(reinterpret_cast<const char*>(&ks), 8);
                    links.push_back({cp, {nl, level + 1}});
                    if (nl->get_parent() != b) err("next-layer root's parent is not the linking border in layer " + hex(pfx));
                } else {
                    if (nl != nullptr) err("terminal entry holds a link in layer " + hex(pfx));
                    if (vp == nullptr) { err("terminal entry with null value in layer " + hex(pfx)); o << " V 0 0 0"; continue; }
                    if (!value::is_value_ptr(vp)) {
                        // inline value: the slot holds the value itself
                        auto word = reinterpret_cast<std::uintptr_t>(vp);
                        o << " V 8 " << std::hex << fnv(&word, 8) << std::dec << " 0";
                        continue;
                    }
                    ++n_values;
                    auto [gp, gsz, gal] = value::get_gc_info(vp);
                    (void) gp;
                    // the walker's own count uses what was really allocated (interposer), not what the
                    // value header says about itself
                    std::size_t asz = 0, aal = 0;
                    if (ledger().enabled && block_info(value::get_body(vp), asz, aal)) {
                        if (asz != gsz) err("value block of " + std::to_string(asz) + " bytes describes itself as " + std::to_string(gsz) + " bytes (get_gc_info) in layer " + hex(pfx));
                    } else {
                        asz = gsz;
                    }
                    value_bytes += asz;
                    bump(level, asz, asz, false);
                    std::size_t len = value::get_len(vp);
                    o << " V " << len << " " << std::hex << fnv(value::get_body(vp), len) << std::dec << " "
                      << static_cast<std::size_t>(gal);
                }
            }
            leaves.push_back(b);
        } else {
            auto* in = dynamic_cast<interior_node*>(n);
            if (in == nullptr) { err("interior flag on non-interior"); return; }
            ++n_interior;
            std::size_t nk = in->get_n_keys();
            o << " I " << v.get_vinsert_delete() << " " << v.get_vsplit() << " " << fl << " " << nk;
            bump(level, sizeof(interior_node) - (interior_node::child_length - (nk + 1)) * sizeof(uintptr_t), sizeof(interior_node), true);
            if (fl & 8u) err("deleted interior reachable in layer " + hex(pfx));
            if (nk == 0 || nk > 15) err("interior with bad key count in layer " + hex(pfx));
            for (std::size_t i = 0; i < nk && i < 15; ++i) {
                o << " " << slice_hex(in->get_key_slice_at(i)) << "/" << static_cast<unsigned>(in->get_key_length_at(i));
            }
            for (std::size_t i = 0; i <= nk && i < 16; ++i) {
                walk_node(in->get_child_at(i), in, false, o, leaves, level + 1, links, pfx);
            }
            for (std::size_t i = nk + 1; i < 16; ++i) {
                if (in->get_child_at(i) != nullptr) { err("stale child pointer beyond n_keys in layer " + hex(pfx)); break; }
            }
        }
    }

    // parent expectation for next-layer roots is checked inside walk_node via nl->get_parent()==b;
    // walk_layer passes the real parent so the generic check agrees.
    void walk_tree(tree_instance* ti) {
        base_node* root = ti->load_root_ptr();
        if (root == nullptr) {
            lines.push_back("Y - NULLROOT");
            return;
        }
        walk_layer_p(root, nullptr, "", 0);
    }

    void walk_layer_p(base_node* root, base_node* parent, const std::string& pfx, std::size_t level) {
        std::ostringstream o;
        std::vector<border_node*> leaves;
        std::vector<std::pair<std::string, std::pair<base_node*, std::size_t>>> links;
        std::vector<base_node*> link_parents;
        walk_node(root, parent, true, o, leaves, level, links, pfx);
        for (std::size_t i = 0; i < leaves.size(); ++i) {
            border_node* prev = i ? leaves[i - 1] : nullptr;
            border_node* next = i + 1 < leaves.size() ? leaves[i + 1] : nullptr;
            if (leaves[i]->get_prev() != prev) err("prev link disagrees with in-order leaves in layer " + hex(pfx));
            if (leaves[i]->get_next() != next) err("next link disagrees with in-order leaves in layer " + hex(pfx));
            vptr_id[leaves[i]->get_version_ptr()] = hex(pfx) + "#" + std::to_string(i);
        }
        lines.push_back("Y " + hex(pfx) + o.str());
        for (auto& l : links) walk_layer_p(l.second.first, l.second.first->get_parent(), l.first, l.second.second);
    }

    std::string id_of(const void* vptr) const {
        auto it = vptr_id.find(vptr);
        return it == vptr_id.end() ? std::string("?") : it->second;
    }
};

} // namespace vh
