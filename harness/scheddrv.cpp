// scheddrv: runs the real multi-threaded code under a deterministic cooperative scheduler.
// Every shared-memory access announced through YK_VERIF (include/verif_hook.h) is a yield point:
// exactly one registered thread runs between two yield points; the next thread is drawn from one
// PRNG (seeded per run) or read from a replay schedule. Output: for every run the history of API
// calls (logical invocation/response times = scheduler steps), the schedule, the final content
// and the walker's findings; optionally the event trace.
//
// Workload file (argv[1]):
//   storage <hex>            storage to use (created in every run)
//   bg 0|1                   1: the library's epoch and gc threads are scheduled too
//   pre put <key> <val> | pre remove <key>         sequential preload (hex)
//   thread <id>              starts a thread section; following "op ..." lines belong to it
//   op enter | op leave | op put <k> <v> <unique> | op get <k> | op remove <k>
//   op scan <lk> <le> <rk> <re> <max> <r2l> | op iscan <lk> <le> <rk> <re> <r2l> <early> <n>
//   op hold                  keep the pointers obtained so far and re-read them (ASan detects UAF)
//   auto_session 0|1         1 (default): every worker enters before and leaves after the schedule
// argv: workload runs seed policy(random|sticky|replay:<file>) [trace]
#include <algorithm>
#include <condition_variable>
#include <fstream>
#include <iostream>
#include <mutex>
#include <thread>

#include "kvs.h"

#include "common.h"

using namespace yakushima;
using vh::hex;

// ------------------------------------------------------------------ scheduler
namespace sched {

struct Ev {
    std::uint64_t step;
    int tid, kind, field;
    const void* obj;
    std::uint64_t val;
};

struct T {
    bool registered{false}, finished{false}, detached{false}, parked{false}, spinning{false}, bg{false};
    std::uint64_t steps{0};
    std::uint64_t streak{0};                 // consecutive picks under PCT (fairness guard)
    long prio{0};                            // PCT priority (higher runs first)
    std::uint64_t stalled_until{0};          // not schedulable while the global epoch is below this
    std::chrono::steady_clock::time_point stall_deadline{};   // ... but at most until this instant
    std::map<int, int> field_count;          // announcements per field (for stall directives)
};
struct Stall {
    int tid, field, nth;
    std::uint64_t epochs;
};
static std::vector<Stall> stalls;
static bool stalled(const T& t) {
    return t.stalled_until != 0 && epoch_management::get_epoch() < t.stalled_until &&
           std::chrono::steady_clock::now() < t.stall_deadline;
}
static void stall_thread(T& t, std::uint64_t epochs) {
    t.stalled_until = epoch_management::get_epoch() + epochs;
    t.stall_deadline = std::chrono::steady_clock::now() + std::chrono::milliseconds(8 + 6 * epochs);
}

static std::mutex mu;
static std::condition_variable cv;
static std::atomic<bool> active{false};
static bool want_bg = false;
static int current = -1;
static std::vector<T> th;
static std::vector<int> schedule;      // recorded decisions
static std::vector<int> replay;        // decisions to follow (if non-empty)
static std::size_t replay_pos = 0;
static bool replay_mode = false, replay_infeasible = false;
static std::uint64_t rng = 1;
static int policy = 0;                 // 0 random, 1 sticky, 2 pct (priorities + change points)
static std::vector<std::uint64_t> change_points;   // pct: steps at which the running thread is demoted
static long low_prio = 0;                           // pct: next lowest priority
static std::uint64_t est_len = 400;                 // pct: expected run length (from the previous run)
static std::uint64_t step_no = 0, spin_streak = 0, max_steps = 4000000;
static bool stuck = false;
static std::vector<Ev> trace;
// successful compare-exchanges on version words: (thread, object, replaced word, installed word)
struct VT { int tid; const void* obj; std::uint64_t oldw, neww; };
static std::vector<VT> vtrans;
static thread_local std::uint64_t pre_word = 0;
static bool keep_trace = false;
static int n_workers = 0;
static thread_local int my_tid = -1;

static std::uint64_t rnd() {
    rng ^= rng << 13;
    rng ^= rng >> 7;
    rng ^= rng << 17;
    return rng;
}

// caller holds mu. Returns the next thread to run, or -1 if nobody can.
static int choose(int me) {
    if (replay_mode && !replay_infeasible) {
        if (replay_pos < replay.size()) {
            int want = replay[replay_pos];
            // wait for the wanted thread to be available
            return want; // availability is awaited by the caller
        }
        // the recorded schedule is used up although threads are still running (the code under
        // test changed since it was recorded): continue under the seeded random policy
        replay_infeasible = true;
    }
    std::vector<int> cand, calm;
    for (int i = 0; i < static_cast<int>(th.size()); ++i) {
        T& t = th[i];
        if (!t.registered || t.finished || t.detached || stalled(t)) continue;
        if (i != me && !t.parked) continue;
        cand.push_back(i);
        if (!t.spinning) calm.push_back(i);
    }
    if (cand.empty()) return -1;
    if (policy == 2) {
        // PCT: run the highest-priority candidate; a thread that spins or hits a change point is
        // demoted below everybody (so a lock holder can run, and so that a thread can be held
        // back for a long stretch at an arbitrary point)
        if (me >= 0 && me < static_cast<int>(th.size())) {
            bool demote = th[me].spinning;
            for (auto cp : change_points) if (cp == step_no) demote = true;
            // fairness: an optimistic reader that keeps retrying (retry-from-root loops are not
            // announced as spins) waits for a writer to finish; the properties quantify over fair
            // schedules only, so a thread that ran very long without a switch gives way
            if (++th[me].streak > 20000 && cand.size() > 1) { demote = true; th[me].streak = 0; }
            if (demote) th[me].prio = --low_prio;
        }
        int best = cand[0];
        for (int c : cand) if (th[c].prio > th[best].prio) best = c;
        if (best != me && me >= 0 && me < static_cast<int>(th.size())) th[me].streak = 0;
        return best;
    }
    if (policy == 1 && me >= 0 && !th[me].finished && !th[me].detached && !th[me].spinning && !stalled(th[me]) && (rnd() % 10) < 7) return me;
    // spinning threads are picked less often: they cannot progress until someone else does
    if (!calm.empty() && (cand.size() == calm.size() || (rnd() % 4) != 0)) return calm[rnd() % calm.size()];
    return cand[rnd() % cand.size()];
}

static bool available(int t) {
    return t >= 0 && t < static_cast<int>(th.size()) && th[t].registered && !th[t].finished && !th[t].detached && th[t].parked && !stalled(th[t]);
}

// hand the baton to `next` (caller holds the lock)
static void give(int next) {
    current = next;
    cv.notify_all();
}

static void pick_and_give(std::unique_lock<std::mutex>& lk, int me) {
    int next = choose(me);
    if (replay_mode && next != me && !replay_infeasible) {
        // wait (bounded) until the recorded thread is parked at a hook
        auto ok = cv.wait_for(lk, std::chrono::seconds(5), [&] { return available(next) || !active.load(); });
        if (!ok) { replay_infeasible = true; next = -1; }
    }
    if (next < 0) {
        // nobody else can run: wait for a detached thread to come back (or give up)
        bool ok = false;
        for (int spin = 0; spin < 5000 && !ok; ++spin) {
            // (the caller itself counts once its own stall directive has expired)
            ok = cv.wait_for(lk, std::chrono::milliseconds(1), [&] {
                for (int i = 0; i < static_cast<int>(th.size()); ++i) if (available(i)) return true;
                return !active.load();
            });
        }
        if (!ok) { stuck = true; active.store(false); cv.notify_all(); return; }
        for (int i = 0; i < static_cast<int>(th.size()); ++i) if (i != me && available(i)) { next = i; break; }
        if (next < 0 && available(me)) next = me;
    }
    if (next >= 0) {
        if (replay_mode) ++replay_pos;
        schedule.push_back(next);
        give(next);
    }
}

static void hook(int kind, const void* obj, int field, std::uint64_t val) {
    if (!active.load(std::memory_order_acquire)) return;
    using namespace yakushima::verif;
    if (my_tid < 0) {
        if (!want_bg) return;
        // a library thread: the epoch thread gets id n_workers, the gc thread n_workers + 1; it is
        // recognised by the first access only that thread performs
        int role = -1;
        if (field == f_epoch || field == f_begin_epoch || (field == f_thread_end_flag && val == 0) ||
            (field == f_gc_epoch && kind == k_store)) role = 0;
        else if ((field == f_gc_epoch && kind == k_load) || (field == f_thread_end_flag && val == 1) ||
                 field == f_reclaim_node || field == f_reclaim_value) role = 1;
        if (role < 0) return;
        std::unique_lock<std::mutex> lk(mu);
        if (!active.load()) return;
        my_tid = n_workers + role;
        th[my_tid].registered = true;
        th[my_tid].bg = true;
        th[my_tid].detached = true;   // it attaches (parks) just below
        cv.notify_all();
    }
    std::unique_lock<std::mutex> lk(mu);
    if (!active.load()) return;
    T& me = th[my_tid];
    bool is_yield = kind == k_load || kind == k_store || kind == k_cas || kind == k_rmw || kind == k_spin || kind == k_sleep;
    if (!is_yield) {
        if (keep_trace) {
            // a successful CAS on a version word: record the word it produced
            if (kind == k_cas_ok && field == f_version && obj != nullptr) {
                std::memcpy(&val, obj, 8);
                vtrans.push_back({my_tid, obj, pre_word, val});
            }
            trace.push_back({step_no, my_tid, kind, field, obj, val});
        }
        return;
    }
    bool real_sleep = kind == k_sleep && field == f_generic; // sleepMs of the library's own threads
    if (me.detached) {
        // back from a real sleep: park until scheduled
        me.detached = false;
        me.parked = true;
        cv.notify_all();
        cv.wait(lk, [&] { return current == my_tid || !active.load(); });
        me.parked = false;
        if (!active.load()) return;
    }
    me.spinning = (kind == k_spin || kind == k_sleep);
    if (me.spinning) ++spin_streak; else spin_streak = 0;
    {
        int c = ++me.field_count[field * 16 + kind];
        for (auto& sdir : stalls)
            if (sdir.tid == my_tid && sdir.field == field * 16 + kind && sdir.nth == c) stall_thread(me, sdir.epochs);
    }
    if (step_no > max_steps || spin_streak > 200000) {
        stuck = true;
        active.store(false);
        cv.notify_all();
        return;
    }
    if (real_sleep) {
        // give the baton away and really sleep; we re-attach at our next announcement
        me.detached = true;
        pick_and_give(lk, my_tid);
        return;
    }
    me.parked = true;
    pick_and_give(lk, my_tid);
    cv.wait(lk, [&] { return current == my_tid || !active.load(); });
    me.parked = false;
    if (!active.load()) return;
    ++step_no;
    ++me.steps;
    // nobody else runs between this point and the access itself: for a compare-exchange on a
    // version word this is the word it will replace if it succeeds
    if (kind == k_cas && field == f_version && obj != nullptr) std::memcpy(&pre_word, obj, 8);
    if (keep_trace) trace.push_back({step_no, my_tid, kind, field, obj, val});
}

// worker side
static void thread_start(int tid) {
    my_tid = tid;
    std::unique_lock<std::mutex> lk(mu);
    th[tid].registered = true;
    th[tid].parked = true;
    cv.notify_all();
    cv.wait(lk, [&] { return current == tid || !active.load(); });
    th[tid].parked = false;
}

static void thread_done() {
    std::unique_lock<std::mutex> lk(mu);
    if (my_tid < 0) return;
    th[my_tid].finished = true;
    bool all = true;
    for (int i = 0; i < n_workers; ++i) if (!th[i].finished) all = false;
    if (all || !active.load()) {
        active.store(false);
        cv.notify_all();
        return;
    }
    pick_and_give(lk, my_tid);
}

static std::uint64_t now() { return step_no; }

} // namespace sched

// ------------------------------------------------------------------ workload
struct Op {
    std::vector<std::string> w;
};
struct Rec {
    int tid, idx;
    std::uint64_t inv, ret;
    std::string text, result;
};
struct Held {
    const char* p;
    std::size_t len;
    std::uint64_t hash;
};

static std::vector<std::string> split(const std::string& s) {
    std::vector<std::string> out;
    std::istringstream is(s);
    std::string w;
    while (is >> w) out.push_back(w);
    return out;
}
static scan_endpoint ep(const std::string& s) {
    if (s == "E") return scan_endpoint::EXCLUSIVE;
    if (s == "I") return scan_endpoint::INCLUSIVE;
    return scan_endpoint::INF;
}
static std::string st(status s) { return std::string(to_string_view(s)); }
static std::string vw(node_version64_body b) {
    std::uint64_t x;
    std::memcpy(&x, &b, 8);
    char buf[20];
    std::snprintf(buf, sizeof buf, "%016llx", static_cast<unsigned long long>(x));
    return buf;
}

// raw version-object workloads (C17): one shared node_version64 used through its public operations
static node_version64 g_rawver;
static std::uint64_t g_rawinit = 0;
static bool g_raw = false;
static std::atomic<int> g_cs_owner{-1};
static std::vector<std::string> g_raw_lines;
static std::mutex g_raw_mu;
// an inline (pointer-sized) value comes back from get/scan as the "pointer" itself
static std::string inline_str(const void* p) {
    char buf[24];
    std::snprintf(buf, sizeof buf, "i%016llx", static_cast<unsigned long long>(reinterpret_cast<std::uintptr_t>(p)));
    return buf;
}
static std::string g_storage;
static std::vector<std::vector<std::string>> g_pre;
static std::vector<std::vector<Op>> g_threads;
static bool g_auto_session = true;

struct NvRec {
    int tid, idx;
    std::vector<std::pair<node_version64_body, node_version64*>> nv;
};

static void worker(int tid, std::vector<Rec>* recs, std::vector<NvRec>* nvs, Token* tok_io) {
    Token tok = *tok_io;
    std::vector<Held> held;
    sched::thread_start(tid);
    auto& ops = g_threads[tid];
    for (std::size_t i = 0; i < ops.size() && sched::active.load(); ++i) {
        auto& w = ops[i].w;
        Rec r{tid, static_cast<int>(i), sched::now(), 0, "", ""};
        for (auto& x : w) r.text += (r.text.empty() ? "" : " ") + x;
        std::ostringstream o;
        const std::string& op = w[0];
        bool max_sessions = false;
        if (op == "enter") {
            Token nt{};
            auto rc = enter(nt);
            o << st(rc);
            if (rc == status::OK) {
                tok = nt;
                auto* base = reinterpret_cast<const char*>(&thread_info_table::get_thread_info_table()[0]);
                o << " slot " << (reinterpret_cast<const char*>(nt) - base) / static_cast<long>(sizeof(thread_info));
            } else {
                max_sessions = true;
            }
        } else if (op == "leave") {
            if (tok == nullptr) o << "no-session";
            else o << st(leave(tok));
            tok = nullptr;
            held.clear();
        } else if (op == "put") {
            std::string k, v;
            vh::unhex(w[1], k); vh::unhex(w[2], v);
            char* created = nullptr;
            auto rc = put<char>(tok, g_storage, k, v.data(), v.size(), &created, static_cast<value_align_type>(1), w[3] == "1",
                                static_cast<inserted_node_info*>(nullptr));
            o << st(rc);
        } else if (op == "get") {
            std::string k;
            vh::unhex(w[1], k);
            std::pair<char*, std::size_t> g{};
            auto rc = get<char>(g_storage, k, g);
            o << st(rc);
            if (rc == status::OK) {
                if (g.first == nullptr) o << " NULLVALUE";
                else if (!vh::ptr_is_heap(g.first)) {
                    char buf[24];
                    std::snprintf(buf, sizeof buf, "%016llx", static_cast<unsigned long long>(reinterpret_cast<std::uintptr_t>(g.first)));
                    o << " i" << buf;      // an inline value: returned by value
                } else {
                    o << " " << hex(std::string_view(g.first, g.second));
                    held.push_back({g.first, g.second, vh::fnv(g.first, g.second)});
                }
            }
        } else if (op == "geti") {
            // a reader using the inline value type (only meaningful where every value of the key is inline)
            std::string k;
            vh::unhex(w[1], k);
            std::pair<std::uintptr_t*, std::size_t> g{};
            auto rc = get<std::uintptr_t>(g_storage, k, g);
            o << st(rc);
            if (rc == status::OK) {
                if (g.first == nullptr) o << " NULLVALUE";
                else o << " " << inline_str(g.first);
            }
        } else if (op == "create" || op == "delete" || op == "find") {
            // storage directory operations (names in hex)
            std::string n;
            vh::unhex(w[1], n);
            if (op == "create") o << st(create_storage(n));
            else if (op == "delete") o << st(delete_storage(n));
            else o << st(find_storage(n));
        } else if (op == "putin" || op == "getin") {
            // data operations addressed to another storage: putin <name> <key> <val> / getin <name> <key>
            std::string n, k, v;
            vh::unhex(w[1], n); vh::unhex(w[2], k);
            if (op == "putin") {
                vh::unhex(w[3], v);
                o << st(put<char>(tok, n, k, v.data(), v.size()));
            } else {
                std::pair<char*, std::size_t> g{};
                auto rc = get<char>(n, k, g);
                o << st(rc);
                if (rc == status::OK && g.first != nullptr) o << " " << hex(std::string_view(g.first, g.second));
            }
        } else if (op == "puti") {
            // an inline (pointer-sized) value: stored by value in the slot
            std::string k;
            vh::unhex(w[1], k);
            std::uintptr_t x = std::strtoull(w[2].c_str(), nullptr, 16);
            auto rc = put<std::uintptr_t>(tok, g_storage, k, &x, sizeof(x));
            o << st(rc);
        } else if (op == "remove") {
            std::string k;
            vh::unhex(w[1], k);
            o << st(remove(tok, g_storage, k));
        } else if (op == "scan") {
            std::string lk, rk;
            vh::unhex(w[1], lk); vh::unhex(w[3], rk);
            std::vector<std::tuple<std::string, char*, std::size_t>> tl;
            NvRec nr{tid, static_cast<int>(i), {}};
            auto rc = scan<char>(g_storage, lk, ep(w[2]), rk, ep(w[4]), tl, &nr.nv, std::strtoull(w[5].c_str(), nullptr, 10), w[6] == "1");
            o << st(rc) << " " << tl.size();
            for (auto& e : tl) {
                o << " " << hex(std::get<0>(e)) << "=";
                if (std::get<1>(e) == nullptr) o << "NULLVALUE";
                else if (!vh::ptr_is_heap(std::get<1>(e))) o << inline_str(std::get<1>(e));
                else {
                    o << hex(std::string_view(std::get<1>(e), std::get<2>(e)));
                    held.push_back({std::get<1>(e), std::get<2>(e), vh::fnv(std::get<1>(e), std::get<2>(e))});
                }
            }
            o << " nv " << nr.nv.size();
            nvs->push_back(nr);
        } else if (op == "iscan") {
            std::string lk, rk;
            vh::unhex(w[1], lk); vh::unhex(w[3], rk);
            iscan_context* ctx = nullptr;
            void* out = nullptr;
            NvRec nr{tid, static_cast<int>(i), {}};
            auto cb = [&nr](node_version64* p, node_version64_body b) { nr.nv.emplace_back(b, p); return false; };
            bool early = w[6] == "1";
            std::size_t n = std::strtoull(w[7].c_str(), nullptr, 10);
            auto rc = iscan_open(g_storage, lk, ep(w[2]), rk, ep(w[4]), w[5] == "1", early, ctx, out, cb);
            std::size_t cnt = 0;
            o << "[";
            while (rc == status::OK && cnt < n) {
                std::string fk = ctx->full_key();
                o << " " << hex(fk) << "=";
                if (out == nullptr) o << "NULLVALUE";
                else o << "p";
                ++cnt;
                rc = iscan_next(ctx, out, cb);
            }
            o << " ] " << st(rc) << " nv " << nr.nv.size();
            if (ctx != nullptr) iscan_close(ctx);
            nvs->push_back(nr);
        } else if (op == "sleep_epochs") {
            // wait (yielding) until the global epoch has advanced by n
            // (bounded in real time: the epoch cannot advance past a session that stays open)
            std::uint64_t n = std::strtoull(w[1].c_str(), nullptr, 10);
            {
                std::unique_lock<std::mutex> lk(sched::mu);
                sched::stall_thread(sched::th[tid], n);
            }
            YK_VERIF(k_spin, nullptr, f_generic, 0);
            o << "slept";
        } else if (op == "vcs") {
            // critical section: lock, flag what the "writer" did, unlock
            const std::string flags = w.size() > 1 ? w[1] : "";
            g_rawver.lock();
            int prev = g_cs_owner.exchange(tid);
            bool mutex_ok = prev == -1;
            for (char c : flags) {
                if (c == 'i') g_rawver.atomic_set_inserting_deleting(true);
                else if (c == 's') g_rawver.atomic_set_splitting(true);
                else if (c == 'd') g_rawver.atomic_set_deleted(true);
                else if (c == 'D') g_rawver.atomic_set_deleted(false);
                else if (c == 'n') g_rawver.atomic_inc_vinsert();
            }
            if (g_cs_owner.load() != tid) mutex_ok = false;
            g_cs_owner.store(-1);
            g_rawver.unlock();
            o << (mutex_ok ? "cs" : "cs MUTEX");
        } else if (op == "vstable") {
            auto b = g_rawver.get_stable_version();
            o << "stable " << vw(b);
            std::lock_guard<std::mutex> g(g_raw_mu);
            g_raw_lines.push_back("S " + std::to_string(tid) + " raw " + vw(b));
        } else if (op == "vroot") {
            g_rawver.atomic_set_root(w[1] == "1");
            o << "set";
        } else if (op == "vborder") {
            g_rawver.atomic_set_border(w[1] == "1");
            o << "set";
        } else if (op == "vinc") {
            g_rawver.atomic_inc_vinsert();
            o << "set";
        } else if (op == "probe") {
            // an open session looks at its own slot: it must be marked running with a begin epoch
            if (tok == nullptr) o << "no-session";
            else {
                // not a step of the protocol under test: read without announcing (nobody else is
                // scheduled while this thread runs), so the trace the acceptors see is unchanged
                auto* ti = reinterpret_cast<thread_info*>(tok);
                auto saved = yakushima::verif::hook_slot();
                yakushima::verif::hook_slot() = nullptr;
                bool run = ti->get_running();
                auto be = ti->get_begin_epoch();
                auto ep = epoch_management::get_epoch();
                yakushima::verif::hook_slot() = saved;
                o << "probe running " << (run ? 1 : 0) << " begin " << be << " epoch " << ep;
            }
        } else if (op == "hold") {
            // re-read everything handed out so far in this session: contents must be unchanged
            std::size_t bad = 0;
            for (auto& h : held) if (vh::fnv(h.p, h.len) != h.hash) ++bad;
            o << "held " << held.size() << " changed " << bad;
        } else {
            o << "bad-op";
        }
        if (sched::keep_trace && sched::active.load()) {
            // operation boundary for the trace acceptors (value 1: enter returned WARN_MAX_SESSIONS)
            std::unique_lock<std::mutex> lk(sched::mu);
            sched::trace.push_back({sched::step_no, tid, yakushima::verif::k_note, 100, nullptr, max_sessions ? 1ULL : 0ULL});
        }
        r.ret = sched::now();
        r.result = o.str();
        recs->push_back(r);
    }
    *tok_io = tok;
    sched::thread_done();
}

int main(int argc, char** argv) {
    FLAGS_logtostderr = true;
    FLAGS_minloglevel = 2;
    if (argc < 5) {
        std::fprintf(stderr, "usage: scheddrv workload runs seed policy [trace]\n");
        return 2;
    }
    std::ifstream wf(argv[1]);
    std::string line;
    int cur = -1;
    while (std::getline(wf, line)) {
        auto w = split(line);
        if (w.empty() || w[0][0] == '#') continue;
        if (w[0] == "storage") vh::unhex(w[1], g_storage);
        else if (w[0] == "bg") sched::want_bg = w[1] == "1";
        else if (w[0] == "auto_session") g_auto_session = w[1] == "1";
        else if (w[0] == "rawver") { g_raw = true; g_rawinit = std::strtoull(w[1].c_str(), nullptr, 16); }
        else if (w[0] == "pre") g_pre.push_back(std::vector<std::string>(w.begin() + 1, w.end()));
        else if (w[0] == "thread") { cur = std::atoi(w[1].c_str()); if (static_cast<int>(g_threads.size()) <= cur) g_threads.resize(cur + 1); }
        else if (w[0] == "op" && cur >= 0) g_threads[cur].push_back(Op{std::vector<std::string>(w.begin() + 1, w.end())});
        else if (w[0] == "stall" && w.size() == 6) {
            // stall <tid> <field> <kind> <nth> <epochs>: the thread's nth announcement of (field, kind) is
            // delayed until the global epoch has advanced by <epochs>
            sched::stalls.push_back({std::atoi(w[1].c_str()), std::atoi(w[2].c_str()) * 16 + std::atoi(w[3].c_str()), std::atoi(w[4].c_str()),
                                     std::strtoull(w[5].c_str(), nullptr, 10)});
        }
    }
    int runs = std::atoi(argv[2]);
    std::uint64_t seed = std::strtoull(argv[3], nullptr, 10);
    std::string pol = argv[4];
    sched::keep_trace = argc > 5 && std::string(argv[5]) == "trace";
    std::vector<int> replay_sched;
    if (pol.rfind("replay:", 0) == 0) {
        std::ifstream rf(pol.substr(7));
        int x;
        while (rf >> x) replay_sched.push_back(x);
    }
    yakushima::verif::hook_slot() = &sched::hook;
    vh::ledger().enabled = true;
    for (int run = 0; run < runs; ++run) {
        init();
        create_storage(g_storage);
        {
            Token t{};
            enter(t);
            for (auto& p : g_pre) {
                std::string k, v;
                vh::unhex(p[1], k);
                if (p[0] == "put") {
                    vh::unhex(p[2], v);
                    put<char>(t, g_storage, k, v.data(), v.size());
                } else if (p[0] == "puti") {
                    std::uintptr_t x = std::strtoull(p[2].c_str(), nullptr, 16);
                    put<std::uintptr_t>(t, g_storage, k, &x, sizeof(x));
                } else if (p[0] == "remove") {
                    remove(t, g_storage, k);
                }
            }
            leave(t);
        }
        if (g_raw) {
            node_version64_body b0{};
            std::memcpy(&b0, &g_rawinit, 8);
            g_rawver.set_body(b0);
            g_cs_owner.store(-1);
        }
        const int nw = static_cast<int>(g_threads.size());
        sched::n_workers = nw;
        sched::th.clear();
        sched::th.resize(nw + 2);   // two more slots for the library's epoch and gc threads
        sched::schedule.clear();
        sched::trace.clear();
        sched::vtrans.clear();
        sched::replay = replay_sched;
        sched::replay_pos = 0;
        sched::replay_mode = !replay_sched.empty();
        sched::replay_infeasible = false;
        sched::stuck = false;
        sched::step_no = 0;
        sched::spin_streak = 0;
        sched::current = -1;
        sched::policy = pol == "sticky" ? 1 : (pol == "pct" ? 2 : 0);
        sched::rng = (seed + static_cast<std::uint64_t>(run)) * 0x9E3779B97F4A7C15ULL + 0x1234567;
        if (sched::rng == 0) sched::rng = 1;
        if (sched::policy == 2) {
            sched::low_prio = 0;
            sched::change_points.clear();
            int d = 1 + static_cast<int>(sched::rnd() % 3);
            for (int i = 0; i < d; ++i) sched::change_points.push_back(1 + sched::rnd() % (sched::est_len + 1));
            for (int i = 0; i < nw + 2; ++i) sched::th[i].prio = 1000 + static_cast<long>(sched::rnd() % 1000);
        }
        std::vector<Token> toks(nw, nullptr);
        if (g_auto_session) for (int i = 0; i < nw; ++i) enter(toks[i]);
        std::vector<std::vector<Rec>> recs(nw);
        std::vector<std::vector<NvRec>> nvs(nw);
        const std::uint64_t epoch_at_start = epoch_management::get_epoch();
        const std::uint64_t gc_epoch_at_start = garbage_collection::get_gc_epoch();
        sched::active.store(true);
        std::vector<std::thread> ths;
        for (int i = 0; i < nw; ++i) ths.emplace_back(worker, i, &recs[i], &nvs[i], &toks[i]);
        {
            std::unique_lock<std::mutex> lk(sched::mu);
            sched::cv.wait(lk, [&] {
                for (int i = 0; i < nw; ++i) if (!sched::th[i].parked) return false;
                return true;
            });
            if (sched::want_bg) {
                // wait until the epoch and gc threads have shown up (they wake every epoch period)
                sched::cv.wait_for(lk, std::chrono::milliseconds(300), [&] { return sched::th[nw].registered && sched::th[nw + 1].registered; });
            }
            sched::pick_and_give(lk, -1);
        }
        for (auto& t : ths) t.join();
        sched::active.store(false);
        if (sched::step_no > 20) sched::est_len = sched::step_no;
        sched::cv.notify_all();
        // ------------- report
        std::cout << "RUN " << run << " seed " << (seed + run) << " steps " << sched::step_no << " threads " << sched::th.size()
                  << (sched::stuck ? " STUCK" : "") << (sched::replay_infeasible ? " REPLAY-INFEASIBLE" : "") << "\n";
        std::cout << "EPOCH0 " << epoch_at_start << " " << gc_epoch_at_start << "\n";
        for (int i = 0; i < nw; ++i)
            for (auto& r : recs[i])
                std::cout << "H " << r.tid << " " << r.idx << " " << r.inv << " " << r.ret << " " << r.text << " => " << r.result << "\n";
        // node-version sets: re-validate now that everything has completed
        // (only when the sessions are still open: with explicit leave the nodes may be gone by now)
        for (int i = 0; g_auto_session && i < nw; ++i)
            for (auto& n : nvs[i]) {
                std::size_t stale = 0;
                for (auto& e : n.nv) if (e.second->get_stable_version() != e.first) ++stale;
                std::cout << "NV " << n.tid << " " << n.idx << " " << n.nv.size() << " stale " << stale << "\n";
            }
        // final state (quiescent)
        {
            std::vector<std::tuple<std::string, char*, std::size_t>> tl;
            scan<char>(g_storage, "", scan_endpoint::INF, "", scan_endpoint::INF, tl, nullptr, 0);
            std::cout << "FINAL " << tl.size();
            for (auto& e : tl) std::cout << " " << hex(std::get<0>(e)) << "=" << (std::get<1>(e) == nullptr ? std::string("NULLVALUE") : (vh::ptr_is_heap(std::get<1>(e)) ? hex(std::string_view(std::get<1>(e), std::get<2>(e))) : inline_str(std::get<1>(e))));
            std::cout << "\n";
            vh::Walker wk;
            tree_instance* ti{};
            if (find_storage(g_storage, &ti) == status::OK) wk.walk_tree(ti);
            for (auto& e : wk.errors) std::cout << "WALKERR " << e << "\n";
            if (ti != nullptr) {
                // root lock must be free
                ti->root_lock();
                ti->root_unlock();
            }
        }
        if (g_raw) {
            node_version64_body b0{};
            std::memcpy(&b0, &g_rawinit, 8);
            std::cout << "VFINAL " << vw(b0) << " " << vw(g_rawver.get_body()) << "\n";
        }
        std::cout << "SCHED";
        for (int x : sched::schedule) std::cout << " " << x;
        std::cout << "\n";
        if (sched::keep_trace) {
            auto* base = reinterpret_cast<const char*>(&thread_info_table::get_thread_info_table()[0]);
            for (auto& e : sched::trace) {
                long slot = -1;
                auto* p = reinterpret_cast<const char*>(e.obj);
                if (p >= base && p < base + sizeof(thread_info) * YAKUSHIMA_MAX_PARALLEL_SESSIONS) slot = (p - base) / static_cast<long>(sizeof(thread_info));
                std::cout << "T " << e.step << " " << e.tid << " " << e.kind << " " << e.field << " " << slot << " " << e.obj << " " << e.val << "\n";
            }
        }
        if (sched::keep_trace) {
            char b1[20], b2[20];
            for (auto& v : sched::vtrans) {
                std::snprintf(b1, sizeof b1, "%016llx", static_cast<unsigned long long>(v.oldw));
                std::snprintf(b2, sizeof b2, "%016llx", static_cast<unsigned long long>(v.neww));
                std::cout << "V " << v.tid << " " << v.obj << " " << b1 << " " << b2 << "\n";
            }
        }
        for (auto& l : g_raw_lines) std::cout << l << "\n";
        g_raw_lines.clear();
        for (int i = 0; i < nw; ++i) if (toks[i] != nullptr) leave(toks[i]);
        fin();
        std::cout << "LEDGER live " << vh::ledger().n_aligned << " errs " << vh::ledger().errors
                  << (vh::ledger().errors ? " first: " + vh::ledger().first_error : std::string()) << "\n";
    }
    return 0;
}
