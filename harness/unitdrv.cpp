// unitdrv: drives the bit-level cores of /repo/include directly and prints one line per call:
//   <fn> <args...> = <result...>
// The Lean checker (`yakmodel unit`) recomputes every line with the model and reports differences.
// Inputs come from exhaustive grids plus a PRNG seeded by VERIF_SEED.
#include <cinttypes>
#include <cstdio>
#include <cstdlib>
#include <cstring>
#include <new>
#include <string>
#include <vector>

#include "kvs.h"

using namespace yakushima;

// ---- operator new interposer (records the last aligned request) ----
static thread_local std::size_t g_last_size = 0, g_last_align = 0;
void* operator new(std::size_t sz, std::align_val_t al) {
    g_last_size = sz;
    g_last_align = static_cast<std::size_t>(al);
    void* p = nullptr;
    std::size_t a = static_cast<std::size_t>(al);
    if (a < sizeof(void*)) a = sizeof(void*);
    if (posix_memalign(&p, a, sz ? sz : 1) != 0) throw std::bad_alloc();
    return p;
}
void operator delete(void* p, std::size_t, std::align_val_t) noexcept { free(p); }
void operator delete(void* p, std::align_val_t) noexcept { free(p); }

// ---- announcement counter (YAKUSHIMA_VERIF hooks): stores to a permutation word per mutator call
static int g_perm_stores = 0;
#ifdef YAKUSHIMA_VERIF
static void count_hook(int kind, const void*, int field, std::uint64_t) {
    if (kind == yakushima::verif::k_store && field == yakushima::verif::f_perm) ++g_perm_stores;
}
#endif

static std::uint64_t rng_state = 88172645463325252ULL;
static std::uint64_t rnd() {
    rng_state ^= rng_state << 13;
    rng_state ^= rng_state >> 7;
    rng_state ^= rng_state << 17;
    return rng_state;
}

static node_version64_body body_of(std::uint64_t w) {
    node_version64_body b{};
    std::memcpy(&b, &w, 8);
    return b;
}
static std::uint64_t word_of(node_version64_body b) {
    std::uint64_t w = 0;
    std::memcpy(&w, &b, 8);
    return w;
}

static void ver_case(std::uint64_t w) {
    node_version64 v;
    node_version64_body b = body_of(w);
    std::printf("ver.fields %016" PRIx64 " = %u %d %d %d %u %d %d %d\n", w, b.get_vinsert_delete(),
                b.get_locked(), b.get_inserting_deleting(), b.get_splitting(), b.get_vsplit(),
                b.get_deleted(), b.get_root(), b.get_border());
    v.set_body(b);
    v.unlock();
    std::printf("ver.unlock %016" PRIx64 " = %016" PRIx64 "\n", w, word_of(v.get_body()));
    if (!b.get_locked()) {
        v.set_body(b);
        v.lock();
        std::printf("ver.lock %016" PRIx64 " = %016" PRIx64 "\n", w, word_of(v.get_body()));
    }
    v.set_body(b);
    v.atomic_inc_vinsert();
    std::printf("ver.incv %016" PRIx64 " = %016" PRIx64 "\n", w, word_of(v.get_body()));
    for (int tf = 0; tf < 2; ++tf) {
        v.set_body(b); v.atomic_set_border(tf);
        std::printf("ver.setb %016" PRIx64 " %d = %016" PRIx64 "\n", w, tf, word_of(v.get_body()));
        v.set_body(b); v.atomic_set_deleted(tf);
        std::printf("ver.setd %016" PRIx64 " %d = %016" PRIx64 "\n", w, tf, word_of(v.get_body()));
        v.set_body(b); v.atomic_set_inserting_deleting(tf);
        std::printf("ver.seti %016" PRIx64 " %d = %016" PRIx64 "\n", w, tf, word_of(v.get_body()));
        v.set_body(b); v.atomic_set_root(tf);
        std::printf("ver.setr %016" PRIx64 " %d = %016" PRIx64 "\n", w, tf, word_of(v.get_body()));
        v.set_body(b); v.atomic_set_splitting(tf);
        std::printf("ver.sets %016" PRIx64 " %d = %016" PRIx64 "\n", w, tf, word_of(v.get_body()));
    }
    if (!b.get_locked() && !b.get_inserting_deleting() && !b.get_splitting()) {
        v.set_body(b);
        std::printf("ver.gsv %016" PRIx64 " = %016" PRIx64 "\n", w,
                    word_of(v.get_stable_version()));
    }
    {
        node_version64_body z{};
        z.init();
        if (w == 0) std::printf("ver.init = %016" PRIx64 "\n", word_of(z));
    }
}

static void ver_grid(std::size_t nrandom) {
    const std::uint64_t cvals[] = {0, 1, 2, 1ULL << 28, (1ULL << 29) - 2, (1ULL << 29) - 1};
    for (unsigned flags = 0; flags < 64; ++flags) {
        for (auto a : cvals)
            for (auto c : cvals) {
                std::uint64_t w = a | (static_cast<std::uint64_t>(flags & 7) << 29) | (c << 32) |
                                  (static_cast<std::uint64_t>(flags >> 3) << 61);
                ver_case(w);
            }
    }
    for (std::size_t i = 0; i < nrandom; ++i) ver_case(rnd());
}

// ---- permutation ----
static std::uint64_t perm_word(const std::vector<unsigned>& slots, std::uint64_t garbage) {
    std::uint64_t w = slots.size();
    for (std::size_t r = 0; r < 15; ++r) {
        std::uint64_t nib = r < slots.size() ? slots[r] : ((garbage >> (4 * r)) & 15);
        w |= nib << (4 * (r + 1));
    }
    return w;
}

static void perm_case(std::uint64_t w, std::size_t n) {
    permutation p{w};
    std::printf("perm.cnk %016" PRIx64 " = %u\n", w, p.get_cnk());
    std::printf("perm.empty %016" PRIx64 " = %zu\n", w, p.get_empty_slot());
    std::printf("perm.low %016" PRIx64 " = %zu\n", w, p.get_lowest_key_pos());
    for (std::size_t r = 0; r < 15; ++r)
        std::printf("perm.idx %016" PRIx64 " %zu = %zu\n", w, r, p.get_index_of_rank(r));
    for (std::size_t r = 0; r < n; ++r) {
        permutation q{w};
        g_perm_stores = 0;
        q.delete_rank(r);
        std::printf("perm.del %016" PRIx64 " %zu = %016" PRIx64 "\n", w, r, q.get_body());
        // each update is published as one store of one word
        std::printf("perm.stores del %016" PRIx64 " %zu = %d\n", w, r, g_perm_stores);
    }
    if (n < 15) {
        for (std::size_t r = 0; r <= n; ++r) {
            // every position the caller could pass: the reported empty slot and all others
            for (std::size_t pos = 0; pos < 15; ++pos) {
                permutation q{w};
                g_perm_stores = 0;
                q.insert_rank(r, pos);
                std::printf("perm.ins %016" PRIx64 " %zu %zu = %016" PRIx64 "\n", w, r, pos,
                            q.get_body());
                if (pos == 0) std::printf("perm.stores ins %016" PRIx64 " %zu = %d\n", w, r, g_perm_stores);
            }
        }
    }
    for (unsigned c = 0; c < 16; ++c) {
        permutation q{w};
        q.set_cnk(static_cast<std::uint8_t>(c));
        std::printf("perm.setcnk %016" PRIx64 " %u = %016" PRIx64 "\n", w, c, q.get_body());
    }
}

static void perm_grid(std::size_t per_n) {
    for (std::size_t num = 0; num <= 15; ++num) {
        permutation q{};
        g_perm_stores = 0;
        q.split_dest(num);
        std::printf("perm.split %zu = %016" PRIx64 "\n", num, q.get_body());
        std::printf("perm.stores split 0 %zu = %d\n", num, g_perm_stores);
    }
    for (std::size_t n = 0; n <= 15; ++n) {
        std::vector<unsigned> id(n);
        for (std::size_t i = 0; i < n; ++i) id[i] = static_cast<unsigned>(i);
        std::vector<std::vector<unsigned>> perms;
        perms.push_back(id);
        {
            auto r = id;
            for (std::size_t i = 0; i < n; ++i) r[i] = static_cast<unsigned>(n - 1 - i);
            perms.push_back(r);
        }
        for (std::size_t rot = 1; rot < n && rot < 4; ++rot) {
            auto r = id;
            for (std::size_t i = 0; i < n; ++i) r[i] = static_cast<unsigned>((i + rot) % n);
            perms.push_back(r);
        }
        for (std::size_t k = 0; k < per_n; ++k) {
            // random n distinct slots out of 0..14 in random order
            std::vector<unsigned> all(15);
            for (unsigned i = 0; i < 15; ++i) all[i] = i;
            for (std::size_t i = 14; i > 0; --i) std::swap(all[i], all[rnd() % (i + 1)]);
            all.resize(n);
            perms.push_back(all);
        }
        for (auto& pm : perms) {
            perm_case(perm_word(pm, 0), n);
            perm_case(perm_word(pm, rnd()), n);
        }
    }
}

// ---- key tuples ----
struct KTv {
    std::uint64_t slice;
    unsigned len;
};
static std::string slice_hex(std::uint64_t s) {
    char buf[17];
    unsigned char b[8];
    std::memcpy(b, &s, 8);
    for (int i = 0; i < 8; ++i) std::snprintf(buf + 2 * i, 3, "%02x", b[i]);
    return std::string(buf, 16);
}
static std::vector<KTv> kt_universe(bool wide) {
    const unsigned char alpha[] = {0x00, 0x01, 0x7f, 0x80, 0xff};
    std::vector<KTv> u;
    std::vector<std::uint64_t> pats;
    for (auto a : alpha)
        for (auto b : alpha)
            for (auto c : alpha) {
                unsigned char p1[8] = {a, b, c, 0, 0, 0, 0, 0};
                unsigned char p2[8] = {a, a, a, a, a, a, b, c};
                unsigned char p3[8] = {a, b, b, b, b, b, b, c};
                std::uint64_t s;
                std::memcpy(&s, p1, 8); pats.push_back(s);
                if (wide) {
                    std::memcpy(&s, p2, 8); pats.push_back(s);
                    std::memcpy(&s, p3, 8); pats.push_back(s);
                }
            }
    for (auto s : pats) {
        for (unsigned len = 0; len <= 9; ++len) {
            std::uint64_t m = s;
            if (len < 8) {
                unsigned char b[8];
                std::memcpy(b, &m, 8);
                for (unsigned i = len; i < 8; ++i) b[i] = 0;
                std::memcpy(&m, b, 8);
            }
            bool dup = false;
            for (auto& e : u)
                if (e.slice == m && e.len == len) { dup = true; break; }
            if (!dup) u.push_back({m, len});
        }
    }
    return u;
}

static void kt_grid(bool wide, std::size_t nrandom) {
    auto u = kt_universe(wide);
    std::fprintf(stderr, "kt universe: %zu tuples\n", u.size());
    using kt = base_node::key_tuple;
    for (auto& a : u)
        for (auto& b : u) {
            kt x{a.slice, static_cast<key_length_type>(a.len)};
            kt y{b.slice, static_cast<key_length_type>(b.len)};
            std::printf("kt.lt %s %u %s %u = %d\n", slice_hex(a.slice).c_str(), a.len,
                        slice_hex(b.slice).c_str(), b.len, x < y ? 1 : 0);
        }
    for (std::size_t i = 0; i < nrandom; ++i) {
        KTv a = u[rnd() % u.size()], b = u[rnd() % u.size()];
        // random full slices with lengths 8/9 and random shared prefixes
        std::uint64_t s1 = rnd(), s2 = (rnd() & 1) ? s1 : rnd();
        unsigned l1 = 8 + (rnd() & 1), l2 = 8 + (rnd() & 1);
        if (rnd() & 1) { a = {s1, l1}; }
        if (rnd() & 1) { b = {s2, l2}; }
        kt x{a.slice, static_cast<key_length_type>(a.len)};
        kt y{b.slice, static_cast<key_length_type>(b.len)};
        std::printf("kt.lt %s %u %s %u = %d\n", slice_hex(a.slice).c_str(), a.len,
                    slice_hex(b.slice).c_str(), b.len, x < y ? 1 : 0);
    }
    // key_tuple(string_view)
    const char* keys[] = {"", "a", "abcdefg", "abcdefgh", "abcdefghi", "abcdefghijklmnopq"};
    for (auto k : keys) {
        std::string_view sv{k};
        kt x{sv};
        std::string hex;
        for (unsigned char c : sv) { char b[3]; std::snprintf(b, 3, "%02x", c); hex += b; }
        std::printf("kt.of %s = %s %u\n", hex.empty() ? "-" : hex.c_str(),
                    slice_hex(x.get_key_slice()).c_str(), x.get_key_length());
    }
    {
        std::string z("\0\0\0", 3), z9("\0\0\0\0\0\0\0\0\0", 9), f8("\xff\xff\xff\xff\xff\xff\xff\xff", 8);
        for (auto& s : {z, z9, f8}) {
            kt x{std::string_view{s}};
            std::string hex;
            for (unsigned char c : s) { char b[3]; std::snprintf(b, 3, "%02x", c); hex += b; }
            std::printf("kt.of %s = %s %u\n", hex.c_str(), slice_hex(x.get_key_slice()).c_str(),
                        x.get_key_length());
        }
    }
    {
        auto mn = kt::min(), mx = kt::max();
        std::printf("kt.min = %s %u\n", slice_hex(mn.get_key_slice()).c_str(), mn.get_key_length());
        std::printf("kt.max = %s %u\n", slice_hex(mx.get_key_slice()).c_str(), mx.get_key_length());
    }
}

// sorted, distinct (under the layer rule: at most one link per slice) entry lists for node sites
static bool kt_less_spec(const KTv& a, const KTv& b) {
    unsigned la = a.len < 8 ? a.len : 8, lb = b.len < 8 ? b.len : 8;
    unsigned n = la < lb ? la : lb;
    int r = std::memcmp(&a.slice, &b.slice, n);
    if (r != 0) return r < 0;
    if (la != lb) return la < lb;
    return a.len < b.len;
}

static std::string ents_str(const std::vector<KTv>& e) {
    std::string s;
    for (auto& x : e) {
        s += " ";
        s += slice_hex(x.slice);
        s += "/";
        s += std::to_string(x.len);
    }
    return s;
}

static void node_sites(std::size_t nlists) {
    auto u = kt_universe(false);
    for (std::size_t it = 0; it < nlists; ++it) {
        std::size_t n = rnd() % 16; // 0..15 entries
        std::vector<KTv> e;
        // cluster: pick a few base slices so that equal-slice/different-length cases are common
        std::vector<KTv> pool;
        std::size_t base = rnd() % u.size();
        for (std::size_t i = 0; i < 40; ++i) pool.push_back(u[(base + (rnd() % 64)) % u.size()]);
        for (std::size_t i = 0; i < n * 3 && e.size() < n; ++i) {
            KTv c = pool[rnd() % pool.size()];
            bool dup = false;
            for (auto& x : e) if (x.slice == c.slice && x.len == c.len) dup = true;
            if (!dup) e.push_back(c);
        }
        std::sort(e.begin(), e.end(), kt_less_spec);
        // --- border node sites ---
        auto* bn = new border_node();
        bn->init_border();
        for (std::size_t i = 0; i < e.size(); ++i) {
            bn->set_key_slice_at(i, e[i].slice);
            bn->set_key_length_at(i, static_cast<key_length_type>(e[i].len));
        }
        {
            std::vector<unsigned> id(e.size());
            for (std::size_t i = 0; i < e.size(); ++i) id[i] = static_cast<unsigned>(i);
            bn->get_permutation().set_body(perm_word(id, 0));
        }
        std::string es = ents_str(e);
        for (std::size_t q = 0; q < 24; ++q) {
            KTv k = (q < 12 && !e.empty()) ? e[rnd() % e.size()] : pool[rnd() % pool.size()];
            if (q % 5 == 4) k.len = (k.len + 1 + rnd() % 9) % 10, k.slice = k.len < 8 ? (k.slice & ((1ULL << (8 * k.len)) - 1)) : k.slice;
            node_version64_body sv{};
            std::size_t pos = 99;
            link_or_value* lv = bn->get_lv_of(k.slice, static_cast<key_length_type>(k.len), sv, pos);
            if (lv == nullptr) std::printf("bn.lookup %s/%u |%s = -\n", slice_hex(k.slice).c_str(), k.len, es.c_str());
            else std::printf("bn.lookup %s/%u |%s = %zu\n", slice_hex(k.slice).c_str(), k.len, es.c_str(), pos);
            link_or_value* lv2 = bn->get_lv_of_without_lock(k.slice, static_cast<key_length_type>(k.len));
            if (lv2 == nullptr) std::printf("bn.lookupnb %s/%u |%s = -\n", slice_hex(k.slice).c_str(), k.len, es.c_str());
            else std::printf("bn.lookupnb %s/%u |%s = %zu\n", slice_hex(k.slice).c_str(), k.len, es.c_str(),
                             static_cast<std::size_t>(lv2 - bn->get_lv_at(0)));
            if (lv == nullptr) {
                std::size_t r = bn->compute_rank_if_insert(k.slice, static_cast<key_length_type>(k.len));
                std::printf("bn.rank %s/%u |%s = %zu\n", slice_hex(k.slice).c_str(), k.len, es.c_str(), r);
            }
        }
        // rearrange: shuffle the slots, then ask for the order
        if (!e.empty()) {
            std::vector<KTv> sh = e;
            for (std::size_t i = sh.size() - 1; i > 0; --i) std::swap(sh[i], sh[rnd() % (i + 1)]);
            for (std::size_t i = 0; i < sh.size(); ++i) {
                bn->set_key_slice_at(i, sh[i].slice);
                bn->set_key_length_at(i, static_cast<key_length_type>(sh[i].len));
            }
            bn->get_permutation().set_body(sh.size());
            g_perm_stores = 0;
            bn->permutation_rearrange();
            std::printf("perm.stores rearr 0 %zu = %d\n", sh.size(), g_perm_stores);
            std::printf("perm.rearr |%s = %016" PRIx64 "\n", ents_str(sh).c_str(), bn->get_permutation().get_body());
        }
        delete bn;
        // --- interior node sites (separators must be non-empty keys; at most 15) ---
        std::vector<KTv> ke;
        for (auto& x : e) if (x.len != 0) ke.push_back(x);
        if (!ke.empty()) {
            auto* in = new interior_node();
            in->init_interior();
            std::vector<border_node*> kids;
            for (std::size_t i = 0; i <= ke.size(); ++i) {
                auto* c = new border_node();
                c->init_border();
                kids.push_back(c);
                in->set_child_at(i, c);
            }
            for (std::size_t i = 0; i < ke.size(); ++i) in->set_key(i, ke[i].slice, static_cast<key_length_type>(ke[i].len));
            in->set_n_keys(static_cast<std::uint8_t>(ke.size()));
            std::string ks = ents_str(ke);
            for (std::size_t q = 0; q < 24; ++q) {
                KTv k = (q < 12) ? ke[rnd() % ke.size()] : pool[rnd() % pool.size()];
                node_version64_body v = in->get_stable_version();
                base_node* c = in->get_child_of(k.slice, static_cast<key_length_type>(k.len), v);
                std::size_t idx = 99;
                for (std::size_t i = 0; i < kids.size(); ++i) if (kids[i] == c) idx = i;
                std::printf("in.route %s/%u |%s = %zu\n", slice_hex(k.slice).c_str(), k.len, ks.c_str(), idx);
            }
            if (ke.size() < 15) {
                for (std::size_t q = 0; q < 6; ++q) {
                    KTv k = pool[rnd() % pool.size()];
                    if (k.len == 0) continue;
                    bool dup = false;
                    for (auto& x : ke) if (x.slice == k.slice && (x.len == k.len)) dup = true;
                    if (dup) continue;
                    // rebuild node, insert, find where the child landed
                    for (std::size_t i = 0; i < 16; ++i) in->set_child_at(i, i < kids.size() ? kids[i] : nullptr);
                    for (std::size_t i = 0; i < 15; ++i) {
                        if (i < ke.size()) in->set_key(i, ke[i].slice, static_cast<key_length_type>(ke[i].len));
                        else in->set_key(i, 0, 0);
                    }
                    in->set_n_keys(static_cast<std::uint8_t>(ke.size()));
                    auto* nc = new border_node();
                    nc->init_border();
                    in->insert(nc, std::make_pair(k.slice, static_cast<key_length_type>(k.len)));
                    std::size_t idx = 99;
                    for (std::size_t i = 0; i < 16; ++i) if (in->get_child_at(i) == nc) idx = i;
                    std::string after;
                    for (std::size_t i = 0; i < in->get_n_keys(); ++i) {
                        after += " " + slice_hex(in->get_key_slice_at(i)) + "/" + std::to_string(in->get_key_length_at(i));
                    }
                    std::printf("in.insert %s/%u |%s = %zu |%s\n", slice_hex(k.slice).c_str(), k.len, ks.c_str(), idx, after.c_str());
                    delete nc;
                }
            }
            for (auto* c : kids) delete c;
            delete in;
        }
    }
}

// ---- values and tagged words ----
static void value_grid() {
    const std::size_t lens[] = {0, 1, 7, 8, 9, 63, 64, 65, 4095, 4096, 4097, 1u << 20, 4u << 20};
    for (auto len : lens) {
        for (std::size_t al = 1; al <= 4096; al <<= 1) {
            std::string src(len, '\0');
            for (std::size_t i = 0; i < len; ++i) src[i] = static_cast<char>((i * 131 + len + al) & 0xff);
            g_last_size = g_last_align = 0;
            value* v = value::create_value<false>(src.data(), len, static_cast<std::align_val_t>(al));
            auto raw = reinterpret_cast<std::uintptr_t>(v);
            auto [gp, gsz, gal] = value::get_gc_info(v);
            auto base = reinterpret_cast<std::uintptr_t>(gp);
            auto body = reinterpret_cast<std::uintptr_t>(value::get_body(v));
            bool same = std::memcmp(value::get_body(v), src.data(), len) == 0;
            std::printf("val.create %zu %zu = new %zu %zu tagdiff %" PRIx64 " isptr %d bodyoff %zu bodymod %zu len %zu gc %zu %zu need %d bytes %d\n",
                        len, al, g_last_size, g_last_align,
                        static_cast<std::uint64_t>(raw ^ base), value::is_value_ptr(v) ? 1 : 0,
                        static_cast<std::size_t>(body - base), static_cast<std::size_t>(body % al),
                        value::get_len(v), gsz, static_cast<std::size_t>(gal), value::need_delete(v) ? 1 : 0, same ? 1 : 0);
            value::delete_value(v);
        }
    }
    // inline values: stored by value
    for (int i = 0; i < 64; ++i) {
        std::uintptr_t x = rnd() & ((1ULL << 62) - 1);
        value* v = value::create_value<true>(&x, sizeof(x), static_cast<std::align_val_t>(8));
        std::printf("val.inline %016" PRIx64 " = %016" PRIx64 " isptr %d len %zu body %016" PRIx64 "\n",
                    static_cast<std::uint64_t>(x), static_cast<std::uint64_t>(reinterpret_cast<std::uintptr_t>(v)),
                    value::is_value_ptr(v) ? 1 : 0, value::get_len(v),
                    static_cast<std::uint64_t>(reinterpret_cast<std::uintptr_t>(value::get_body(v))));
    }
    // classification of raw words by link_or_value
    for (int i = 0; i < 4000; ++i) {
        std::uint64_t w = rnd();
        switch (i % 8) {
            case 0: w &= (1ULL << 62) - 1; break;
            case 1: w = (w & ((1ULL << 62) - 1)) | (1ULL << 62); break;
            case 2: w = (w & ((1ULL << 62) - 1)) | (1ULL << 63); break;
            case 3: w = 1ULL << 62; break;
            case 4: w = 0; break;
            default: break;
        }
        link_or_value lv;
        static_assert(sizeof(link_or_value) == 8);
        std::memcpy(reinterpret_cast<void*>(&lv), &w, 8);
        auto nl = reinterpret_cast<std::uintptr_t>(lv.get_next_layer());
        auto gv = reinterpret_cast<std::uintptr_t>(lv.get_value());
        std::printf("lv.classify %016" PRIx64 " = %016" PRIx64 " %016" PRIx64 " %d\n", w,
                    static_cast<std::uint64_t>(nl), static_cast<std::uint64_t>(gv),
                    value::is_value_ptr(reinterpret_cast<value*>(gv)) ? 1 : 0);
    }
    {
        link_or_value lv;
        lv.init_lv();
        std::uint64_t w;
        std::memcpy(&w, reinterpret_cast<void*>(&lv), 8);
        std::printf("lv.init = %016" PRIx64 "\n", w);
        lv.set_next_layer(reinterpret_cast<base_node*>(0x7f0012345640ULL));
        std::memcpy(&w, reinterpret_cast<void*>(&lv), 8);
        std::printf("lv.setnext %016" PRIx64 " = %016" PRIx64 "\n", 0x7f0012345640ULL, w);
    }
}

int main(int argc, char** argv) {
    std::string what = argc > 1 ? argv[1] : "all";
    std::size_t scale = argc > 2 ? std::strtoull(argv[2], nullptr, 10) : 1;
    if (const char* s = std::getenv("VERIF_SEED")) {
        rng_state ^= (std::strtoull(s, nullptr, 10) + 1) * 0x9E3779B97F4A7C15ULL;
        if (rng_state == 0) rng_state = 1;
    }
    FLAGS_logtostderr = true;
#ifdef YAKUSHIMA_VERIF
    yakushima::verif::hook_slot() = &count_hook;
#endif
    std::printf("sizeof border %zu interior %zu lv %zu\n", sizeof(border_node), sizeof(interior_node), sizeof(link_or_value));
    if (what == "ver" || what == "all") ver_grid(2000 * scale);
    if (what == "perm" || what == "all") perm_grid(20 * scale);
    if (what == "kt" || what == "all") { kt_grid(scale > 1, 20000 * scale); node_sites(400 * scale); }
    if (what == "val" || what == "all") value_grid();
    return 0;
}
